(* Proofs about the round engine model (Model/Engine.v): properties C07/C08/C09.

   Everything is proved for an arbitrary [table] satisfying the boolean
   well-formedness predicate [wf]; [all_tables_wf] shows by computation that the
   six generated tables satisfy it. *)
From Coq Require Import Arith List Lia Bool Permutation.
From TSS Require Import Base.Outcome Model.Engine Gen.Tables.
Import ListNotations.


(* ------------------------------------------------------------------ *)
(** * 0. Lists: [set_nth]                                               *)
(* ------------------------------------------------------------------ *)

Lemma length_set_nth : forall A (l : list A) i v, length (set_nth l i v) = length l.
Proof. induction l as [|h t IH]; intros [|i] v; cbn; auto. Qed.

Lemma nth_set_nth : forall A (l : list A) i j v d,
  nth i (set_nth l j v) d = if Nat.eqb i j && Nat.ltb j (length l) then v else nth i l d.
Proof.
  induction l as [|h t IH]; intros i j v d.
  - cbn. rewrite andb_false_r. destruct j; reflexivity.
  - destruct j as [|j]; destruct i as [|i]; cbn [set_nth nth length]; try reflexivity.
    rewrite IH. cbn [Nat.eqb]. replace (S j <? S (length t)) with (j <? length t); [reflexivity|].
    destruct (Nat.ltb_spec j (length t)), (Nat.ltb_spec (S j) (S (length t))); auto; lia.
Qed.

Lemma set_nth_overflow : forall A (l : list A) i v, length l <= i -> set_nth l i v = l.
Proof.
  induction l as [|h t IH]; intros [|i] v H; cbn in *; auto; try lia. f_equal. apply IH. lia.
Qed.

Lemma set_nth_app : forall A (pre : list A) x t v,
  set_nth (pre ++ x :: t) (length pre) v = pre ++ v :: t.
Proof. induction pre as [|h p IH]; intros; cbn; auto. f_equal. apply IH. Qed.

Lemma nth_app_len : forall A (pre : list A) x t d, nth (length pre) (pre ++ x :: t) d = x.
Proof. induction pre; intros; cbn; auto. Qed.

Lemma forallb_ext' : forall A (f g : A -> bool) l, (forall x, f x = g x) -> forallb f l = forallb g l.
Proof. induction l; intros; cbn; auto. rewrite H, IHl; auto. Qed.

Lemma iter_succ_r' : forall A (f : A -> A) n x, Nat.iter (S n) f x = Nat.iter n f (f x).
Proof.
  induction n; intros; [reflexivity|].
  change (f (Nat.iter (S n) f x) = f (Nat.iter n f (f x))). f_equal. apply IHn.
Qed.

Lemma iter_fix : forall A (f : A -> A) n x, f x = x -> Nat.iter n f x = x.
Proof.
  induction n; intros; [reflexivity|].
  change (f (Nat.iter n f x) = x). rewrite IHn; auto.
Qed.

Lemma app_cons_assoc : forall A (pre : list A) x t, pre ++ x :: t = (pre ++ [x]) ++ t.
Proof. intros. rewrite <- app_assoc. reflexivity. Qed.

(* ------------------------------------------------------------------ *)
(** * 1. Static part of a party state, frame lemmas                     *)
(* ------------------------------------------------------------------ *)

(** The part of the state that never changes: roles, own index, committee sizes. *)
Definition static (s : pstate) := (ps_old s, ps_new s, ps_idx s, ps_nold s, ps_nnew s).

Lemma static_inv : forall s s', static s = static s' ->
  ps_old s = ps_old s' /\ ps_new s = ps_new s' /\ ps_idx s = ps_idx s' /\
  ps_nold s = ps_nold s' /\ ps_nnew s = ps_nnew s'.
Proof. unfold static. intros s s' H. inversion H. auto. Qed.

Lemma holds_static : forall c s s', static s = static s' -> holds c s = holds c s'.
Proof. intros c s s' H. apply static_inv in H. destruct H as (H1 & H2 & _). unfold holds. rewrite H1, H2. reflexivity. Qed.

Lemma csize_static : forall c s s', static s = static s' -> csize s c = csize s' c.
Proof. intros c s s' H. apply static_inv in H. destruct H as (_ & _ & _ & H1 & H2). destruct c; cbn; auto. Qed.

Lemma static_store_put : forall s t j f, static (store_put s t j f) = static s.
Proof. reflexivity. Qed.
Lemma static_with_ok : forall s c v, static (with_ok s c v) = static s.
Proof. intros s [] v; reflexivity. Qed.
Lemma static_with_round : forall s k, static (with_round s k) = static s.
Proof. reflexivity. Qed.

Lemma round_store_put : forall s t j f, ps_round (store_put s t j f) = ps_round s.
Proof. reflexivity. Qed.
Lemma round_with_ok : forall s c v, ps_round (with_ok s c v) = ps_round s.
Proof. intros s [] v; reflexivity. Qed.
Lemma store_with_ok : forall s c v, ps_store (with_ok s c v) = ps_store s.
Proof. intros s [] v; reflexivity. Qed.
Lemma store_with_round : forall s k, ps_store (with_round s k) = ps_store s.
Proof. reflexivity. Qed.

Lemma okvec_with_ok_same : forall s c v, okvec (with_ok s c v) c = v.
Proof. intros s [] v; reflexivity. Qed.
Lemma okvec_with_ok_other : forall s c c' v, c <> c' -> okvec (with_ok s c v) c' = okvec s c'.
Proof. intros s [] [] v H; try reflexivity; congruence. Qed.
Lemma with_ok_with_ok : forall s c v v', with_ok (with_ok s c v) c v' = with_ok s c v'.
Proof. intros s [] v v'; reflexivity. Qed.
Lemma with_ok_id : forall s c, with_ok s c (okvec s c) = s.
Proof. intros [] []; reflexivity. Qed.
Lemma okvec_store_put : forall s t j f c, okvec (store_put s t j f) c = okvec s c.
Proof. intros s t j f []; reflexivity. Qed.
Lemma okvec_with_round : forall s k c, okvec (with_round s k) c = okvec s c.
Proof. intros s k []; reflexivity. Qed.
Lemma with_ok_store_put : forall s c v t j f,
  with_ok (store_put s t j f) c v = store_put (with_ok s c v) t j f.
Proof. intros s [] v t j f; reflexivity. Qed.
Lemma with_round_store_put : forall s k t j f,
  with_round (store_put s t j f) k = store_put (with_round s k) t j f.
Proof. reflexivity. Qed.

Definition committee_eqb (a b : committee) : bool :=
  match a, b with Old, Old | New, New => true | _, _ => false end.
Lemma committee_eqb_spec : forall a b, committee_eqb a b = true <-> a = b.
Proof. intros [] []; cbn; split; congruence. Qed.

(* ------------------------------------------------------------------ *)
(** * 2. The store                                                      *)
(* ------------------------------------------------------------------ *)

Definition row_len (s : pstate) (t : nat) : nat := length (nth t (ps_store s) []).

Lemma store_get_put : forall s t j f t' j',
  store_get (store_put s t j f) t' j' =
  if Nat.eqb t' t && Nat.eqb j' j && Nat.ltb j (row_len s t) then Some f else store_get s t' j'.
Proof.
  intros s t j f t' j'. unfold store_get, store_put, row_len. cbn [ps_store].
  rewrite nth_set_nth.
  destruct (Nat.eqb_spec t' t) as [->|Ht]; cbn [andb].
  - destruct (Nat.ltb_spec t (length (ps_store s))) as [Hl|Hl].
    + rewrite nth_set_nth. reflexivity.
    + rewrite (nth_overflow (ps_store s) [] Hl). cbn [length]. rewrite andb_false_r.
      destruct j'; reflexivity.
  - reflexivity.
Qed.

Lemma row_len_put : forall s t j f t', row_len (store_put s t j f) t' = row_len s t'.
Proof.
  intros. unfold row_len, store_put. cbn [ps_store]. rewrite nth_set_nth.
  destruct (Nat.eqb_spec t' t) as [->|Ht]; cbn [andb]; auto.
  destruct (Nat.ltb_spec t (length (ps_store s))) as [Hl|Hl]; auto.
  apply length_set_nth.
Qed.

Lemma store_len_put : forall s t j f, length (ps_store (store_put s t j f)) = length (ps_store s).
Proof. intros. unfold store_put. cbn [ps_store]. apply length_set_nth. Qed.

(** extensionality for party states *)
Lemma pstate_ext : forall s s',
  static s = static s' -> ps_round s = ps_round s' ->
  ps_okold s = ps_okold s' -> ps_oknew s = ps_oknew s' ->
  length (ps_store s) = length (ps_store s') ->
  (forall t, row_len s t = row_len s' t) ->
  (forall t j, store_get s t j = store_get s' t j) ->
  s = s'.
Proof.
  intros [o n i no nn r oo on st] [o' n' i' no' nn' r' oo' on' st'] Hs Hr Ho Hn Hl Hrow Hget.
  unfold static in Hs. cbn in *. inversion Hs; subst. f_equal.
  apply nth_ext with (d := []) (d' := []); auto.
  intros t Ht. apply nth_ext with (d := None) (d' := None).
  - apply (Hrow t).
  - intros j Hj. apply (Hget t j).
Qed.

Lemma store_put_comm : forall s t1 j1 f1 t2 j2 f2,
  (t1, j1) <> (t2, j2) \/ f1 = f2 ->
  store_put (store_put s t1 j1 f1) t2 j2 f2 = store_put (store_put s t2 j2 f2) t1 j1 f1.
Proof.
  intros s t1 j1 f1 t2 j2 f2 H. apply pstate_ext; try reflexivity.
  - rewrite !store_len_put. reflexivity.
  - intros t. rewrite !row_len_put. reflexivity.
  - intros t j. rewrite !store_get_put, !row_len_put.
    destruct (Nat.eqb_spec t t2), (Nat.eqb_spec t t1), (Nat.eqb_spec j j2), (Nat.eqb_spec j j1);
      cbn [andb]; try reflexivity; subst.
    destruct (j1 <? row_len s t1); cbn [andb]; try reflexivity.
    destruct H as [H|H]; congruence.
Qed.

Lemma store_put_absorb : forall s t j f,
  (j < row_len s t -> store_get s t j = Some f) -> store_put s t j f = s.
Proof.
  intros s t j f H. apply pstate_ext; try reflexivity.
  - apply store_len_put.
  - intros t'. apply row_len_put.
  - intros t' j'. rewrite store_get_put.
    destruct (Nat.eqb_spec t' t), (Nat.eqb_spec j' j), (Nat.ltb_spec j (row_len s t)); cbn [andb]; try reflexivity.
    subst. symmetry. auto.
Qed.

(* ------------------------------------------------------------------ *)
(** * 3. Well-formed tables                                             *)
(* ------------------------------------------------------------------ *)

(** The flag an honest sender puts on a message of type [ty]. *)
Definition honest_flag (tbl : table) (ty : nat) : bool :=
  match nth_error (t_types tbl) ty with Some mt => mt_bcast mt | None => false end.

Definition msg := (nat * nat * bool)%type.   (* type, sender index, IsBroadcast flag *)

Definition good_msgb (tbl : table) (s : pstate) (m : msg) : bool :=
  let '(ty, from, flag) := m in validate tbl s ty from && Bool.eqb flag (honest_flag tbl ty).
Definition good_msg (tbl : table) (s : pstate) (m : msg) : Prop := good_msgb tbl s m = true.

Definition holdsb (c : rcond) (o n : bool) : bool :=
  match c with
  | RAlways => true | ROld => o | RNew => n | RNotOld => negb o | RNotNew => negb n | ROldAndNew => o && n
  end.
Lemma holds_holdsb : forall c s, holds c s = holdsb c (ps_old s) (ps_new s).
Proof. intros []; reflexivity. Qed.

(** [c1 /\ c2 -> c3] for every role assignment *)
Definition cond_implies (c1 c2 c3 : rcond) : bool :=
  forallb (fun p : bool * bool => implb (holdsb c1 (fst p) (snd p) && holdsb c2 (fst p) (snd p)) (holdsb c3 (fst p) (snd p)))
          [(true, true); (true, false); (false, true); (false, false)].

Lemma cond_implies_sound : forall c1 c2 c3 s,
  cond_implies c1 c2 c3 = true -> holds c1 s = true -> holds c2 s = true -> holds c3 s = true.
Proof.
  intros c1 c2 c3 s H H1 H2. rewrite holds_holdsb in *. unfold cond_implies in H.
  rewrite forallb_forall in H.
  assert (Hin : In (ps_old s, ps_new s) [(true, true); (true, false); (false, true); (false, false)]).
  { destruct (ps_old s), (ps_new s); cbn; auto. }
  specialize (H _ Hin). cbn [fst snd] in H. rewrite H1, H2 in H. exact H.
Qed.

Definition scans_of (cl : list uclause) : list (rcond * scan) :=
  flat_map (fun u => match u with UScan c sc => [(c, sc)] | _ => [] end) cl.

Definition emit_flag (e : emission) : bool := match em_mode e with EBroadcast => true | EP2P _ _ => false end.

(** W1: no scan loop uses the early-exit style (all loops are "continue" loops) *)
Definition wf_noearly (tbl : table) : bool :=
  forallb (fun r => forallb (fun p => negb (sc_early (snd p))) (scans_of (r_update r))) (t_rounds tbl).
(** W2: every CanAccept clause demands the flag of its message type's constructor *)
Definition wf_accept_flags (tbl : table) : bool :=
  forallb (fun r => forallb (fun a => Bool.eqb (ac_bcast a) (honest_flag tbl (ac_type a))) (r_accepts r)) (t_rounds tbl).
(** W3: a message a round stores for itself carries the flag of its message type's constructor *)
Definition wf_selfstore_flags (tbl : table) : bool :=
  forallb (fun r => forallb (fun e => implb (em_self_store e) (Bool.eqb (emit_flag e) (honest_flag tbl (em_type e))))
                            (st_emits (r_start r))) (t_rounds tbl).
(** W4: every store a scan requires (under the clause's and the store's role condition) is accepted
    by the same round's CanAccept under a condition implied by them *)
Definition wf_scan_accepted (tbl : table) : bool :=
  forallb (fun r => forallb (fun p : rcond * scan =>
             forallb (fun sr : nat * rcond =>
               existsb (fun a => Nat.eqb (ac_type a) (fst sr) && cond_implies (fst p) (snd sr) (ac_cond a)) (r_accepts r))
               (sc_stores (snd p))) (scans_of (r_update r))) (t_rounds tbl).
(** W5: only the last round signals the end, and the last round does signal it, unconditionally *)
Definition wf_end_last (tbl : table) : bool :=
  forallb (fun r => negb (st_end (r_start r))) (removelast (t_rounds tbl)) &&
  match rev (t_rounds tbl) with
  | r :: _ => st_end (r_start r) && match st_guard (r_start r) with RAlways => true | _ => false end
  | [] => false
  end.
(** (not part of [wf]; checked separately in [all_tables_extra]) type indices used by accepts, scans and
    emissions are declared *)
Definition wf_indices (tbl : table) : bool :=
  let n := length (t_types tbl) in
  forallb (fun r => forallb (fun a => Nat.ltb (ac_type a) n) (r_accepts r) &&
                    forallb (fun p : rcond * scan => forallb (fun sr : nat * rcond => Nat.ltb (fst sr) n) (sc_stores (snd p))) (scans_of (r_update r)) &&
                    forallb (fun e => Nat.ltb (em_type e) n) (st_emits (r_start r))) (t_rounds tbl).

Definition wf (tbl : table) : bool :=
  wf_noearly tbl && wf_accept_flags tbl && wf_selfstore_flags tbl && wf_scan_accepted tbl && wf_end_last tbl.

Lemma all_tables_wf : forallb wf all_tables = true.
Proof. vm_compute. reflexivity. Qed.

Lemma wf_parts : forall tbl, wf tbl = true ->
  wf_noearly tbl = true /\ wf_accept_flags tbl = true /\ wf_selfstore_flags tbl = true /\
  wf_scan_accepted tbl = true /\ wf_end_last tbl = true.
Proof. unfold wf. intros tbl H. repeat (apply andb_true_iff in H; destruct H as [H ?]). auto 10. Qed.

(* ------------------------------------------------------------------ *)
(** * 4. Update(): closed form of the scan loop                         *)
(* ------------------------------------------------------------------ *)

(** [orvec f k ok]: or the predicate [f] (indexed from [k]) into the vector [ok] *)
Fixpoint orvec (f : nat -> bool) (k : nat) (ok : list bool) : list bool :=
  match ok with [] => [] | b :: t => (b || f k) :: orvec f (S k) t end.

Lemma length_orvec : forall f ok k, length (orvec f k ok) = length ok.
Proof. induction ok; intros; cbn; auto. Qed.

Lemma nth_orvec : forall f ok k j,
  nth j (orvec f k ok) false = nth j ok false || (Nat.ltb j (length ok) && f (k + j)).
Proof.
  induction ok as [|b t IH]; intros k j.
  - destruct j; reflexivity.
  - destruct j as [|j]; cbn [orvec nth length].
    + rewrite Nat.add_0_r. reflexivity.
    + rewrite IH. replace (S k + j) with (k + S j) by lia. reflexivity.
Qed.

Lemma orvec_idem_mono : forall f f' ok k,
  (forall j, f j = true -> f' j = true) -> orvec f' k (orvec f k ok) = orvec f' k ok.
Proof.
  induction ok as [|b t IH]; intros k H; cbn; auto. rewrite IH by auto. f_equal.
  destruct b, (f k) eqn:E, (f' k) eqn:E'; auto. apply H in E. congruence.
Qed.

Lemma orvec_idem : forall f ok k, orvec f k (orvec f k ok) = orvec f k ok.
Proof. intros. apply orvec_idem_mono. auto. Qed.

Lemma orvec_fix_mono : forall f f' ok k,
  (forall j, f' j = true -> f j = true) -> orvec f k ok = ok -> orvec f' k ok = ok.
Proof.
  induction ok as [|b t IH]; intros k H E; cbn in *; auto. inversion E as [[E1 E2]].
  rewrite E2. rewrite (IH _ H E2). rewrite E1. f_equal.
  destruct b, (f k) eqn:Ef, (f' k) eqn:Ef'; auto. apply H in Ef'. congruence.
Qed.

Lemma orvec_mono_alltrue : forall f f' ok k,
  (forall j, f j = true -> f' j = true) -> forallb (fun b => b) (orvec f k ok) = true ->
  orvec f' k ok = orvec f k ok.
Proof.
  induction ok as [|b t IH]; intros k H E; cbn in *; auto.
  apply andb_true_iff in E. destruct E as [E1 E2]. rewrite (IH _ H E2). f_equal.
  destruct b, (f k) eqn:Ef, (f' k) eqn:Ef'; auto. apply H in Ef. congruence.
Qed.

Lemma orvec_mono_forallb : forall f f' ok k,
  (forall j, f' j = true -> f j = true) -> forallb (fun b => b) (orvec f k ok) = false ->
  forallb (fun b => b) (orvec f' k ok) = false.
Proof.
  induction ok as [|b t IH]; intros k H E; cbn in *; auto.
  apply andb_false_iff in E. apply andb_false_iff. destruct E as [E|E].
  - left. destruct b, (f k) eqn:Ef, (f' k) eqn:Ef'; auto. apply H in Ef'. congruence.
  - right. eauto.
Qed.

Lemma orvec_ext : forall f f' ok k, (forall j, f j = f' j) -> orvec f k ok = orvec f' k ok.
Proof. induction ok; intros; cbn; auto. rewrite H. f_equal. auto. Qed.

Lemma scan_loop_closed : forall r s sc t pre,
  sc_early sc = false ->
  scan_loop r s sc (seq (length pre) (length t)) (pre ++ t) = pre ++ orvec (scan_ok r s sc) (length pre) t.
Proof.
  intros r s sc t. induction t as [|b t IH]; intros pre He.
  - reflexivity.
  - cbn [length seq scan_loop orvec]. rewrite nth_app_len.
    assert (HS : S (length pre) = length (pre ++ [b])) by (rewrite app_length; cbn; lia).
    destruct b.
    + rewrite (app_cons_assoc _ pre true t), HS, IH by assumption.
      rewrite <- app_assoc. reflexivity.
    + cbn [orb]. destruct (scan_ok r s sc (length pre)) eqn:Hok.
      * rewrite set_nth_app.
        assert (HS' : S (length pre) = length (pre ++ [true])) by (rewrite app_length; cbn; lia).
        rewrite (app_cons_assoc _ pre true t), HS', IH by assumption.
        rewrite <- app_assoc. reflexivity.
      * rewrite He. rewrite (app_cons_assoc _ pre false t), HS, IH by assumption.
        rewrite <- app_assoc. reflexivity.
Qed.

Lemma run_scan_closed : forall r s sc, sc_early sc = false ->
  run_scan r s sc = with_ok s (sc_vec sc) (orvec (scan_ok r s sc) 0 (okvec s (sc_vec sc))).
Proof.
  intros r s sc He. unfold run_scan. cbv zeta. f_equal.
  apply (scan_loop_closed r s sc (okvec s (sc_vec sc)) [] He).
Qed.

(** the clause of Update() that fires: the scan of the first clause whose condition holds, if it is a scan *)
Fixpoint selected_scan (s : pstate) (cl : list uclause) : option scan :=
  match cl with
  | [] => None
  | USkip c :: rest => if holds c s then None else selected_scan s rest
  | UError c :: rest => if holds c s then None else selected_scan s rest
  | UScan c sc :: rest => if holds c s then Some sc else selected_scan s rest
  end.

Lemma run_update_sel : forall r s cl,
  run_update r s cl = match selected_scan s cl with Some sc => run_scan r s sc | None => s end.
Proof.
  induction cl as [|[c|c sc|c] rest IH]; cbn; auto; destruct (holds c s); auto.
Qed.

Lemma selected_scan_static : forall s s' cl, static s = static s' -> selected_scan s cl = selected_scan s' cl.
Proof.
  intros s s' cl H. induction cl as [|[c|c sc|c] rest IH]; cbn; auto; rewrite (holds_static c _ _ H), IH; reflexivity.
Qed.

Lemma selected_scan_in : forall s cl sc, selected_scan s cl = Some sc ->
  exists c, In (c, sc) (scans_of cl) /\ holds c s = true.
Proof.
  induction cl as [|[c|c sc'|c] rest IH]; cbn; intros sc H; try discriminate.
  - destruct (holds c s); try discriminate. auto.
  - destruct (holds c s) eqn:Hc.
    + inversion H; subst. exists c. auto.
    + destruct (IH _ H) as (c' & Hin & Hh). exists c'. auto.
  - destruct (holds c s); try discriminate. auto.
Qed.

Definition upd (r : round_spec) (s : pstate) : pstate := run_update r s (r_update r).

Section WithTable.
Variable tbl : table.

Lemma cur_round_in : forall s r, cur_round tbl s = Some r -> In r (t_rounds tbl).
Proof. unfold cur_round. intros s r H. destruct (ps_round s); try discriminate. eapply nth_error_In; eauto. Qed.

Lemma noearly_sel : wf_noearly tbl = true -> forall r s sc,
  In r (t_rounds tbl) -> selected_scan s (r_update r) = Some sc -> sc_early sc = false.
Proof.
  intros W r s sc Hr Hsel. unfold wf_noearly in W. rewrite forallb_forall in W.
  specialize (W _ Hr). rewrite forallb_forall in W.
  destruct (selected_scan_in _ _ _ Hsel) as (c & Hin & _). specialize (W _ Hin). cbn in W.
  destruct (sc_early sc); auto; discriminate.
Qed.

(** scan_ok depends only on roles and the store *)
Lemma can_accept_ext : forall r s s' t f, static s = static s' -> can_accept r s t f = can_accept r s' t f.
Proof.
  intros r s s' t f H. unfold can_accept. induction (r_accepts r) as [|a l IH]; cbn; auto.
  rewrite (holds_static (ac_cond a) _ _ H), IH. reflexivity.
Qed.

Lemma scan_ok_ext : forall r s s' sc j, static s = static s' -> ps_store s = ps_store s' ->
  scan_ok r s sc j = scan_ok r s' sc j.
Proof.
  intros r s s' sc j H Hst. unfold scan_ok. apply forallb_ext'. intros [t c]. cbn [fst snd].
  rewrite (holds_static c _ _ H). unfold store_get. rewrite Hst.
  destruct (nth j (nth t (ps_store s') []) None); auto.
  rewrite (can_accept_ext r _ _ t b H). reflexivity.
Qed.

(** closed form of Update() *)
Lemma upd_closed : wf_noearly tbl = true -> forall r s, In r (t_rounds tbl) ->
  upd r s = match selected_scan s (r_update r) with
            | Some sc => with_ok s (sc_vec sc) (orvec (scan_ok r s sc) 0 (okvec s (sc_vec sc)))
            | None => s
            end.
Proof.
  intros W r s Hr. unfold upd. rewrite run_update_sel.
  destruct (selected_scan s (r_update r)) as [sc|] eqn:Hsel; auto.
  apply run_scan_closed. eapply noearly_sel; eauto.
Qed.

Lemma static_upd : forall r s, static (upd r s) = static s.
Proof.
  intros. unfold upd. rewrite run_update_sel. destruct (selected_scan s (r_update r)); auto.
  unfold run_scan. apply static_with_ok.
Qed.
Lemma round_upd : forall r s, ps_round (upd r s) = ps_round s.
Proof.
  intros. unfold upd. rewrite run_update_sel. destruct (selected_scan s (r_update r)); auto.
  unfold run_scan. apply round_with_ok.
Qed.
Lemma store_upd : forall r s, ps_store (upd r s) = ps_store s.
Proof.
  intros. unfold upd. rewrite run_update_sel. destruct (selected_scan s (r_update r)); auto.
  unfold run_scan. apply store_with_ok.
Qed.

Lemma upd_idem : wf_noearly tbl = true -> forall r s, In r (t_rounds tbl) -> upd r (upd r s) = upd r s.
Proof.
  intros W r s Hr. rewrite (upd_closed W r (upd r s) Hr).
  rewrite (selected_scan_static _ _ _ (static_upd r s)).
  rewrite (upd_closed W r s Hr).
  destruct (selected_scan s (r_update r)) as [sc|] eqn:Hsel; auto.
  rewrite okvec_with_ok_same, with_ok_with_ok. f_equal.
  rewrite (orvec_ext (scan_ok r (with_ok s (sc_vec sc) (orvec (scan_ok r s sc) 0 (okvec s (sc_vec sc)))) sc) (scan_ok r s sc)).
  - apply orvec_idem.
  - intros j. apply scan_ok_ext. apply static_with_ok. apply store_with_ok.
Qed.

End WithTable.

(* ------------------------------------------------------------------ *)
(** * 5. Start() of a round                                             *)
(* ------------------------------------------------------------------ *)

(** the ok bit that Start() of round [r] gives to peer [j] of committee [c] *)
Definition start_ok (r : round_spec) (s : pstate) (c : committee) (j : nat) : bool :=
  let st := r_start r in
  (match c with Old => st_all_old_pre st | New => st_all_new_pre st end) ||
  (holds (st_guard st) s &&
   ((match c with Old => st_all_old_post st | New => st_all_new_post st end) ||
    match st_self_ok st with Some cm => committee_eqb cm c && Nat.eqb j (ps_idx s) | None => false end)).

(** the events Start() of round [r] produces *)
Definition round_events (r : round_spec) : list event :=
  map (fun e => EvEmit (em_type e) (em_mode e)) (st_emits (r_start r)) ++ (if st_end (r_start r) then [EvEnd] else []).

(** the ok bookkeeping of Start(), without the self-stores *)
Definition start_oks (r : round_spec) (s0 : pstate) : pstate :=
  let st := r_start r in
  let s1 := with_ok (with_ok s0 Old (all_false (ps_okold s0))) New (all_false (ps_oknew s0)) in
  let s2 := if st_all_old_pre st then with_ok s1 Old (all_true (ps_okold s1)) else s1 in
  let s3 := if st_all_new_pre st then with_ok s2 New (all_true (ps_oknew s2)) else s2 in
  if negb (holds (st_guard st) s0) then s3
  else
    let s4 := if st_all_old_post st then with_ok s3 Old (all_true (ps_okold s3)) else s3 in
    let s5 := if st_all_new_post st then with_ok s4 New (all_true (ps_oknew s4)) else s4 in
    match st_self_ok st with
    | Some cm => with_ok s5 cm (set_nth (okvec s5 cm) (ps_idx s5) true)
    | None => s5
    end.

Lemma run_start_decomp : forall r s0,
  run_start r s0 =
  if holds (st_guard (r_start r)) s0
  then (fold_left apply_emit (st_emits (r_start r)) (start_oks r s0), round_events r)
  else (start_oks r s0, []).
Proof.
  intros r s0. unfold run_start, start_oks, round_events. cbv zeta.
  set (s1 := with_ok (with_ok s0 Old (all_false (ps_okold s0))) New (all_false (ps_oknew s0))).
  set (s2 := if st_all_old_pre (r_start r) then with_ok s1 Old (all_true (ps_okold s1)) else s1).
  set (s3 := if st_all_new_pre (r_start r) then with_ok s2 New (all_true (ps_oknew s2)) else s2).
  assert (H : static s3 = static s0).
  { subst s3 s2 s1. destruct (st_all_new_pre (r_start r)), (st_all_old_pre (r_start r)); reflexivity. }
  rewrite (holds_static _ _ _ H). destruct (holds (st_guard (r_start r)) s0); reflexivity.
Qed.

Lemma static_start_oks : forall r s0, static (start_oks r s0) = static s0.
Proof.
  intros r s0. unfold start_oks. cbv zeta.
  destruct (st_all_old_pre (r_start r)), (st_all_new_pre (r_start r)), (negb (holds (st_guard (r_start r)) s0)),
    (st_all_old_post (r_start r)), (st_all_new_post (r_start r)), (st_self_ok (r_start r)) as [[]|]; reflexivity.
Qed.
Lemma round_start_oks : forall r s0, ps_round (start_oks r s0) = ps_round s0.
Proof.
  intros r s0. unfold start_oks. cbv zeta.
  destruct (st_all_old_pre (r_start r)), (st_all_new_pre (r_start r)), (negb (holds (st_guard (r_start r)) s0)),
    (st_all_old_post (r_start r)), (st_all_new_post (r_start r)), (st_self_ok (r_start r)) as [[]|]; reflexivity.
Qed.
Lemma store_start_oks : forall r s0, ps_store (start_oks r s0) = ps_store s0.
Proof.
  intros r s0. unfold start_oks. cbv zeta.
  destruct (st_all_old_pre (r_start r)), (st_all_new_pre (r_start r)), (negb (holds (st_guard (r_start r)) s0)),
    (st_all_old_post (r_start r)), (st_all_new_post (r_start r)), (st_self_ok (r_start r)) as [[]|]; reflexivity.
Qed.
Lemma start_oks_put : forall r s0 t j f, start_oks r (store_put s0 t j f) = store_put (start_oks r s0) t j f.
Proof.
  intros r s0 t j f. unfold start_oks. cbv zeta.
  rewrite (holds_static _ _ _ (static_store_put s0 t j f)).
  destruct (st_all_old_pre (r_start r)), (st_all_new_pre (r_start r)), (negb (holds (st_guard (r_start r)) s0)),
    (st_all_old_post (r_start r)), (st_all_new_post (r_start r)), (st_self_ok (r_start r)) as [[]|]; reflexivity.
Qed.

Lemma nth_all_true : forall l j, j < length l -> nth j (all_true l) false = true.
Proof. induction l; intros [|j] H; cbn in *; try lia; auto. apply IHl. lia. Qed.
Lemma nth_all_false : forall l j, nth j (all_false l) false = false.
Proof. induction l; intros [|j]; cbn in *; auto. Qed.
Lemma length_all_true : forall l, length (all_true l) = length l.
Proof. intros. apply map_length. Qed.
Lemma length_all_false : forall l, length (all_false l) = length l.
Proof. intros. apply map_length. Qed.

Lemma length_okvec_start_oks : forall r s0 c, length (okvec (start_oks r s0) c) = length (okvec s0 c).
Proof.
  intros r s0 c. unfold start_oks. cbv zeta.
  destruct (st_all_old_pre (r_start r)), (st_all_new_pre (r_start r)), (negb (holds (st_guard (r_start r)) s0)),
    (st_all_old_post (r_start r)), (st_all_new_post (r_start r)), (st_self_ok (r_start r)) as [[]|], c;
    cbn; rewrite ?length_set_nth, ?length_all_true, ?length_all_false; reflexivity.
Qed.

Lemma nth_okvec_start_oks : forall r s0 c j, j < length (okvec s0 c) ->
  nth j (okvec (start_oks r s0) c) false = start_ok r s0 c j.
Proof.
  intros r s0 c j Hj. unfold start_oks, start_ok. cbv zeta.
  destruct (st_all_old_pre (r_start r)), (st_all_new_pre (r_start r)), (holds (st_guard (r_start r)) s0),
    (st_all_old_post (r_start r)), (st_all_new_post (r_start r)), (st_self_ok (r_start r)) as [[]|], c;
    cbn -[Nat.ltb Nat.eqb] in *; rewrite ?nth_set_nth, ?length_all_true, ?length_all_false;
    rewrite ?nth_all_true by (rewrite ?length_all_true, ?length_all_false; assumption);
    rewrite ?nth_all_false; try reflexivity;
    destruct (Nat.eqb_spec j (ps_idx s0)); cbn -[Nat.ltb]; try reflexivity;
    subst; destruct (Nat.ltb_spec (ps_idx s0) (length (ps_okold s0))); destruct (Nat.ltb_spec (ps_idx s0) (length (ps_oknew s0))); try reflexivity; lia.
Qed.

(** self-stores *)
Lemma static_apply_emits : forall l s, static (fold_left apply_emit l s) = static s.
Proof.
  induction l as [|e l IH]; intros s; cbn; auto. rewrite IH. unfold apply_emit. destruct (em_self_store e); reflexivity.
Qed.
Lemma round_apply_emits : forall l s, ps_round (fold_left apply_emit l s) = ps_round s.
Proof.
  induction l as [|e l IH]; intros s; cbn; auto. rewrite IH. unfold apply_emit. destruct (em_self_store e); reflexivity.
Qed.
Lemma okvec_apply_emits : forall l s c, okvec (fold_left apply_emit l s) c = okvec s c.
Proof.
  induction l as [|e l IH]; intros s c; cbn; auto. rewrite IH. unfold apply_emit.
  destruct (em_self_store e); auto using okvec_store_put.
Qed.

Lemma static_run_start : forall r s0, static (fst (run_start r s0)) = static s0.
Proof.
  intros. rewrite run_start_decomp. destruct (holds (st_guard (r_start r)) s0); cbn [fst].
  - rewrite static_apply_emits. apply static_start_oks.
  - apply static_start_oks.
Qed.
Lemma round_run_start : forall r s0, ps_round (fst (run_start r s0)) = ps_round s0.
Proof.
  intros. rewrite run_start_decomp. destruct (holds (st_guard (r_start r)) s0); cbn [fst].
  - rewrite round_apply_emits. apply round_start_oks.
  - apply round_start_oks.
Qed.
Lemma okvec_run_start : forall r s0 c, okvec (fst (run_start r s0)) c = okvec (start_oks r s0) c.
Proof.
  intros. rewrite run_start_decomp. destruct (holds (st_guard (r_start r)) s0); cbn [fst]; auto.
  apply okvec_apply_emits.
Qed.
Lemma events_run_start : forall r s0,
  snd (run_start r s0) = if holds (st_guard (r_start r)) s0 then round_events r else [].
Proof. intros. rewrite run_start_decomp. destruct (holds (st_guard (r_start r)) s0); reflexivity. Qed.

(* ------------------------------------------------------------------ *)
(** * 6. The Update / CanProceed / advance / Start loop                 *)
(* ------------------------------------------------------------------ *)

Section Loop.
Variable tbl : table.

(** one iteration of the loop: Update; if CanProceed then advance and Start the next round *)
Definition iter1 (s : pstate) : pstate * list event :=
  match cur_round tbl s with
  | None => (s, [])
  | Some r =>
      let s1 := upd r s in
      if can_proceed s1 then
        let s2 := with_round s1 (S (ps_round s1)) in
        match cur_round tbl s2 with
        | None => (s2, [])
        | Some r2 => run_start r2 s2
        end
      else (s1, [])
  end.

(** [settled s]: nothing more can happen without a new message: not running, or Update() changes
    nothing and CanProceed() is false *)
Definition settled (s : pstate) : Prop :=
  match cur_round tbl s with
  | None => True
  | Some r => upd r s = s /\ can_proceed s = false
  end.

(** the formulation of the task statement *)
Definition stable (s : pstate) : Prop :=
  finished tbl s = true \/ ps_round s = 0 \/
  exists r, cur_round tbl s = Some r /\ can_proceed (run_update r s (r_update r)) = false.

Lemma cur_round_none : forall s, cur_round tbl s = None <-> ps_round s = 0 \/ finished tbl s = true.
Proof.
  intros s. unfold cur_round, finished. destruct (ps_round s) as [|k].
  - split; auto.
  - rewrite nth_error_None. rewrite Nat.ltb_lt. split; [intros; right; lia | intros [H|H]; [discriminate | lia]].
Qed.

Lemma settled_stable : forall s, settled s -> stable s.
Proof.
  unfold settled, stable. intros s H. destruct (cur_round tbl s) as [r|] eqn:E.
  - right. right. exists r. split; auto. destruct H as [H1 H2]. unfold upd in H1. rewrite H1. exact H2.
  - apply cur_round_none in E. tauto.
Qed.

Lemma cur_round_static_round : forall s s', ps_round s = ps_round s' -> cur_round tbl s = cur_round tbl s'.
Proof. unfold cur_round. intros s s' H. rewrite H. reflexivity. Qed.

Lemma settled_iter1 : forall s, settled s -> iter1 s = (s, []).
Proof.
  unfold settled, iter1. intros s H. destruct (cur_round tbl s) as [r|]; auto.
  destruct H as [H1 H2]. cbv zeta. rewrite H1, H2. reflexivity.
Qed.

Lemma saturate_unfold : forall k s acc,
  saturate (S k) tbl s acc =
  match cur_round tbl s with
  | None => (s, acc)
  | Some r =>
      if can_proceed (upd r s) then
        match cur_round tbl (with_round (upd r s) (S (ps_round (upd r s)))) with
        | None => (with_round (upd r s) (S (ps_round (upd r s))), acc)
        | Some r2 => saturate k tbl (fst (run_start r2 (with_round (upd r s) (S (ps_round (upd r s))))))
                              (acc ++ snd (run_start r2 (with_round (upd r s) (S (ps_round (upd r s))))))
        end
      else (upd r s, acc)
  end.
Proof.
  intros. cbn [saturate]. unfold upd. destruct (cur_round tbl s) as [r|]; auto.
  destruct (can_proceed (run_update r s (r_update r))); auto.
  destruct (cur_round tbl (with_round (run_update r s (r_update r)) (S (ps_round (run_update r s (r_update r)))))); auto.
  destruct (run_start _ _). reflexivity.
Qed.

(** the accumulator is only appended to *)
Lemma saturate_acc : forall k s acc,
  saturate k tbl s acc = (fst (saturate k tbl s []), acc ++ snd (saturate k tbl s [])).
Proof.
  induction k as [|k IH]; intros s acc.
  - cbn. rewrite app_nil_r. reflexivity.
  - rewrite !saturate_unfold. destruct (cur_round tbl s) as [r|]; [|cbn; rewrite app_nil_r; reflexivity].
    destruct (can_proceed (upd r s)); [|cbn; rewrite app_nil_r; reflexivity].
    destruct (cur_round tbl (with_round (upd r s) (S (ps_round (upd r s))))) as [r2|]; [|cbn; rewrite app_nil_r; reflexivity].
    rewrite IH. rewrite (IH _ ([] ++ _)). cbn [fst snd app]. rewrite app_assoc. reflexivity.
Qed.

(** saturate = iterate [iter1] *)
Lemma saturate_iter1 : wf_noearly tbl = true -> forall k s acc,
  saturate (S k) tbl s acc = saturate k tbl (fst (iter1 s)) (acc ++ snd (iter1 s)).
Proof.
  intros W k s acc. rewrite saturate_unfold. unfold iter1.
  destruct (cur_round tbl s) as [r|] eqn:Hr.
  - cbv zeta. destruct (can_proceed (upd r s)) eqn:Hc.
    + destruct (cur_round tbl (with_round (upd r s) (S (ps_round (upd r s))))) as [r2|] eqn:Hr2.
      * reflexivity.
      * cbn [fst snd]. rewrite app_nil_r. destruct k; [reflexivity|]. rewrite saturate_unfold, Hr2. reflexivity.
    + cbn [fst snd]. rewrite app_nil_r. destruct k; [reflexivity|]. rewrite saturate_unfold.
      assert (Hr' : cur_round tbl (upd r s) = Some r).
      { rewrite <- Hr. apply cur_round_static_round. apply round_upd. }
      rewrite Hr'. rewrite (upd_idem tbl W r s (cur_round_in tbl s r Hr)). rewrite Hc. reflexivity.
  - cbn [fst snd]. rewrite app_nil_r. destruct k; [reflexivity|]. rewrite saturate_unfold, Hr. reflexivity.
Qed.

Lemma static_iter1 : forall s, static (fst (iter1 s)) = static s.
Proof.
  intros s. unfold iter1. destruct (cur_round tbl s) as [r|]; auto. cbv zeta.
  destruct (can_proceed (upd r s)); cbn [fst]; [|apply static_upd].
  destruct (cur_round tbl _) as [r2|]; cbn [fst].
  - rewrite static_run_start, static_with_round. apply static_upd.
  - rewrite static_with_round. apply static_upd.
Qed.

Lemma round_iter1 : forall s,
  ps_round (fst (iter1 s)) = ps_round s \/ ps_round (fst (iter1 s)) = S (ps_round s).
Proof.
  intros s. unfold iter1. destruct (cur_round tbl s) as [r|]; auto. cbv zeta.
  destruct (can_proceed (upd r s)); cbn [fst]; [|left; apply round_upd].
  right. destruct (cur_round tbl _) as [r2|]; cbn [fst].
  - rewrite round_run_start. cbn. rewrite round_upd. reflexivity.
  - cbn. rewrite round_upd. reflexivity.
Qed.

(** an iteration that does not advance leaves a settled state (this uses W1) *)
Lemma iter1_settled : wf_noearly tbl = true -> forall s,
  ps_round (fst (iter1 s)) = ps_round s -> settled (fst (iter1 s)).
Proof.
  intros W s. unfold iter1, settled. destruct (cur_round tbl s) as [r|] eqn:Hr.
  - cbv zeta. destruct (can_proceed (upd r s)) eqn:Hc.
    + destruct (cur_round tbl (with_round (upd r s) (S (ps_round (upd r s))))) as [r2|]; cbn [fst].
      * rewrite round_run_start. cbn. rewrite round_upd. lia.
      * cbn. rewrite round_upd. lia.
    + cbn [fst]. intros _.
      assert (Hr' : cur_round tbl (upd r s) = Some r).
      { rewrite <- Hr. apply cur_round_static_round. apply round_upd. }
      rewrite Hr'. split; auto. apply (upd_idem tbl W r s (cur_round_in tbl s r Hr)).
  - cbn [fst]. rewrite Hr. auto.
Qed.

(** an iteration that advances to "no round" (finished) leaves a settled state *)
Lemma finished_settled : forall s, cur_round tbl s = None -> settled s.
Proof. unfold settled. intros s H. rewrite H. exact I. Qed.

(** fuel: every iteration that continues increments the round number *)
Lemma saturate_settled : wf_noearly tbl = true -> forall k s acc,
  length (t_rounds tbl) < k + ps_round s -> settled (fst (saturate k tbl s acc)).
Proof.
  intros W. induction k as [|k IH]; intros s acc Hk.
  - cbn. apply finished_settled. apply cur_round_none. right. unfold finished. apply Nat.ltb_lt. lia.
  - rewrite saturate_unfold. destruct (cur_round tbl s) as [r|] eqn:Hr.
    + destruct (can_proceed (upd r s)) eqn:Hc.
      * destruct (cur_round tbl (with_round (upd r s) (S (ps_round (upd r s))))) as [r2|] eqn:Hr2.
        -- apply IH. rewrite round_run_start. cbn. rewrite round_upd. lia.
        -- cbn [fst]. apply finished_settled. exact Hr2.
      * cbn [fst]. unfold settled.
        assert (Hr' : cur_round tbl (upd r s) = Some r).
        { rewrite <- Hr. apply cur_round_static_round. apply round_upd. }
        rewrite Hr'. split; auto. apply (upd_idem tbl W r s (cur_round_in tbl s r Hr)).
    + cbn [fst]. apply finished_settled. exact Hr.
Qed.

Lemma saturate_full_settled : wf_noearly tbl = true -> forall s acc,
  settled (fst (saturate (S (length (t_rounds tbl))) tbl s acc)).
Proof.
  intros W s acc. destruct (ps_round s) as [|k] eqn:Hk.
  - rewrite saturate_unfold. assert (H : cur_round tbl s = None) by (apply cur_round_none; auto).
    rewrite H. cbn [fst]. apply finished_settled. exact H.
  - apply saturate_settled; auto. lia.
Qed.

Lemma saturate_round_mono : forall k s acc, ps_round s <= ps_round (fst (saturate k tbl s acc)).
Proof.
  induction k as [|k IH]; intros s acc; [cbn; lia|].
  rewrite saturate_unfold. destruct (cur_round tbl s) as [r|]; [|cbn; lia].
  destruct (can_proceed (upd r s)); [|cbn [fst]; rewrite round_upd; lia].
  destruct (cur_round tbl _) as [r2|].
  - eapply Nat.le_trans; [|apply IH]. rewrite round_run_start. cbn. rewrite round_upd. lia.
  - cbn. rewrite round_upd. lia.
Qed.

Lemma saturate_static : forall k s acc, static (fst (saturate k tbl s acc)) = static s.
Proof.
  induction k as [|k IH]; intros s acc; [reflexivity|].
  rewrite saturate_unfold. destruct (cur_round tbl s) as [r|]; [|reflexivity].
  destruct (can_proceed (upd r s)); [|cbn [fst]; apply static_upd].
  destruct (cur_round tbl _) as [r2|].
  - rewrite IH, static_run_start, static_with_round. apply static_upd.
  - cbn [fst]. rewrite static_with_round. apply static_upd.
Qed.

(** ** Theorem 1 *)

Theorem deliver_settles : wf tbl = true -> forall s ty from flag,
  validate tbl s ty from = true -> settled (fst (deliver tbl s ty from flag)).
Proof.
  intros W s ty from flag Hv. apply wf_parts in W. destruct W as (W1 & _).
  unfold deliver. rewrite Hv. apply saturate_full_settled. exact W1.
Qed.

Theorem deliver_settled_any : wf tbl = true -> forall s ty from flag,
  settled s -> settled (fst (deliver tbl s ty from flag)).
Proof.
  intros W s ty from flag Hs. destruct (validate tbl s ty from) eqn:Hv.
  - apply deliver_settles; auto.
  - unfold deliver. rewrite Hv. exact Hs.
Qed.

Theorem start_settles : wf tbl = true -> forall s,
  ps_round s = 0 -> store_nonempty s = true -> settled (fst (start tbl s)).
Proof.
  intros W s H0 Hne. apply wf_parts in W. destruct W as (W1 & _).
  unfold start. rewrite H0, Hne. destruct (t_rounds tbl) as [|r rs] eqn:Hrs.
  - cbn [fst]. apply finished_settled. apply cur_round_none. auto.
  - destruct (run_start r (with_round s 1)) as [s1 ev] eqn:Hst. rewrite <- Hrs.
    apply saturate_full_settled. exact W1.
Qed.

(** BaseStart on a party that has not stored anything only runs Start() of round 1 *)
Lemma start_fresh : forall s r rs, ps_round s = 0 -> store_nonempty s = false -> t_rounds tbl = r :: rs ->
  start tbl s = run_start r (with_round s 1).
Proof.
  intros s r rs H0 Hne Hrs. unfold start. rewrite H0, Hne, Hrs.
  destruct (run_start r (with_round s 1)). reflexivity.
Qed.

(** the statement in the form asked for *)
Corollary deliver_saturates : wf tbl = true -> forall s ty from flag,
  validate tbl s ty from = true \/ stable s -> stable (fst (deliver tbl s ty from flag)).
Proof.
  intros W s ty from flag [Hv|Hs].
  - apply settled_stable. apply deliver_settles; auto.
  - destruct (validate tbl s ty from) eqn:Hv.
    + apply settled_stable. apply deliver_settles; auto.
    + unfold deliver. rewrite Hv. exact Hs.
Qed.

Corollary start_saturates : wf tbl = true -> forall s,
  ps_round s = 0 -> store_nonempty s = true -> stable (fst (start tbl s)).
Proof. intros W s H Hne. apply settled_stable. apply start_settles; auto. Qed.

Theorem round_monotone : forall s ty from flag, ps_round s <= ps_round (fst (deliver tbl s ty from flag)).
Proof.
  intros. unfold deliver. destruct (validate tbl s ty from); cbn [fst]; [|lia].
  eapply Nat.le_trans; [|apply saturate_round_mono]. cbn. lia.
Qed.

Theorem round_monotone_start : forall s, ps_round s <= ps_round (fst (start tbl s)).
Proof.
  intros. unfold start. destruct (ps_round s) eqn:H0; [|cbn; lia].
  destruct (t_rounds tbl) as [|r rs]; [cbn; lia|].
  destruct (run_start r (with_round s 1)) as [s1 ev] eqn:Hst. destruct (store_nonempty s); lia.
Qed.

Theorem deliver_static : forall s ty from flag, static (fst (deliver tbl s ty from flag)) = static s.
Proof.
  intros. unfold deliver. destruct (validate tbl s ty from); cbn [fst]; auto.
  rewrite saturate_static. reflexivity.
Qed.

Theorem start_static : forall s, static (fst (start tbl s)) = static s.
Proof.
  intros. unfold start. destruct (ps_round s) eqn:H0; [|reflexivity].
  destruct (t_rounds tbl) as [|r rs]; [reflexivity|].
  destruct (run_start r (with_round s 1)) as [s1 ev] eqn:Hst.
  assert (Hs1 : static s1 = static s).
  { change s1 with (fst (s1, ev)). rewrite <- Hst. rewrite static_run_start. reflexivity. }
  destruct (store_nonempty s); cbn [fst]; auto. rewrite saturate_static. exact Hs1.
Qed.

End Loop.

(* ------------------------------------------------------------------ *)
(** * 7. The store only changes at the delivered slot and at own-index slots *)
(* ------------------------------------------------------------------ *)

Section Frame.
Variable tbl : table.

Lemma store_get_store : forall s s' t j, ps_store s = ps_store s' -> store_get s t j = store_get s' t j.
Proof. unfold store_get. intros s s' t j H. rewrite H. reflexivity. Qed.

Lemma row_len_store : forall s s' t, ps_store s = ps_store s' -> row_len s t = row_len s' t.
Proof. unfold row_len. intros s s' t H. rewrite H. reflexivity. Qed.

Lemma store_get_apply_emits : forall l s t j, j <> ps_idx s ->
  store_get (fold_left apply_emit l s) t j = store_get s t j.
Proof.
  induction l as [|e l IH]; intros s t j Hj; cbn [fold_left]; auto.
  rewrite IH.
  - unfold apply_emit. destruct (em_self_store e); auto. rewrite store_get_put.
    destruct (Nat.eqb_spec j (ps_idx s)); [congruence|]. rewrite andb_false_r. reflexivity.
  - unfold apply_emit. destruct (em_self_store e); auto.
Qed.

Lemma row_len_apply_emits : forall l s t, row_len (fold_left apply_emit l s) t = row_len s t.
Proof.
  induction l as [|e l IH]; intros s t; cbn [fold_left]; auto.
  rewrite IH. unfold apply_emit. destruct (em_self_store e); auto. apply row_len_put.
Qed.

Lemma store_len_apply_emits : forall l s, length (ps_store (fold_left apply_emit l s)) = length (ps_store s).
Proof.
  induction l as [|e l IH]; intros s; cbn [fold_left]; auto.
  rewrite IH. unfold apply_emit. destruct (em_self_store e); auto. apply store_len_put.
Qed.

Lemma store_get_run_start : forall r s t j, j <> ps_idx s ->
  store_get (fst (run_start r s)) t j = store_get s t j.
Proof.
  intros r s t j Hj. rewrite run_start_decomp. destruct (holds (st_guard (r_start r)) s); cbn [fst].
  - rewrite store_get_apply_emits.
    + apply store_get_store. apply store_start_oks.
    + pose proof (static_start_oks r s) as H. apply static_inv in H. destruct H as (_ & _ & H & _). congruence.
  - apply store_get_store. apply store_start_oks.
Qed.

Lemma row_len_run_start : forall r s t, row_len (fst (run_start r s)) t = row_len s t.
Proof.
  intros r s t. rewrite run_start_decomp. destruct (holds (st_guard (r_start r)) s); cbn [fst].
  - rewrite row_len_apply_emits. apply row_len_store. apply store_start_oks.
  - apply row_len_store. apply store_start_oks.
Qed.

Lemma saturate_store_frame : forall k s acc t j, j <> ps_idx s ->
  store_get (fst (saturate k tbl s acc)) t j = store_get s t j.
Proof.
  induction k as [|k IH]; intros s acc t j Hj; [reflexivity|].
  rewrite saturate_unfold. destruct (cur_round tbl s) as [r|]; [|reflexivity].
  destruct (can_proceed (upd r s)); [|cbn [fst]; apply store_get_store, store_upd].
  destruct (cur_round tbl _) as [r2|].
  - rewrite IH.
    + rewrite store_get_run_start; [apply store_get_store; cbn; apply store_upd|].
      pose proof (static_upd r s) as H. apply static_inv in H. destruct H as (_ & _ & H & _). cbn. congruence.
    + pose proof (static_run_start r2 (with_round (upd r s) (S (ps_round (upd r s))))) as H.
      rewrite static_with_round, static_upd in H.
      apply static_inv in H. destruct H as (_ & _ & H & _). congruence.
  - cbn [fst]. apply store_get_store. cbn. apply store_upd.
Qed.

Lemma saturate_row_len : forall k s acc t, row_len (fst (saturate k tbl s acc)) t = row_len s t.
Proof.
  induction k as [|k IH]; intros s acc t; [reflexivity|].
  rewrite saturate_unfold. destruct (cur_round tbl s) as [r|]; [|reflexivity].
  destruct (can_proceed (upd r s)); [|cbn [fst]; apply row_len_store, store_upd].
  destruct (cur_round tbl _) as [r2|].
  - rewrite IH, row_len_run_start. apply row_len_store. cbn. apply store_upd.
  - cbn [fst]. apply row_len_store. cbn. apply store_upd.
Qed.

(** the store after BaseUpdate differs from the store before only at the delivered slot and,
    through the self-stores of Start(), at slots of the party's own index *)
Theorem deliver_store_frame : forall s ty from flag t j,
  j <> ps_idx s -> (t, j) <> (ty, from) ->
  store_get (fst (deliver tbl s ty from flag)) t j = store_get s t j.
Proof.
  intros s ty from flag t j Hj Hne. unfold deliver. destruct (validate tbl s ty from); [|reflexivity].
  rewrite saturate_store_frame by (cbn; exact Hj). rewrite store_get_put.
  destruct (Nat.eqb_spec t ty), (Nat.eqb_spec j from); cbn [andb]; try reflexivity. subst. congruence.
Qed.

End Frame.

(* ------------------------------------------------------------------ *)
(** * 8. Events: each round's messages are sent exactly once, when it is entered *)
(* ------------------------------------------------------------------ *)

Section Events.
Variable tbl : table.

(** what this party sends when it enters round number [k] (1-based) *)
Definition start_events (s : pstate) (k : nat) : list event :=
  match k with
  | O => []
  | S k' => match nth_error (t_rounds tbl) k' with
            | Some r => if holds (st_guard (r_start r)) s then round_events r else []
            | None => []
            end
  end.

Lemma start_events_static : forall s s' k, static s = static s' -> start_events s k = start_events s' k.
Proof.
  intros s s' [|k] H; cbn; auto. destruct (nth_error (t_rounds tbl) k); auto.
  rewrite (holds_static _ _ _ H). reflexivity.
Qed.

Lemma flat_map_start_events_static : forall s s' l, static s = static s' ->
  flat_map (start_events s) l = flat_map (start_events s') l.
Proof. intros s s' l H. induction l; cbn; auto. rewrite IHl, (start_events_static s s' a H). reflexivity. Qed.

Lemma saturate_events : forall k s acc,
  snd (saturate k tbl s acc) =
  acc ++ flat_map (start_events s) (seq (S (ps_round s)) (ps_round (fst (saturate k tbl s acc)) - ps_round s)).
Proof.
  induction k as [|k IH]; intros s acc.
  - cbn [saturate fst snd]. rewrite Nat.sub_diag. cbn. rewrite app_nil_r. reflexivity.
  - rewrite saturate_unfold. destruct (cur_round tbl s) as [r|] eqn:Hr.
    2:{ cbn [fst snd]. rewrite Nat.sub_diag. cbn. rewrite app_nil_r. reflexivity. }
    destruct (can_proceed (upd r s)).
    2:{ cbn [fst snd]. rewrite round_upd, Nat.sub_diag. cbn. rewrite app_nil_r. reflexivity. }
    set (s2 := with_round (upd r s) (S (ps_round (upd r s)))).
    assert (Hs2 : ps_round s2 = S (ps_round s)) by (subst s2; cbn; rewrite round_upd; reflexivity).
    destruct (cur_round tbl s2) as [r2|] eqn:Hr2.
    + rewrite IH.
      set (s3 := fst (run_start r2 s2)).
      assert (Hs3 : ps_round s3 = S (ps_round s)) by (subst s3; rewrite round_run_start; exact Hs2).
      assert (Hst : static s3 = static s).
      { subst s3 s2. rewrite static_run_start, static_with_round. apply static_upd. }
      pose proof (saturate_round_mono tbl k s3 (acc ++ snd (run_start r2 s2))) as Hm.
      set (rf := ps_round (fst (saturate k tbl s3 (acc ++ snd (run_start r2 s2))))) in *.
      rewrite Hs3. replace (rf - ps_round s) with (S (rf - S (ps_round s))) by lia.
      cbn [seq flat_map]. rewrite <- app_assoc. f_equal.
      rewrite (flat_map_start_events_static s3 s _ Hst). f_equal.
      rewrite events_run_start. unfold start_events.
      unfold cur_round in Hr2. rewrite Hs2 in Hr2. rewrite Hr2.
      rewrite (holds_static _ s2 s); auto.
      subst s2. rewrite static_with_round. apply static_upd.
    + cbn [fst snd]. rewrite Hs2. replace (S (ps_round s) - ps_round s) with 1 by lia.
      cbn [seq flat_map]. unfold start_events. unfold cur_round in Hr2. rewrite Hs2 in Hr2. rewrite Hr2.
      rewrite !app_nil_r. reflexivity.
Qed.

(** ** Theorem 2: the events of one BaseUpdate / BaseStart call *)

Theorem deliver_events : forall s ty from flag,
  snd (deliver tbl s ty from flag) =
  flat_map (start_events s) (seq (S (ps_round s)) (ps_round (fst (deliver tbl s ty from flag)) - ps_round s)).
Proof.
  intros. unfold deliver. destruct (validate tbl s ty from).
  - rewrite saturate_events. cbn [app]. rewrite round_store_put.
    apply flat_map_start_events_static. apply static_store_put.
  - cbn [fst snd]. rewrite Nat.sub_diag. reflexivity.
Qed.

Theorem start_events_exact : forall s, ps_round s = 0 ->
  snd (start tbl s) = flat_map (start_events s) (seq 1 (ps_round (fst (start tbl s)))).
Proof.
  intros s H0. unfold start. rewrite H0. destruct (t_rounds tbl) as [|r rs] eqn:Hrs.
  - cbn [fst snd]. rewrite H0. reflexivity.
  - destruct (run_start r (with_round s 1)) as [s1 ev] eqn:Hst. rewrite <- Hrs.
    assert (H1 : ps_round s1 = 1).
    { change s1 with (fst (s1, ev)). rewrite <- Hst. rewrite round_run_start. reflexivity. }
    assert (Hs : static s1 = static s).
    { change s1 with (fst (s1, ev)). rewrite <- Hst. rewrite static_run_start. reflexivity. }
    assert (Hev : ev = start_events s 1).
    { change ev with (snd (s1, ev)). rewrite <- Hst. rewrite events_run_start.
      unfold start_events. rewrite Hrs. cbn [nth_error]. reflexivity. }
    destruct (store_nonempty s).
    2:{ cbn [fst snd]. rewrite H1. cbn [seq flat_map]. rewrite app_nil_r. exact Hev. }
    rewrite saturate_events.
    pose proof (saturate_round_mono tbl (S (length (t_rounds tbl))) s1 ev) as Hm.
    set (rf := ps_round (fst (saturate (S (length (t_rounds tbl))) tbl s1 ev))) in *.
    rewrite H1 in *. replace rf with (S (rf - 1)) at 2 by lia. cbn [seq flat_map].
    rewrite (flat_map_start_events_static s1 s _ Hs). f_equal. exact Hev.
Qed.

(** sequences of deliveries *)
Definition deliver_msg (s : pstate) (m : msg) : pstate * list event :=
  let '(ty, from, flag) := m in deliver tbl s ty from flag.

Definition deliver_all (s : pstate) (msgs : list msg) : pstate :=
  fold_left (fun st m => fst (deliver_msg st m)) msgs s.

Fixpoint deliver_all_ev (s : pstate) (msgs : list msg) : pstate * list event :=
  match msgs with
  | [] => (s, [])
  | m :: rest =>
      let '(s1, ev) := deliver_msg s m in
      let '(s2, ev2) := deliver_all_ev s1 rest in (s2, ev ++ ev2)
  end.

Lemma fst_deliver_all_ev : forall msgs s, fst (deliver_all_ev s msgs) = deliver_all s msgs.
Proof.
  induction msgs as [|m l IH]; intros s; auto.
  change (deliver_all s (m :: l)) with (deliver_all (fst (deliver_msg s m)) l).
  cbn [deliver_all_ev].
  destruct (deliver_msg s m) as [s1 ev] eqn:E1. destruct (deliver_all_ev s1 l) as [s2 ev2] eqn:E2.
  cbn [fst]. rewrite <- IH, E2. reflexivity.
Qed.

Lemma deliver_msg_static : forall s m, static (fst (deliver_msg s m)) = static s.
Proof. intros s [[ty from] flag]. apply deliver_static. Qed.
Lemma deliver_msg_round_mono : forall s m, ps_round s <= ps_round (fst (deliver_msg s m)).
Proof. intros s [[ty from] flag]. apply round_monotone. Qed.

Lemma deliver_all_static : forall msgs s, static (deliver_all s msgs) = static s.
Proof.
  induction msgs as [|m l IH]; intros s; auto.
  change (deliver_all s (m :: l)) with (deliver_all (fst (deliver_msg s m)) l).
  rewrite IH. apply deliver_msg_static.
Qed.
Lemma deliver_all_round_mono : forall msgs s, ps_round s <= ps_round (deliver_all s msgs).
Proof.
  induction msgs as [|m l IH]; intros s; auto.
  change (deliver_all s (m :: l)) with (deliver_all (fst (deliver_msg s m)) l).
  eapply Nat.le_trans; [apply (deliver_msg_round_mono s m)|apply IH].
Qed.

Lemma flat_map_seq_split : forall (f : nat -> list event) a n m,
  flat_map f (seq a (n + m)) = flat_map f (seq a n) ++ flat_map f (seq (a + n) m).
Proof. intros. rewrite seq_app, flat_map_app. reflexivity. Qed.

Theorem deliver_all_events : forall msgs s,
  snd (deliver_all_ev s msgs) =
  flat_map (start_events s) (seq (S (ps_round s)) (ps_round (deliver_all s msgs) - ps_round s)).
Proof.
  induction msgs as [|m l IH]; intros s.
  - cbn. rewrite Nat.sub_diag. reflexivity.
  - cbn [deliver_all_ev]. destruct (deliver_msg s m) as [s1 ev] eqn:E1.
    destruct (deliver_all_ev s1 l) as [s2 ev2] eqn:E2. cbn [snd].
    assert (Hev : ev = snd (deliver_msg s m)) by (rewrite E1; reflexivity).
    assert (Hs1 : s1 = fst (deliver_msg s m)) by (rewrite E1; reflexivity).
    assert (Hev2 : ev2 = snd (deliver_all_ev s1 l)) by (rewrite E2; reflexivity).
    rewrite Hev2, IH. cbn [deliver_all fold_left]. rewrite <- Hs1. fold (deliver_all s1 l).
    pose proof (deliver_msg_round_mono s m) as M1. rewrite <- Hs1 in M1.
    pose proof (deliver_all_round_mono l s1) as M2.
    replace (ps_round (deliver_all s1 l) - ps_round s)
      with ((ps_round s1 - ps_round s) + (ps_round (deliver_all s1 l) - ps_round s1)) by lia.
    rewrite flat_map_seq_split. f_equal.
    + rewrite Hev. destruct m as [[ty from] flag]. cbn [deliver_msg] in *. rewrite deliver_events. rewrite <- Hs1. reflexivity.
    + replace (S (ps_round s) + (ps_round s1 - ps_round s)) with (S (ps_round s1)) by lia.
      apply flat_map_start_events_static. rewrite Hs1. apply deliver_msg_static.
Qed.

(** a whole run: BaseStart on a fresh party, then any sequence of deliveries *)
Definition run_ev (s0 : pstate) (msgs : list msg) : pstate * list event :=
  let '(s1, ev0) := start tbl s0 in
  let '(s2, ev) := deliver_all_ev s1 msgs in (s2, ev0 ++ ev).

(** the complete event history of a run: the Start() events of rounds 1 .. (final round), each once, in order *)
Theorem emits_once : forall s0 msgs, ps_round s0 = 0 ->
  snd (run_ev s0 msgs) = flat_map (start_events s0) (seq 1 (ps_round (fst (run_ev s0 msgs)))).
Proof.
  intros s0 msgs H0. unfold run_ev. destruct (start tbl s0) as [s1 ev0] eqn:E0.
  destruct (deliver_all_ev s1 msgs) as [s2 ev] eqn:E1. cbn [fst snd].
  assert (Hs1 : s1 = fst (start tbl s0)) by (rewrite E0; reflexivity).
  assert (Hev0 : ev0 = snd (start tbl s0)) by (rewrite E0; reflexivity).
  assert (Hs2 : s2 = deliver_all s1 msgs) by (rewrite <- fst_deliver_all_ev, E1; reflexivity).
  assert (Hev : ev = snd (deliver_all_ev s1 msgs)) by (rewrite E1; reflexivity).
  rewrite Hev, deliver_all_events, <- Hs2, Hev0, start_events_exact by exact H0. rewrite <- Hs1.
  pose proof (deliver_all_round_mono msgs s1) as M. rewrite <- Hs2 in M.
  replace (ps_round s2) with (ps_round s1 + (ps_round s2 - ps_round s1)) at 2 by lia.
  rewrite flat_map_seq_split. f_equal. cbn [Nat.add].
  apply flat_map_start_events_static. rewrite Hs1. apply start_static.
Qed.

(** EvEnd at most once *)
Definition is_end (e : event) : bool := match e with EvEnd => true | _ => false end.
Definition count_end (l : list event) : nat := length (filter is_end l).

Lemma count_end_app : forall l1 l2, count_end (l1 ++ l2) = count_end l1 + count_end l2.
Proof. intros. unfold count_end. rewrite filter_app, app_length. reflexivity. Qed.

Lemma count_end_round_events : forall r, count_end (round_events r) = if st_end (r_start r) then 1 else 0.
Proof.
  intros r. unfold round_events. rewrite count_end_app.
  assert (H : count_end (map (fun e => EvEmit (em_type e) (em_mode e)) (st_emits (r_start r))) = 0).
  { induction (st_emits (r_start r)); cbn; auto. }
  rewrite H. destruct (st_end (r_start r)); reflexivity.
Qed.

Lemma removelast_nth_error : forall A (l : list A) k x, nth_error l k = Some x -> S k < length l ->
  In x (removelast l).
Proof.
  induction l as [|h t IH]; intros k x H Hl; [destruct k; discriminate|].
  destruct t as [|h2 t2]; [cbn in Hl; lia|].
  destruct k as [|k]; cbn [nth_error] in H.
  - inversion H; subst. left. reflexivity.
  - right. apply (IH k x H). cbn in *. lia.
Qed.

Lemma count_end_start_events : wf_end_last tbl = true -> forall s k,
  k <> length (t_rounds tbl) -> count_end (start_events s k) = 0.
Proof.
  intros W s [|k] Hk; cbn [start_events]; auto. destruct (nth_error (t_rounds tbl) k) as [r|] eqn:Hr; auto.
  destruct (holds (st_guard (r_start r)) s); auto. rewrite count_end_round_events.
  unfold wf_end_last in W. apply andb_true_iff in W. destruct W as [W _]. rewrite forallb_forall in W.
  assert (Hl : k < length (t_rounds tbl)) by (apply nth_error_Some; congruence).
  specialize (W r (removelast_nth_error _ _ _ _ Hr ltac:(lia))).
  destruct (st_end (r_start r)); auto; discriminate.
Qed.

Lemma count_end_start_events_le : forall s k, count_end (start_events s k) <= 1.
Proof.
  intros s [|k]; cbn [start_events]; auto. destruct (nth_error (t_rounds tbl) k) as [r|]; auto.
  destruct (holds (st_guard (r_start r)) s); auto. rewrite count_end_round_events.
  destruct (st_end (r_start r)); auto.
Qed.

Lemma count_end_seq : wf_end_last tbl = true -> forall s n a,
  count_end (flat_map (start_events s) (seq a n)) <= 1.
Proof.
  intros W s n. 
  assert (H0 : forall n a, length (t_rounds tbl) < a -> count_end (flat_map (start_events s) (seq a n)) = 0).
  { intros n0. induction n0 as [|n0 IH]; intros a Ha; cbn [seq flat_map]; auto.
    rewrite count_end_app, IH by lia.
    rewrite count_end_start_events; auto. lia. }
  induction n as [|n IH]; intros a; cbn [seq flat_map]; auto.
  rewrite (count_end_app (start_events s a)). destruct (Nat.eq_dec a (length (t_rounds tbl))) as [E|E].
  - rewrite (H0 n (S a)) by lia. pose proof (count_end_start_events_le s a). lia.
  - rewrite count_end_start_events by auto. apply IH.
Qed.

Theorem ends_once : wf tbl = true -> forall s0 msgs, ps_round s0 = 0 ->
  count_end (snd (run_ev s0 msgs)) <= 1.
Proof.
  intros W s0 msgs H0. apply wf_parts in W. destruct W as (_ & _ & _ & _ & W5).
  rewrite emits_once by exact H0. apply count_end_seq. exact W5.
Qed.

End Events.

(* ------------------------------------------------------------------ *)
(** * 9. Flags: a message with the wrong IsBroadcast flag is inert      *)
(* ------------------------------------------------------------------ *)

Section Flags.
Variable tbl : table.
Hypothesis W : wf tbl = true.

Lemma accept_flag_honest : forall r s t f, In r (t_rounds tbl) -> can_accept r s t f = true -> f = honest_flag tbl t.
Proof.
  intros r s t f Hr H. destruct (wf_parts tbl W) as (_ & W2 & _).
  unfold wf_accept_flags in W2. rewrite forallb_forall in W2. specialize (W2 r Hr). rewrite forallb_forall in W2.
  unfold can_accept in H. apply existsb_exists in H. destruct H as (a & Ha & H).
  apply andb_true_iff in H. destruct H as [H _]. apply andb_true_iff in H. destruct H as [H1 H2].
  apply Nat.eqb_eq in H1. apply eqb_prop in H2. specialize (W2 a Ha). apply eqb_prop in W2. subst. auto.
Qed.

(** storing a wrongly flagged message can only make peers less ready *)
Lemma scan_ok_put_wrong : forall r s sc t j f j', In r (t_rounds tbl) -> f <> honest_flag tbl t ->
  scan_ok r (store_put s t j f) sc j' = true -> scan_ok r s sc j' = true.
Proof.
  intros r s sc t j f j' Hr Hf. unfold scan_ok. rewrite !forallb_forall. intros H [t' c] Hin.
  specialize (H _ Hin). cbn [fst snd] in *.
  rewrite (holds_static c _ _ (static_store_put s t j f)) in H.
  destruct (holds c s); auto. rewrite store_get_put in H.
  destruct (Nat.eqb t' t && Nat.eqb j' j && Nat.ltb j (row_len s t)) eqn:E.
  - apply andb_true_iff in E. destruct E as [E _]. apply andb_true_iff in E. destruct E as [E _].
    apply Nat.eqb_eq in E. subst t'. apply accept_flag_honest in H; [congruence|exact Hr].
  - destruct (store_get s t' j'); exact H.
Qed.

(** storing an honestly flagged message can only make peers more ready *)
Lemma scan_ok_put_good : forall r s sc t j j', In r (t_rounds tbl) ->
  scan_ok r s sc j' = true -> scan_ok r (store_put s t j (honest_flag tbl t)) sc j' = true.
Proof.
  intros r s sc t j j' Hr. unfold scan_ok. rewrite !forallb_forall. intros H [t' c] Hin.
  specialize (H _ Hin). cbn [fst snd] in *.
  rewrite (holds_static c _ _ (static_store_put s t j (honest_flag tbl t))).
  destruct (holds c s); auto. rewrite store_get_put.
  destruct (Nat.eqb t' t && Nat.eqb j' j && Nat.ltb j (row_len s t)) eqn:E.
  - apply andb_true_iff in E. destruct E as [E _]. apply andb_true_iff in E. destruct E as [E _].
    apply Nat.eqb_eq in E. subst t'. destruct (store_get s t j') as [b|]; [|discriminate].
    rewrite (can_accept_ext r _ s t _ (static_store_put s t j (honest_flag tbl t))).
    rewrite <- (accept_flag_honest r s t b Hr H). exact H.
  - destruct (store_get s t' j'); exact H.
Qed.

Lemma can_proceed_store_put : forall s t j f, can_proceed (store_put s t j f) = can_proceed s.
Proof. reflexivity. Qed.

Lemma upd_fix_okvec : forall r s sc, In r (t_rounds tbl) ->
  selected_scan s (r_update r) = Some sc -> upd r s = s ->
  orvec (scan_ok r s sc) 0 (okvec s (sc_vec sc)) = okvec s (sc_vec sc).
Proof.
  intros r s sc Hr Hsel Hu. destruct (wf_parts tbl W) as (W1 & _).
  rewrite (upd_closed tbl W1 r s Hr), Hsel in Hu.
  apply (f_equal (fun x => okvec x (sc_vec sc))) in Hu. rewrite okvec_with_ok_same in Hu. exact Hu.
Qed.

Lemma upd_put_wrong_fix : forall r s t j f, In r (t_rounds tbl) -> f <> honest_flag tbl t ->
  upd r s = s -> upd r (store_put s t j f) = store_put s t j f.
Proof.
  intros r s t j f Hr Hf Hu. destruct (wf_parts tbl W) as (W1 & _).
  rewrite (upd_closed tbl W1 r _ Hr).
  rewrite (selected_scan_static _ s _ (static_store_put s t j f)).
  destruct (selected_scan s (r_update r)) as [sc|] eqn:Hsel; auto.
  rewrite okvec_store_put.
  rewrite (orvec_fix_mono (scan_ok r s sc) (scan_ok r (store_put s t j f) sc)).
  - rewrite <- (okvec_store_put s t j f). apply with_ok_id.
  - intros j'. apply scan_ok_put_wrong; auto.
  - apply upd_fix_okvec; auto.
Qed.

(** ** Theorem 3 *)
Theorem flag_flip_inert : forall s ty from flag,
  settled tbl s -> flag <> honest_flag tbl ty ->
  deliver tbl s ty from flag = (if validate tbl s ty from then store_put s ty from flag else s, []).
Proof.
  intros s ty from flag Hs Hf. unfold deliver. destruct (validate tbl s ty from); auto.
  rewrite saturate_unfold. unfold settled in Hs.
  rewrite (cur_round_static_round tbl (store_put s ty from flag) s (round_store_put s ty from flag)).
  destruct (cur_round tbl s) as [r|] eqn:Hr; auto.
  destruct Hs as [Hu Hc]. rewrite (upd_put_wrong_fix r s ty from flag (cur_round_in tbl s r Hr) Hf Hu).
  rewrite can_proceed_store_put, Hc. reflexivity.
Qed.

Corollary flag_flip_never_advances : forall s ty from,
  settled tbl s ->
  let s' := fst (deliver tbl s ty from (negb (honest_flag tbl ty))) in
  ps_round s' = ps_round s /\ ps_okold s' = ps_okold s /\ ps_oknew s' = ps_oknew s /\
  snd (deliver tbl s ty from (negb (honest_flag tbl ty))) = [].
Proof.
  intros s ty from Hs. cbv zeta. rewrite flag_flip_inert; auto.
  - cbn [fst snd]. destruct (validate tbl s ty from); auto.
  - destruct (honest_flag tbl ty); discriminate.
Qed.

(** the same for the weaker notion [stable] of the task statement: the round number does not change
    and nothing is sent *)
Lemma can_proceed_with_ok_false : forall s c v, forallb (fun b => b) v = false -> can_proceed (with_ok s c v) = false.
Proof.
  intros s [] v H; unfold can_proceed; cbn; rewrite H; auto. apply andb_false_r.
Qed.

Lemma can_proceed_other : forall s c v,
  forallb (fun b => b) v = true -> can_proceed (with_ok s c v) = false ->
  forall v', can_proceed (with_ok s c v') = false.
Proof.
  intros s [] v H H1 v'; unfold can_proceed in *; cbn in *; rewrite H in H1; cbn in H1.
  - rewrite H1. apply andb_false_r.
  - rewrite andb_true_r in H1. rewrite H1. reflexivity.
Qed.

Theorem flag_flip_never_advances_stable : forall s ty from flag,
  stable tbl s -> flag <> honest_flag tbl ty ->
  ps_round (fst (deliver tbl s ty from flag)) = ps_round s /\ snd (deliver tbl s ty from flag) = [].
Proof.
  intros s ty from flag Hs Hf. destruct (wf_parts tbl W) as (W1 & _).
  unfold deliver. destruct (validate tbl s ty from); auto.
  rewrite saturate_unfold.
  rewrite (cur_round_static_round tbl (store_put s ty from flag) s (round_store_put s ty from flag)).
  destruct (cur_round tbl s) as [r|] eqn:Hr; auto.
  assert (Hrin : In r (t_rounds tbl)) by (eapply cur_round_in; eauto).
  destruct Hs as [Hs|[Hs|(r' & Hr' & Hs)]].
  - assert (cur_round tbl s = None) by (apply cur_round_none; auto). congruence.
  - assert (cur_round tbl s = None) by (apply cur_round_none; auto). congruence.
  - assert (r' = r) by congruence. subst r'. fold (upd r s) in Hs.
    assert (Hc : can_proceed (upd r (store_put s ty from flag)) = false).
    { rewrite (upd_closed tbl W1 r _ Hrin). rewrite (upd_closed tbl W1 r _ Hrin) in Hs.
      rewrite (selected_scan_static _ s _ (static_store_put s ty from flag)).
      destruct (selected_scan s (r_update r)) as [sc|] eqn:Hsel; auto.
      rewrite okvec_store_put, with_ok_store_put, can_proceed_store_put.
      destruct (forallb (fun b => b) (orvec (scan_ok r s sc) 0 (okvec s (sc_vec sc)))) eqn:Hall.
      - eapply can_proceed_other; eauto.
      - apply can_proceed_with_ok_false.
        eapply orvec_mono_forallb; [|exact Hall]. intros j'. apply scan_ok_put_wrong; auto. }
    rewrite Hc. cbn [fst snd]. rewrite round_upd. auto.
Qed.

End Flags.

(* ------------------------------------------------------------------ *)
(** * 10. The ok vectors are justified by the store: WaitingFor is exact *)
(* ------------------------------------------------------------------ *)

Section Waiting.
Variable tbl : table.
Hypothesis W : wf tbl = true.

(** peer [j] of committee [c] has delivered everything the selected scan of the round requires *)
Definition sel_scan_ok (r : round_spec) (s : pstate) (c : committee) (j : nat) : bool :=
  match selected_scan s (r_update r) with
  | Some sc => committee_eqb (sc_vec sc) c && scan_ok r s sc j
  | None => false
  end.

Definition lens (s : pstate) : Prop := forall c, length (okvec s c) = csize s c.

(** Invariant: Start bits persist, and every ok bit is justified by Start or by the store *)
Definition Inv (s : pstate) : Prop :=
  lens s /\
  match cur_round tbl s with
  | None => True
  | Some r => forall c j, j < csize s c ->
      (start_ok r s c j = true -> nth j (okvec s c) false = true) /\
      (nth j (okvec s c) false = true -> start_ok r s c j = true \/ sel_scan_ok r s c j = true)
  end.

Lemma sel_scan_ok_ext : forall r s s' c j, static s = static s' -> ps_store s = ps_store s' ->
  sel_scan_ok r s c j = sel_scan_ok r s' c j.
Proof.
  intros r s s' c j H Hst. unfold sel_scan_ok. rewrite (selected_scan_static s s' _ H).
  destruct (selected_scan s' (r_update r)); auto. rewrite (scan_ok_ext r s s' s0 j H Hst). reflexivity.
Qed.

Lemma start_ok_static : forall r s s' c j, static s = static s' -> start_ok r s c j = start_ok r s' c j.
Proof.
  intros r s s' c j H. unfold start_ok. cbv zeta. rewrite (holds_static _ _ _ H).
  apply static_inv in H. destruct H as (_ & _ & H & _). rewrite H. reflexivity.
Qed.

Lemma Inv_init : forall o n i no nn, Inv (init_state tbl o n i no nn).
Proof.
  intros. split.
  - intros []; cbn; apply repeat_length.
  - reflexivity.
Qed.

Lemma Inv_put_good : forall s t j, Inv s -> Inv (store_put s t j (honest_flag tbl t)).
Proof.
  intros s t j [Hl H]. split.
  - intros c. rewrite okvec_store_put. apply Hl.
  - rewrite (cur_round_static_round tbl _ s (round_store_put s t j _)).
    destruct (cur_round tbl s) as [r|] eqn:Hr; auto.
    intros c j' Hj. specialize (H c j' Hj). destruct H as [H1 H2]. rewrite okvec_store_put. split.
    + exact H1.
    + intros Hn. destruct (H2 Hn) as [H3|H3]; [left; exact H3|right].
      unfold sel_scan_ok in *. rewrite (selected_scan_static _ s _ (static_store_put s t j _)).
      destruct (selected_scan s (r_update r)) as [sc|]; auto.
      apply andb_true_iff in H3. destruct H3 as [H3 H4]. rewrite H3. cbn [andb].
      apply scan_ok_put_good; auto. eapply cur_round_in; eauto.
Qed.

Lemma okvec_upd_nth : forall r s c j, In r (t_rounds tbl) ->
  nth j (okvec (upd r s) c) false = nth j (okvec s c) false || (Nat.ltb j (length (okvec s c)) && sel_scan_ok r s c j).
Proof.
  intros r s c j Hr. destruct (wf_parts tbl W) as (W1 & _).
  rewrite (upd_closed tbl W1 r s Hr). unfold sel_scan_ok.
  destruct (selected_scan s (r_update r)) as [sc|]; [|rewrite andb_false_r, orb_false_r; reflexivity].
  destruct (committee_eqb (sc_vec sc) c) eqn:E.
  - apply committee_eqb_spec in E. subst c. rewrite okvec_with_ok_same, nth_orvec. reflexivity.
  - rewrite okvec_with_ok_other.
    + cbn [andb]. rewrite andb_false_r, orb_false_r. reflexivity.
    + intros Hc. apply committee_eqb_spec in Hc. congruence.
Qed.

Lemma length_okvec_upd : forall r s c, In r (t_rounds tbl) -> length (okvec (upd r s) c) = length (okvec s c).
Proof.
  intros r s c Hr. destruct (wf_parts tbl W) as (W1 & _).
  rewrite (upd_closed tbl W1 r s Hr).
  destruct (selected_scan s (r_update r)) as [sc|]; auto.
  destruct (committee_eqb (sc_vec sc) c) eqn:E.
  - apply committee_eqb_spec in E. subst c. rewrite okvec_with_ok_same. apply length_orvec.
  - rewrite okvec_with_ok_other; auto. intros Hc. apply committee_eqb_spec in Hc. congruence.
Qed.

Lemma Inv_upd : forall r s, cur_round tbl s = Some r -> Inv s -> Inv (upd r s).
Proof.
  intros r s Hr [Hl H]. assert (Hrin : In r (t_rounds tbl)) by (eapply cur_round_in; eauto).
  split.
  - intros c. rewrite length_okvec_upd by auto. rewrite (csize_static c _ _ (static_upd r s)). apply Hl.
  - rewrite (cur_round_static_round tbl _ s (round_upd r s)), Hr. rewrite Hr in H.
    intros c j Hj. rewrite (csize_static c _ _ (static_upd r s)) in Hj. specialize (H c j Hj).
    destruct H as [H1 H2]. rewrite okvec_upd_nth by auto.
    rewrite (start_ok_static r _ s c j (static_upd r s)).
    rewrite (sel_scan_ok_ext r _ s c j (static_upd r s) (store_upd r s)). split.
    + intros Hs. rewrite (H1 Hs). reflexivity.
    + intros Hn. apply orb_true_iff in Hn. destruct Hn as [Hn|Hn]; auto.
      apply andb_true_iff in Hn. right. tauto.
Qed.

Lemma lens_run_start : forall r s, lens s -> lens (fst (run_start r s)).
Proof.
  intros r s Hl c. rewrite okvec_run_start, length_okvec_start_oks, Hl.
  symmetry. apply csize_static. apply static_run_start.
Qed.

Lemma Inv_run_start : forall r s, cur_round tbl s = Some r -> lens s -> Inv (fst (run_start r s)).
Proof.
  intros r s Hr Hl. split; [apply lens_run_start; auto|].
  rewrite (cur_round_static_round tbl _ s (round_run_start r s)), Hr.
  intros c j Hj. rewrite (csize_static c _ _ (static_run_start r s)) in Hj.
  rewrite okvec_run_start, nth_okvec_start_oks by (rewrite Hl; exact Hj).
  rewrite (start_ok_static r _ s c j (static_run_start r s)). tauto.
Qed.

Lemma lens_with_round : forall s k, lens s -> lens (with_round s k).
Proof. intros s k H c. rewrite okvec_with_round. apply H. Qed.

Lemma Inv_saturate : forall k s acc, Inv s -> Inv (fst (saturate k tbl s acc)).
Proof.
  induction k as [|k IH]; intros s acc HI; [exact HI|].
  rewrite saturate_unfold. destruct (cur_round tbl s) as [r|] eqn:Hr; [|exact HI].
  pose proof (Inv_upd r s Hr HI) as HU.
  destruct (can_proceed (upd r s)); [|exact HU].
  destruct (cur_round tbl (with_round (upd r s) (S (ps_round (upd r s))))) as [r2|] eqn:Hr2.
  - apply IH. apply Inv_run_start; auto. apply lens_with_round. apply HU.
  - cbn [fst]. split; [apply lens_with_round; apply HU|]. rewrite Hr2. exact I.
Qed.

(** [Inv] is preserved by BaseUpdate with honestly flagged messages, by rejected messages, and by BaseStart *)
Theorem Inv_deliver_good : forall s ty from, Inv s -> Inv (fst (deliver tbl s ty from (honest_flag tbl ty))).
Proof.
  intros s ty from HI. unfold deliver. destruct (validate tbl s ty from); [|exact HI].
  apply Inv_saturate. apply Inv_put_good. exact HI.
Qed.

Theorem Inv_start : forall s, Inv s -> Inv (fst (start tbl s)).
Proof.
  intros s HI. unfold start. destruct (ps_round s) eqn:H0; [|exact HI].
  destruct (t_rounds tbl) as [|r rs] eqn:Hrs; [exact HI|].
  destruct (run_start r (with_round s 1)) as [s1 ev] eqn:Hst.
  assert (H1 : Inv s1).
  { change s1 with (fst (s1, ev)). rewrite <- Hst. apply Inv_run_start.
    - unfold cur_round. cbn. rewrite Hrs. reflexivity.
    - apply lens_with_round. apply HI. }
  rewrite <- Hrs. destruct (store_nonempty s); [|exact H1]. apply Inv_saturate. exact H1.
Qed.

Lemma In_waiting : forall s c j,
  In (c, j) (waiting s) <-> j < length (okvec s c) /\ nth j (okvec s c) false = false.
Proof.
  intros s c j. unfold waiting. rewrite in_app_iff, !in_map_iff. split.
  - intros [(x & E & Hin)|(x & E & Hin)]; inversion E; subst; apply filter_In in Hin; destruct Hin as [Hin Hn];
      apply in_seq in Hin; cbn [okvec]; (split; [lia|]); apply negb_true_iff in Hn; exact Hn.
  - intros [Hj Hn]. destruct c; [left|right]; exists j; (split; [reflexivity|]); apply filter_In;
      (split; [apply in_seq; cbn [okvec] in Hj; lia|]); apply negb_true_iff; exact Hn.
Qed.

(** ** Theorem 4: in a settled state WaitingFor lists exactly the peers that Start did not mark
    and whose required messages are not all stored *)
Theorem waiting_exact : forall s r c j,
  Inv s -> settled tbl s -> cur_round tbl s = Some r ->
  (In (c, j) (waiting s) <->
   j < csize s c /\ start_ok r s c j = false /\ sel_scan_ok r s c j = false).
Proof.
  intros s r c j [Hl HI] Hs Hr. unfold settled in Hs. rewrite Hr in *. destruct Hs as [Hu Hc].
  assert (Hrin : In r (t_rounds tbl)) by (eapply cur_round_in; eauto).
  rewrite In_waiting, Hl. split.
  - intros [Hj Hn]. split; auto. destruct (HI c j Hj) as [H1 H2]. split.
    + destruct (start_ok r s c j); auto. rewrite H1 in Hn; auto.
    + destruct (sel_scan_ok r s c j) eqn:E; auto.
      pose proof (okvec_upd_nth r s c j Hrin) as Hnth. rewrite Hu, E, Hn in Hnth.
      rewrite Hl in Hnth. apply Nat.ltb_lt in Hj. rewrite Hj in Hnth. discriminate.
  - intros (Hj & H1 & H2). split; auto. destruct (HI c j Hj) as [_ H3].
    destruct (nth j (okvec s c) false); auto. destruct (H3 eq_refl); congruence.
Qed.

Definition other (c : committee) : committee := match c with Old => New | New => Old end.

(** the special case of the task statement: the selected clause is a scan over one vector and Start()
    set the other vector all-true *)
Corollary waiting_exact_scan : forall s r sc c j,
  Inv s -> settled tbl s -> cur_round tbl s = Some r ->
  selected_scan s (r_update r) = Some sc ->
  (forall j', j' < csize s (other (sc_vec sc)) -> start_ok r s (other (sc_vec sc)) j' = true) ->
  (In (c, j) (waiting s) <->
   c = sc_vec sc /\ j < csize s c /\ start_ok r s c j = false /\ scan_ok r s sc j = false).
Proof.
  intros s r sc c j HI Hs Hr Hsel Hoth. rewrite (waiting_exact s r c j HI Hs Hr).
  unfold sel_scan_ok. rewrite Hsel. split.
  - intros (Hj & H1 & H2). destruct (committee_eqb (sc_vec sc) c) eqn:E.
    + apply committee_eqb_spec in E. subst c. auto.
    + assert (c = other (sc_vec sc)) by (destruct c, (sc_vec sc); cbn in *; congruence). subst c.
      rewrite Hoth in H1; auto. discriminate.
  - intros (-> & Hj & H1 & H2). repeat split; auto. rewrite H2. apply andb_false_r.
Qed.

(** what [scan_ok] means: every required slot of peer [j] holds an honestly flagged message *)
Theorem scan_ok_iff : forall r s sc j, In r (t_rounds tbl) -> selected_scan s (r_update r) = Some sc ->
  (scan_ok r s sc j = true <->
   forall t c, In (t, c) (sc_stores sc) -> holds c s = true -> store_get s t j = Some (honest_flag tbl t)).
Proof.
  intros r s sc j Hr Hsel. destruct (wf_parts tbl W) as (_ & W2 & _ & W4 & _).
  unfold scan_ok. rewrite forallb_forall. split.
  - intros H t c Hin Hc. specialize (H _ Hin). cbn [fst snd] in H. rewrite Hc in H.
    destruct (store_get s t j) as [f|]; [|discriminate].
    rewrite (accept_flag_honest tbl W r s t f Hr H). reflexivity.
  - intros H [t c] Hin. cbn [fst snd]. destruct (holds c s) eqn:Hc; auto.
    rewrite (H t c Hin Hc).
    destruct (selected_scan_in s _ sc Hsel) as (c0 & Hin0 & Hc0).
    unfold wf_scan_accepted in W4. rewrite forallb_forall in W4. specialize (W4 r Hr).
    rewrite forallb_forall in W4. specialize (W4 _ Hin0). cbn [fst snd] in W4.
    rewrite forallb_forall in W4. specialize (W4 _ Hin). cbn [fst snd] in W4.
    apply existsb_exists in W4. destruct W4 as (a & Ha & Hcond).
    apply andb_true_iff in Hcond. destruct Hcond as [Ht Himp]. apply Nat.eqb_eq in Ht.
    unfold can_accept. apply existsb_exists. exists a. split; auto.
    rewrite Ht, Nat.eqb_refl. cbn [andb].
    unfold wf_accept_flags in W2. rewrite forallb_forall in W2. specialize (W2 r Hr).
    rewrite forallb_forall in W2. specialize (W2 a Ha). rewrite Ht in W2. rewrite W2. cbn [andb].
    eapply cond_implies_sound; eauto.
Qed.

End Waiting.

(* ------------------------------------------------------------------ *)
(** * 11. Order independence                                            *)
(* ------------------------------------------------------------------ *)

Section Order.
Variable tbl : table.
Hypothesis W : wf tbl = true.

Let W1 : wf_noearly tbl = true := proj1 (wf_parts tbl W).

Definition it (s : pstate) : pstate := fst (iter1 tbl s).
Definition full (s : pstate) : pstate := fst (saturate (S (length (t_rounds tbl))) tbl s []).

(** what happens after Update() in one iteration *)
Definition after_upd (s1 : pstate) : pstate :=
  if can_proceed s1 then
    let s2 := with_round s1 (S (ps_round s1)) in
    match cur_round tbl s2 with
    | None => s2
    | Some r2 => fst (run_start r2 s2)
    end
  else s1.

Lemma it_some : forall s r, cur_round tbl s = Some r -> it s = after_upd (upd r s).
Proof.
  intros s r Hr. unfold it, iter1, after_upd. rewrite Hr. cbv zeta.
  destruct (can_proceed (upd r s)); auto.
  destruct (cur_round tbl (with_round (upd r s) (S (ps_round (upd r s))))); reflexivity.
Qed.
Lemma it_none : forall s, cur_round tbl s = None -> it s = s.
Proof. intros s Hr. unfold it, iter1. rewrite Hr. reflexivity. Qed.

Lemma fst_saturate_acc : forall k s acc, fst (saturate k tbl s acc) = fst (saturate k tbl s []).
Proof. intros. rewrite saturate_acc. reflexivity. Qed.

Lemma sat_step : forall k s acc, fst (saturate (S k) tbl s acc) = fst (saturate k tbl (it s) []).
Proof. intros. rewrite (saturate_iter1 tbl W1). rewrite fst_saturate_acc. reflexivity. Qed.

Lemma sat_settled : forall k s acc, settled tbl s -> fst (saturate k tbl s acc) = s.
Proof.
  induction k as [|k IH]; intros s acc Hs; auto.
  rewrite sat_step. unfold it. rewrite (settled_iter1 tbl s Hs). cbn [fst]. apply IH. exact Hs.
Qed.

Lemma sat_iter : forall k s acc, fst (saturate k tbl s acc) = Nat.iter k it s.
Proof.
  induction k as [|k IH]; intros s acc; auto.
  rewrite sat_step, IH. rewrite iter_succ_r'. reflexivity.
Qed.

Lemma it_settled_fix : forall s, settled tbl s -> it s = s.
Proof. intros s Hs. unfold it. rewrite (settled_iter1 tbl s Hs). reflexivity. Qed.

Lemma it_fix_settled : forall s, it s = s -> settled tbl s.
Proof.
  intros s H. rewrite <- H. apply (iter1_settled tbl W1). fold (it s). rewrite H. reflexivity.
Qed.

(** enough fuel gives the same result as more fuel *)
Lemma sat_fuel : forall k n s acc,
  length (t_rounds tbl) < k + ps_round s ->
  fst (saturate (k + n) tbl s acc) = fst (saturate k tbl s acc).
Proof.
  induction k as [|k IH]; intros n s acc Hk.
  - cbn [Nat.add saturate fst]. apply sat_settled. apply finished_settled. apply cur_round_none.
    right. unfold finished. apply Nat.ltb_lt. lia.
  - cbn [Nat.add]. rewrite !sat_step. destruct (round_iter1 tbl s) as [E|E]; fold (it s) in E.
    + pose proof (iter1_settled tbl W1 s E) as Hs. fold (it s) in Hs. rewrite !sat_settled; auto.
    + apply IH. rewrite E. lia.
Qed.

Lemma full_settled : forall s, settled tbl (full s).
Proof. intros. apply saturate_full_settled. exact W1. Qed.

Lemma full_of_settled : forall s, settled tbl s -> full s = s.
Proof. intros. apply sat_settled. assumption. Qed.

Lemma full_it : forall s, full (it s) = full s.
Proof.
  intros s. unfold full at 2. rewrite sat_step. unfold full.
  destruct (round_iter1 tbl s) as [E|E]; fold (it s) in E.
  - pose proof (iter1_settled tbl W1 s E) as Hs. fold (it s) in Hs. rewrite !sat_settled; auto.
  - rewrite <- (Nat.add_1_r (length (t_rounds tbl))). apply sat_fuel. rewrite E. lia.
Qed.

(** *** storing an honest message commutes with the loop *)

Lemma emit_flag_honest : forall r e, In r (t_rounds tbl) -> In e (st_emits (r_start r)) ->
  em_self_store e = true -> emit_flag e = honest_flag tbl (em_type e).
Proof.
  intros r e Hr He Hs. pose proof (wf_parts tbl W) as (_ & _ & W3 & _).
  unfold wf_selfstore_flags in W3. rewrite forallb_forall in W3. specialize (W3 r Hr).
  rewrite forallb_forall in W3. specialize (W3 e He). rewrite Hs in W3. cbn in W3. apply eqb_prop in W3. exact W3.
Qed.

Lemma apply_emits_put : forall l s t j,
  (forall e, In e l -> em_self_store e = true -> emit_flag e = honest_flag tbl (em_type e)) ->
  fold_left apply_emit l (store_put s t j (honest_flag tbl t)) =
  store_put (fold_left apply_emit l s) t j (honest_flag tbl t).
Proof.
  induction l as [|e l IH]; intros s t j Hl; cbn [fold_left]; auto.
  rewrite <- IH by (intros; apply Hl; auto; right; auto). f_equal.
  unfold apply_emit. destruct (em_self_store e) eqn:Hs; auto.
  change (ps_idx (store_put s t j (honest_flag tbl t))) with (ps_idx s).
  fold (emit_flag e). apply store_put_comm.
  destruct (Nat.eq_dec t (em_type e)) as [E|E].
  - right. rewrite (Hl e (or_introl eq_refl) Hs), E. reflexivity.
  - left. congruence.
Qed.

Lemma run_start_put : forall r s t j, In r (t_rounds tbl) ->
  run_start r (store_put s t j (honest_flag tbl t)) =
  (store_put (fst (run_start r s)) t j (honest_flag tbl t), snd (run_start r s)).
Proof.
  intros r s t j Hr. rewrite !run_start_decomp.
  rewrite (holds_static _ _ s (static_store_put s t j _)).
  destruct (holds (st_guard (r_start r)) s); cbn [fst snd].
  - rewrite start_oks_put, apply_emits_put; auto. intros e He. apply (emit_flag_honest r e Hr He).
  - rewrite start_oks_put. reflexivity.
Qed.

Lemma can_proceed_with_ok_true : forall s c v, can_proceed (with_ok s c v) = true -> forallb (fun b => b) v = true.
Proof. intros s [] v H; unfold can_proceed in H; cbn in H; apply andb_true_iff in H; tauto. Qed.

Lemma after_upd_put : forall x t j, can_proceed x = true ->
  after_upd (store_put x t j (honest_flag tbl t)) = store_put (after_upd x) t j (honest_flag tbl t).
Proof.
  intros x t j Hc. unfold after_upd. rewrite can_proceed_store_put, Hc. cbv zeta.
  rewrite round_store_put, with_round_store_put.
  rewrite (cur_round_static_round tbl (store_put (with_round x (S (ps_round x))) t j (honest_flag tbl t))
             (with_round x (S (ps_round x)))) by reflexivity.
  destruct (cur_round tbl (with_round x (S (ps_round x)))) as [r2|] eqn:Hr2; auto.
  rewrite run_start_put; auto. eapply cur_round_in; eauto.
Qed.

Lemma upd_put_upd : forall r s t j, In r (t_rounds tbl) ->
  upd r (store_put (upd r s) t j (honest_flag tbl t)) = upd r (store_put s t j (honest_flag tbl t)).
Proof.
  intros r s t j Hr. set (f := honest_flag tbl t).
  rewrite (upd_closed tbl W1 r (store_put (upd r s) t j f) Hr).
  rewrite (upd_closed tbl W1 r (store_put s t j f) Hr).
  rewrite (selected_scan_static _ s _ (eq_trans (static_store_put (upd r s) t j f) (static_upd r s))).
  rewrite (selected_scan_static (store_put s t j f) s _ (static_store_put s t j f)).
  rewrite (upd_closed tbl W1 r s Hr).
  destruct (selected_scan s (r_update r)) as [sc|] eqn:Hsel; auto.
  rewrite <- with_ok_store_put, with_ok_with_ok, okvec_with_ok_same, okvec_store_put. f_equal.
  rewrite (orvec_ext _ (scan_ok r (store_put s t j f) sc)).
  - apply orvec_idem_mono. intros j'. apply scan_ok_put_good; auto.
  - intros j'. apply scan_ok_ext.
    + rewrite static_with_ok. reflexivity.
    + rewrite store_with_ok. reflexivity.
Qed.

Lemma upd_put_proceed : forall r s t j, In r (t_rounds tbl) -> can_proceed (upd r s) = true ->
  upd r (store_put s t j (honest_flag tbl t)) = store_put (upd r s) t j (honest_flag tbl t).
Proof.
  intros r s t j Hr Hc. set (f := honest_flag tbl t).
  rewrite (upd_closed tbl W1 r (store_put s t j f) Hr).
  rewrite (selected_scan_static (store_put s t j f) s _ (static_store_put s t j f)).
  rewrite (upd_closed tbl W1 r s Hr) in *.
  destruct (selected_scan s (r_update r)) as [sc|] eqn:Hsel; auto.
  rewrite <- with_ok_store_put, okvec_store_put. f_equal.
  apply orvec_mono_alltrue.
  - intros j'. apply scan_ok_put_good; auto.
  - eapply can_proceed_with_ok_true; eauto.
Qed.

Lemma full_put_it : forall s t j,
  full (store_put (it s) t j (honest_flag tbl t)) = full (store_put s t j (honest_flag tbl t)).
Proof.
  intros s t j. set (f := honest_flag tbl t).
  destruct (cur_round tbl s) as [r|] eqn:Hr.
  2:{ rewrite it_none; auto. }
  assert (Hrin : In r (t_rounds tbl)) by (eapply cur_round_in; eauto).
  assert (Hrp : cur_round tbl (store_put s t j f) = Some r) by exact Hr.
  rewrite (it_some s r Hr). unfold after_upd at 1.
  destruct (can_proceed (upd r s)) eqn:Hc.
  - rewrite <- (full_it (store_put s t j f)). rewrite (it_some _ r Hrp).
    unfold f. rewrite upd_put_proceed, after_upd_put; auto.
    unfold after_upd. rewrite Hc. reflexivity.
  - rewrite <- (full_it (store_put (upd r s) t j f)), <- (full_it (store_put s t j f)).
    assert (Hru : cur_round tbl (store_put (upd r s) t j f) = Some r).
    { rewrite <- Hr. apply cur_round_static_round. cbn. apply round_upd. }
    rewrite (it_some _ r Hru), (it_some _ r Hrp). unfold f. rewrite upd_put_upd; auto.
Qed.

Lemma full_put_sat : forall k s acc t j,
  full (store_put (fst (saturate k tbl s acc)) t j (honest_flag tbl t)) = full (store_put s t j (honest_flag tbl t)).
Proof.
  induction k as [|k IH]; intros s acc t j; auto.
  rewrite sat_step, IH. apply full_put_it.
Qed.

(** the key commutation: saturating before storing an honest message changes nothing *)
Lemma full_put_full : forall s t j,
  full (store_put (full s) t j (honest_flag tbl t)) = full (store_put s t j (honest_flag tbl t)).
Proof. intros. unfold full at 2. apply full_put_sat. Qed.

End Order.

Section Order2.
Variable tbl : table.
Hypothesis W : wf tbl = true.

Definition put_msg (s : pstate) (m : msg) : pstate := let '(t, j, f) := m in store_put s t j f.
Definition put_all (s : pstate) (l : list msg) : pstate := fold_left put_msg l s.

Definition honest_msg (m : msg) : Prop := snd m = honest_flag tbl (fst (fst m)).
Definition valid_msg (s : pstate) (m : msg) : Prop := validate tbl s (fst (fst m)) (snd (fst m)) = true.

Lemma good_msg_iff : forall s m, good_msg tbl s m <-> valid_msg s m /\ honest_msg m.
Proof.
  intros s [[t j] f]. unfold good_msg, good_msgb, valid_msg, honest_msg. cbn [fst snd].
  rewrite andb_true_iff. split; intros [H1 H2]; split; auto.
  - apply eqb_prop. exact H2.
  - rewrite H2. apply eqb_reflx.
Qed.

Lemma validate_static : forall s s' t j, static s = static s' -> validate tbl s t j = validate tbl s' t j.
Proof.
  intros s s' t j H. unfold validate. destruct (nth_error (t_types tbl) t); auto.
  rewrite (csize_static _ _ _ H). reflexivity.
Qed.

Lemma good_msg_static : forall s s' m, static s = static s' -> good_msg tbl s m -> good_msg tbl s' m.
Proof.
  intros s s' [[t j] f] H. unfold good_msg, good_msgb. rewrite (validate_static s s' t j H). auto.
Qed.

Lemma full_static : forall s, static (full tbl s) = static s.
Proof. intros. apply saturate_static. Qed.

Lemma static_put_msg : forall s m, static (put_msg s m) = static s.
Proof. intros s [[t j] f]. reflexivity. Qed.
Lemma static_put_all : forall l s, static (put_all s l) = static s.
Proof.
  induction l as [|m l IH]; intros s; auto. change (put_all s (m :: l)) with (put_all (put_msg s m) l).
  rewrite IH. apply static_put_msg.
Qed.

Lemma deliver_msg_full : forall s m, valid_msg s m -> fst (deliver_msg tbl s m) = full tbl (put_msg s m).
Proof.
  intros s [[t j] f] Hv. unfold valid_msg in Hv. cbn [fst snd] in Hv.
  unfold deliver_msg, deliver. rewrite Hv. reflexivity.
Qed.

Lemma full_put_msg_full : forall s m, honest_msg m -> full tbl (put_msg (full tbl s) m) = full tbl (put_msg s m).
Proof.
  intros s [[t j] f] Hh. unfold honest_msg in Hh. cbn [fst snd] in Hh. subst f. cbn [put_msg].
  apply full_put_full. exact W.
Qed.

(** delivering honest messages one by one = storing them all, then running the loop *)
Lemma deliver_all_full : forall l x, Forall (good_msg tbl x) l ->
  deliver_all tbl (full tbl x) l = full tbl (put_all x l).
Proof.
  induction l as [|m l IH]; intros x Hl; auto.
  inversion Hl as [|m' l' Hm Hl']; subst.
  change (deliver_all tbl (full tbl x) (m :: l)) with (deliver_all tbl (fst (deliver_msg tbl (full tbl x) m)) l).
  change (put_all x (m :: l)) with (put_all (put_msg x m) l).
  apply good_msg_iff in Hm. destruct Hm as [Hv Hh].
  rewrite deliver_msg_full.
  - rewrite (full_put_msg_full x m Hh). apply IH.
    eapply Forall_impl; [|exact Hl']. intros a Ha. eapply good_msg_static; [|exact Ha].
    symmetry. apply static_put_msg.
  - unfold valid_msg in *. rewrite (validate_static _ x); auto. apply full_static.
Qed.

Theorem deliver_all_as_put_all : forall l s, l <> [] -> Forall (good_msg tbl s) l ->
  deliver_all tbl s l = full tbl (put_all s l).
Proof.
  intros [|m l] s Hne Hl; [congruence|]. inversion Hl as [|m' l' Hm Hl']; subst.
  change (deliver_all tbl s (m :: l)) with (deliver_all tbl (fst (deliver_msg tbl s m)) l).
  change (put_all s (m :: l)) with (put_all (put_msg s m) l).
  apply good_msg_iff in Hm. destruct Hm as [Hv Hh].
  rewrite deliver_msg_full by exact Hv. apply deliver_all_full.
  eapply Forall_impl; [|exact Hl']. intros a Ha. eapply good_msg_static; [|exact Ha].
  symmetry. apply static_put_msg.
Qed.

(** *** the store after storing a set of honest messages *)

Definition hits (t j : nat) (m : msg) : bool := Nat.eqb (fst (fst m)) t && Nat.eqb (snd (fst m)) j.

Lemma row_len_put_all : forall l s t, row_len (put_all s l) t = row_len s t.
Proof.
  induction l as [|[[t' j'] f'] l IH]; intros s t; auto.
  change (put_all s ((t', j', f') :: l)) with (put_all (store_put s t' j' f') l).
  rewrite IH. apply row_len_put.
Qed.
Lemma store_len_put_all : forall l s, length (ps_store (put_all s l)) = length (ps_store s).
Proof.
  induction l as [|[[t' j'] f'] l IH]; intros s; auto.
  change (put_all s ((t', j', f') :: l)) with (put_all (store_put s t' j' f') l).
  rewrite IH. apply store_len_put.
Qed.
Lemma round_put_all : forall l s, ps_round (put_all s l) = ps_round s.
Proof.
  induction l as [|[[t' j'] f'] l IH]; intros s; auto.
  change (put_all s ((t', j', f') :: l)) with (put_all (store_put s t' j' f') l).
  rewrite IH. reflexivity.
Qed.
Lemma okvec_put_all : forall l s c, okvec (put_all s l) c = okvec s c.
Proof.
  induction l as [|[[t' j'] f'] l IH]; intros s c; auto.
  change (put_all s ((t', j', f') :: l)) with (put_all (store_put s t' j' f') l).
  rewrite IH. apply okvec_store_put.
Qed.

Lemma store_get_put_all : forall l s t j, Forall honest_msg l ->
  store_get (put_all s l) t j =
  if existsb (hits t j) l && Nat.ltb j (row_len s t) then Some (honest_flag tbl t) else store_get s t j.
Proof.
  induction l as [|[[t' j'] f'] l IH]; intros s t j Hl; auto.
  inversion Hl as [|m' l' Hm Hl']; subst. unfold honest_msg in Hm. cbn [fst snd] in Hm. subst f'.
  change (put_all s ((t', j', honest_flag tbl t') :: l)) with (put_all (store_put s t' j' (honest_flag tbl t')) l).
  rewrite IH by exact Hl'. rewrite row_len_put, store_get_put. cbn [existsb].
  destruct (existsb (hits t j) l); unfold hits; cbn [fst snd orb andb].
  - rewrite orb_true_r. cbn [andb]. destruct (Nat.ltb j (row_len s t)) eqn:Hlt; auto.
    destruct (Nat.eqb_spec t t'); cbn [andb]; auto. subst t'.
    destruct (Nat.eqb_spec j j'); cbn [andb]; auto. subst j'. rewrite Hlt. reflexivity.
  - rewrite orb_false_r. rewrite (Nat.eqb_sym t t'), (Nat.eqb_sym j j').
    destruct (Nat.eqb_spec t' t); cbn [andb]; auto. subst t'.
    destruct (Nat.eqb_spec j' j); cbn [andb]; auto. subst j'. reflexivity.
Qed.

Lemma existsb_same_set : forall A (f : A -> bool) l1 l2, (forall x, In x l1 <-> In x l2) -> existsb f l1 = existsb f l2.
Proof.
  intros A f l1 l2 H. destruct (existsb f l1) eqn:E1; destruct (existsb f l2) eqn:E2; auto.
  - apply existsb_exists in E1. destruct E1 as (x & Hx & Hf).
    assert (existsb f l2 = true) by (apply existsb_exists; exists x; split; auto; apply H; auto). congruence.
  - apply existsb_exists in E2. destruct E2 as (x & Hx & Hf).
    assert (existsb f l1 = true) by (apply existsb_exists; exists x; split; auto; apply H; auto). congruence.
Qed.

Lemma put_all_same_set : forall l1 l2 s, Forall honest_msg l1 -> (forall m, In m l1 <-> In m l2) ->
  put_all s l1 = put_all s l2.
Proof.
  intros l1 l2 s H1 Hset.
  assert (H2 : Forall honest_msg l2).
  { rewrite Forall_forall in *. intros m Hm. apply H1. apply Hset. exact Hm. }
  apply pstate_ext.
  - rewrite !static_put_all. reflexivity.
  - rewrite !round_put_all. reflexivity.
  - apply (eq_trans (okvec_put_all l1 s Old)). symmetry. apply (okvec_put_all l2 s Old).
  - apply (eq_trans (okvec_put_all l1 s New)). symmetry. apply (okvec_put_all l2 s New).
  - rewrite !store_len_put_all. reflexivity.
  - intros t. rewrite !row_len_put_all. reflexivity.
  - intros t j. rewrite !store_get_put_all by assumption.
    rewrite (existsb_same_set _ (hits t j) l1 l2 Hset). reflexivity.
Qed.

Lemma Forall_good_honest : forall s l, Forall (good_msg tbl s) l -> Forall honest_msg l.
Proof. intros s l H. eapply Forall_impl; [|exact H]. intros a Ha. apply good_msg_iff in Ha. tauto. Qed.

(** ** Theorem 5: the state and the events after delivering a set of honest messages do not depend
    on the order of delivery, nor on repeated deliveries *)
Theorem delivery_set_independent : forall s l1 l2,
  Forall (good_msg tbl s) l1 -> (forall m, In m l1 <-> In m l2) ->
  deliver_all tbl s l1 = deliver_all tbl s l2 /\
  snd (deliver_all_ev tbl s l1) = snd (deliver_all_ev tbl s l2).
Proof.
  intros s l1 l2 H1 Hset.
  assert (H2 : Forall (good_msg tbl s) l2).
  { rewrite Forall_forall in *. intros m Hm. apply H1. apply Hset. exact Hm. }
  assert (E : deliver_all tbl s l1 = deliver_all tbl s l2).
  { destruct l1 as [|m1 l1'].
    - destruct l2 as [|m2 l2']; auto. exfalso. apply (proj2 (Hset m2)). left. reflexivity.
    - destruct l2 as [|m2 l2'].
      + exfalso. apply (proj1 (Hset m1)). left. reflexivity.
      + rewrite !deliver_all_as_put_all by (auto; discriminate).
        f_equal. apply put_all_same_set; auto. eapply Forall_good_honest; eauto. }
  split; auto. rewrite !deliver_all_events, E. reflexivity.
Qed.

Theorem order_independent : forall s l1 l2,
  Forall (good_msg tbl s) l1 -> Permutation l1 l2 ->
  deliver_all tbl s l1 = deliver_all tbl s l2 /\
  snd (deliver_all_ev tbl s l1) = snd (deliver_all_ev tbl s l2).
Proof.
  intros s l1 l2 H1 HP. apply delivery_set_independent; auto.
  intros m. split; apply Permutation_in; auto. apply Permutation_sym. exact HP.
Qed.

(** re-delivery of an honest message is harmless *)
Theorem deliver_idempotent : forall s m, good_msg tbl s m ->
  fst (deliver_msg tbl (fst (deliver_msg tbl s m)) m) = fst (deliver_msg tbl s m) /\
  snd (deliver_msg tbl (fst (deliver_msg tbl s m)) m) = [].
Proof.
  intros s m Hm.
  destruct (delivery_set_independent s [m; m] [m]) as [E _].
  { repeat constructor; auto. }
  { intros x. cbn. tauto. }
  cbn in E. split; auto.
  destruct m as [[t j] f]. cbn [deliver_msg] in *. rewrite deliver_events, E, Nat.sub_diag. reflexivity.
Qed.

End Order2.

(* ------------------------------------------------------------------ *)
(** * 12. Concurrent BaseUpdate calls (C09)                             *)
(* ------------------------------------------------------------------ *)

(** BaseUpdate holds the party mutex from "store the message" to the end of ONE Update / CanProceed /
    advance / Start iteration, releases it, and calls itself again with the same message (which is
    stored again).  [step1] is this atomic segment; a concurrent execution of several BaseUpdate calls
    is an interleaving of such segments, i.e. a list [sched] of messages (each call contributes one
    entry per segment it executed). *)
Section Concurrent.
Variable tbl : table.
Hypothesis W : wf tbl = true.

Definition step1 (s : pstate) (m : msg) : pstate :=
  if validate tbl s (fst (fst m)) (snd (fst m)) then it tbl (put_msg s m) else s.

Definition run_sched (s : pstate) (sched : list msg) : pstate := fold_left step1 sched s.

(** [m] is (still) in the store, or its slot does not exist *)
Definition stored (s : pstate) (m : msg) : Prop :=
  snd (fst m) < row_len s (fst (fst m)) -> store_get s (fst (fst m)) (snd (fst m)) = Some (snd m).

Lemma stored_put : forall s m, stored (put_msg s m) m.
Proof.
  intros s [[t j] f]. unfold stored. cbn [fst snd put_msg]. rewrite row_len_put, store_get_put. intros H.
  rewrite !Nat.eqb_refl. apply Nat.ltb_lt in H. rewrite H. reflexivity.
Qed.

Lemma stored_absorb : forall s m, stored s m -> put_msg s m = s.
Proof. intros s [[t j] f] H. apply store_put_absorb. exact H. Qed.

Lemma store_get_apply_emits_mono : forall l s t j,
  (forall e, In e l -> em_self_store e = true -> emit_flag e = honest_flag tbl (em_type e)) ->
  store_get s t j = Some (honest_flag tbl t) ->
  store_get (fold_left apply_emit l s) t j = Some (honest_flag tbl t).
Proof.
  induction l as [|e l IH]; intros s t j Hl H; cbn [fold_left]; auto.
  apply IH; [intros; apply Hl; auto; right; auto|].
  unfold apply_emit. destruct (em_self_store e) eqn:Hs; auto. rewrite store_get_put.
  destruct (Nat.eqb_spec t (em_type e)); cbn [andb]; auto.
  destruct (Nat.eqb j (ps_idx s) && Nat.ltb (ps_idx s) (row_len s (em_type e))); auto.
  fold (emit_flag e). rewrite (Hl e (or_introl eq_refl) Hs). subst t. reflexivity.
Qed.

Lemma store_get_run_start_mono : forall r s t j, In r (t_rounds tbl) ->
  store_get s t j = Some (honest_flag tbl t) -> store_get (fst (run_start r s)) t j = Some (honest_flag tbl t).
Proof.
  intros r s t j Hr H. rewrite run_start_decomp. destruct (holds (st_guard (r_start r)) s); cbn [fst].
  - apply store_get_apply_emits_mono.
    + intros e He. apply (emit_flag_honest tbl W r e Hr He).
    + rewrite (store_get_store _ s); auto. apply store_start_oks.
  - rewrite (store_get_store _ s); auto. apply store_start_oks.
Qed.

Lemma store_get_it_mono : forall s t j,
  store_get s t j = Some (honest_flag tbl t) -> store_get (it tbl s) t j = Some (honest_flag tbl t).
Proof.
  intros s t j H. destruct (cur_round tbl s) as [r|] eqn:Hr.
  2:{ rewrite it_none; auto. }
  rewrite (it_some tbl s r Hr). unfold after_upd.
  assert (Hu : store_get (upd r s) t j = Some (honest_flag tbl t)).
  { rewrite (store_get_store _ s); auto. apply store_upd. }
  destruct (can_proceed (upd r s)); auto. cbv zeta.
  destruct (cur_round tbl (with_round (upd r s) (S (ps_round (upd r s))))) as [r2|] eqn:Hr2; auto.
  apply store_get_run_start_mono; auto. eapply cur_round_in; eauto.
Qed.

Lemma row_len_it : forall s t, row_len (it tbl s) t = row_len s t.
Proof.
  intros s t. destruct (cur_round tbl s) as [r|] eqn:Hr.
  2:{ rewrite it_none; auto. }
  rewrite (it_some tbl s r Hr). unfold after_upd.
  assert (Hu : row_len (upd r s) t = row_len s t) by (apply row_len_store, store_upd).
  destruct (can_proceed (upd r s)); auto. cbv zeta.
  destruct (cur_round tbl (with_round (upd r s) (S (ps_round (upd r s))))) as [r2|]; auto.
  rewrite row_len_run_start. exact Hu.
Qed.

Lemma stored_it : forall s m, honest_msg tbl m -> stored s m -> stored (it tbl s) m.
Proof.
  intros s [[t j] f] Hh. unfold honest_msg in Hh. unfold stored. cbn [fst snd] in *. subst f.
  rewrite row_len_it. intros H Hj. apply store_get_it_mono. auto.
Qed.

Lemma static_it : forall s, static (it tbl s) = static s.
Proof. intros. apply static_iter1. Qed.

(** BaseUpdate as the iteration of its atomic segment, re-storing the message every time
    (the shape of the Go recursion) *)
Theorem deliver_as_step1 : forall s m, good_msg tbl s m ->
  fst (deliver_msg tbl s m) = Nat.iter (S (length (t_rounds tbl))) (fun st => step1 st m) s.
Proof.
  intros s m Hm. apply good_msg_iff in Hm. destruct Hm as [Hv Hh].
  rewrite deliver_msg_full by exact Hv. unfold full. rewrite (sat_iter tbl W).
  generalize (length (t_rounds tbl)). intros k.
  assert (H : Nat.iter (S k) (fun st => step1 st m) s = Nat.iter (S k) (it tbl) (put_msg s m) /\
              stored (Nat.iter (S k) (it tbl) (put_msg s m)) m /\
              static (Nat.iter (S k) (it tbl) (put_msg s m)) = static s).
  { induction k as [|k IH].
    - cbn [Nat.iter nat_rect]. unfold step1. unfold valid_msg in Hv. rewrite Hv. split; auto. split.
      + apply stored_it; auto. apply stored_put.
      + rewrite static_it. apply static_put_msg.
    - destruct IH as (IH1 & IH2 & IH3).
      change (Nat.iter (S (S k)) (fun st => step1 st m) s) with (step1 (Nat.iter (S k) (fun st => step1 st m) s) m).
      change (Nat.iter (S (S k)) (it tbl) (put_msg s m)) with (it tbl (Nat.iter (S k) (it tbl) (put_msg s m))).
      rewrite IH1. unfold step1 at 1. unfold valid_msg in Hv.
      rewrite (validate_static tbl _ s _ _ IH3), Hv. rewrite (stored_absorb _ m IH2). split; auto. split.
      + apply stored_it; auto.
      + rewrite static_it. exact IH3. }
  symmetry. apply H.
Qed.

(** the loop after storing honest messages does not care whether single iterations ran in between *)
Lemma full_put_all_it : forall l x, Forall (honest_msg tbl) l ->
  full tbl (put_all (it tbl x) l) = full tbl (put_all x l).
Proof.
  intros l. induction l as [|m l IH] using rev_ind; intros x Hl.
  - cbn. apply (full_it tbl W).
  - apply Forall_app in Hl. destruct Hl as [Hl Hm]. inversion Hm as [|m' l' Hm' _]; subst.
    unfold put_all. rewrite !fold_left_app. cbn [fold_left]. fold (put_all (it tbl x) l). fold (put_all x l).
    rewrite <- (full_put_msg_full tbl W (put_all (it tbl x) l) m Hm').
    rewrite IH by exact Hl. apply (full_put_msg_full tbl W). exact Hm'.
Qed.

Lemma run_sched_static : forall sched s, static (run_sched s sched) = static s.
Proof.
  induction sched as [|m l IH]; intros s; auto.
  change (run_sched s (m :: l)) with (run_sched (step1 s m) l). rewrite IH.
  unfold step1. destruct (validate tbl s (fst (fst m)) (snd (fst m))); auto.
  rewrite static_it. apply static_put_msg.
Qed.

Lemma full_run_sched : forall sched s, Forall (good_msg tbl s) sched ->
  full tbl (run_sched s sched) = full tbl (put_all s sched).
Proof.
  induction sched as [|m l IH]; intros s Hl; auto.
  inversion Hl as [|m' l' Hm Hl']; subst.
  change (run_sched s (m :: l)) with (run_sched (step1 s m) l).
  change (put_all s (m :: l)) with (put_all (put_msg s m) l).
  pose proof Hm as Hm2. apply good_msg_iff in Hm2. destruct Hm2 as [Hv Hh].
  assert (Hst : static (step1 s m) = static s).
  { apply (run_sched_static [m] s). }
  rewrite IH.
  - unfold step1. unfold valid_msg in Hv. rewrite Hv. apply full_put_all_it.
    eapply Forall_good_honest; eauto.
  - eapply Forall_impl; [|exact Hl']. intros a Ha. eapply good_msg_static; [|exact Ha]. symmetry. exact Hst.
Qed.

(** a segment that did not advance the round leaves a quiescent state *)
Lemma step1_quiescent : forall s m, valid_msg tbl s m ->
  ps_round (step1 s m) = ps_round s -> it tbl (step1 s m) = step1 s m.
Proof.
  intros s m Hv Hr. unfold step1 in *. unfold valid_msg in Hv. rewrite Hv in *.
  apply it_settled_fix. pose proof (wf_parts tbl W) as (W1 & _).
  apply (iter1_settled tbl W1). fold (it tbl (put_msg s m)). rewrite Hr.
  destruct m as [[t j] f]. reflexivity.
Qed.

(** ** Theorem 6: any interleaving of the atomic segments of concurrent BaseUpdate calls for honest
    messages [msgs], in which every message was stored at least once and after which no call can make
    progress, ends in exactly the state of delivering [msgs] sequentially (in any order). *)
Theorem concurrent_updates_confluent : forall s msgs sched,
  msgs <> [] -> Forall (good_msg tbl s) msgs ->
  (forall m, In m sched <-> In m msgs) ->
  it tbl (run_sched s sched) = run_sched s sched ->
  run_sched s sched = deliver_all tbl s msgs.
Proof.
  intros s msgs sched Hne Hg Hset Hq.
  assert (Hgs : Forall (good_msg tbl s) sched).
  { rewrite Forall_forall in *. intros m Hm. apply Hg. apply Hset. exact Hm. }
  rewrite <- (full_of_settled tbl W (run_sched s sched)) by (apply (it_fix_settled tbl W); exact Hq).
  rewrite full_run_sched by exact Hgs.
  rewrite deliver_all_as_put_all by auto. f_equal.
  apply (put_all_same_set tbl); auto. eapply Forall_good_honest; eauto.
Qed.

End Concurrent.

(* ------------------------------------------------------------------ *)
(** * 13. Whole runs: packaged corollaries                              *)
(* ------------------------------------------------------------------ *)

Section Runs.
Variable tbl : table.
Hypothesis W : wf tbl = true.

Lemma last_round_events : forall s, wf_end_last tbl = true ->
  1 <= length (t_rounds tbl) /\ count_end (start_events tbl s (length (t_rounds tbl))) = 1.
Proof.
  intros s W5. unfold wf_end_last in W5. apply andb_true_iff in W5. destruct W5 as [_ W5].
  destruct (rev (t_rounds tbl)) as [|r l'] eqn:E; [discriminate|].
  assert (Hr : t_rounds tbl = rev l' ++ [r]).
  { rewrite <- (rev_involutive (t_rounds tbl)), E. reflexivity. }
  apply andb_true_iff in W5. destruct W5 as [He Hg].
  rewrite Hr, app_length, rev_length. cbn [length]. rewrite Nat.add_1_r. split; [lia|].
  cbn [start_events].
  assert (Hn : nth_error (t_rounds tbl) (length l') = Some r).
  { rewrite Hr, nth_error_app2 by (rewrite rev_length; lia). rewrite rev_length, Nat.sub_diag. reflexivity. }
  rewrite Hn. destruct (st_guard (r_start r)); try discriminate. cbn [holds].
  rewrite count_end_round_events, He. reflexivity.
Qed.

Lemma count_end_seq_exact : wf_end_last tbl = true -> forall s n a,
  count_end (flat_map (start_events tbl s) (seq a n)) =
  if Nat.leb a (length (t_rounds tbl)) && Nat.ltb (length (t_rounds tbl)) (a + n) then 1 else 0.
Proof.
  intros W5 s. induction n as [|n IH]; intros a.
  - cbn [seq flat_map]. destruct (Nat.leb_spec a (length (t_rounds tbl))), (Nat.ltb_spec (length (t_rounds tbl)) (a + 0)); cbn; auto; lia.
  - cbn [seq flat_map]. rewrite count_end_app, IH.
    destruct (Nat.eq_dec a (length (t_rounds tbl))) as [E|E].
    + subst a. rewrite (proj2 (last_round_events s W5)).
      destruct (Nat.leb_spec (S (length (t_rounds tbl))) (length (t_rounds tbl))); [lia|].
      destruct (Nat.leb_spec (length (t_rounds tbl)) (length (t_rounds tbl))); [|lia].
      destruct (Nat.ltb_spec (length (t_rounds tbl)) (length (t_rounds tbl) + S n)); [|lia]. reflexivity.
    + rewrite (count_end_start_events tbl W5 s a E).
      destruct (Nat.leb_spec (S a) (length (t_rounds tbl))), (Nat.leb_spec a (length (t_rounds tbl))),
        (Nat.ltb_spec (length (t_rounds tbl)) (S a + n)), (Nat.ltb_spec (length (t_rounds tbl)) (a + S n)); cbn; auto; lia.
Qed.

(** the end signal is given exactly once, exactly when the last round is entered *)
Theorem ends_exactly : forall s0 msgs, ps_round s0 = 0 ->
  count_end (snd (run_ev tbl s0 msgs)) =
  if Nat.leb (length (t_rounds tbl)) (ps_round (fst (run_ev tbl s0 msgs))) then 1 else 0.
Proof.
  intros s0 msgs H0. pose proof (wf_parts tbl W) as (_ & _ & _ & _ & W5).
  rewrite emits_once by exact H0. rewrite (count_end_seq_exact W5).
  destruct (last_round_events s0 W5) as [Hl _].
  set (R := ps_round (fst (run_ev tbl s0 msgs))).
  destruct (Nat.leb_spec 1 (length (t_rounds tbl))), (Nat.ltb_spec (length (t_rounds tbl)) (1 + R)),
    (Nat.leb_spec (length (t_rounds tbl)) R); cbn; auto; lia.
Qed.

Lemma settled_deliver_all : forall l s, settled tbl s -> settled tbl (deliver_all tbl s l).
Proof.
  induction l as [|[[t j] f] l IH]; intros s Hs; auto.
  change (deliver_all tbl s ((t, j, f) :: l)) with (deliver_all tbl (fst (deliver tbl s t j f)) l).
  apply IH. apply deliver_settled_any; auto.
Qed.

(** after at least one accepted delivery the party is settled *)
Theorem settled_after_deliveries : forall m l s, valid_msg tbl s m -> settled tbl (deliver_all tbl s (m :: l)).
Proof.
  intros [[t j] f] l s Hv.
  change (deliver_all tbl s ((t, j, f) :: l)) with (deliver_all tbl (fst (deliver tbl s t j f)) l).
  apply settled_deliver_all. apply deliver_settles; auto.
Qed.

Theorem Inv_deliver_all : forall l s, Forall (honest_msg tbl) l -> Inv tbl s -> Inv tbl (deliver_all tbl s l).
Proof.
  induction l as [|[[t j] f] l IH]; intros s Hl HI; auto.
  inversion Hl as [|m' l' Hm Hl']; subst. unfold honest_msg in Hm. cbn [fst snd] in Hm. subst f.
  change (deliver_all tbl s ((t, j, honest_flag tbl t) :: l))
    with (deliver_all tbl (fst (deliver tbl s t j (honest_flag tbl t))) l).
  apply IH; auto. apply Inv_deliver_good; auto.
Qed.

(** Theorem 4 for reachable states: a fresh party, BaseStart, then at least one honest delivery *)
Corollary waiting_exact_run : forall o n i no nn m l r c j,
  let s0 := init_state tbl o n i no nn in
  let s := deliver_all tbl (fst (start tbl s0)) (m :: l) in
  Forall (good_msg tbl s0) (m :: l) ->
  cur_round tbl s = Some r ->
  (In (c, j) (waiting s) <->
   j < csize s c /\ start_ok r s c j = false /\ sel_scan_ok r s c j = false).
Proof.
  intros o n i no nn m l r c j s0 s Hg Hr.
  apply (waiting_exact tbl W); auto.
  - apply Inv_deliver_all.
    + eapply Forall_good_honest; eauto.
    + apply Inv_start; auto. apply Inv_init.
  - apply settled_after_deliveries. inversion Hg as [|m' l' Hm _]; subst.
    apply good_msg_iff in Hm. destruct Hm as [Hv _]. unfold valid_msg in *.
    rewrite (validate_static tbl _ s0); auto. apply start_static.
Qed.

End Runs.

(* ------------------------------------------------------------------ *)
(** * 14. Further table checks (not needed by the proofs above)         *)
(* ------------------------------------------------------------------ *)

(** the last round accepts no message *)
Definition wf_last_accepts_nothing (tbl : table) : bool :=
  match rev (t_rounds tbl) with r :: _ => match r_accepts r with [] => true | _ => false end | [] => false end.

Lemma all_tables_extra : forallb (fun t => wf_indices t && wf_last_accepts_nothing t) all_tables = true.
Proof. vm_compute. reflexivity. Qed.

(* ------------------------------------------------------------------ *)
(** * 15. Examples: the statements are not vacuous                      *)
(* ------------------------------------------------------------------ *)

Module Examples.

(* a fixed copy of the EdDSA keygen table, so that the examples do not depend on the regenerated tables *)
Definition tK : table := mkTable
  [mkMsgType true New false false false;
   mkMsgType false New true false false;
   mkMsgType true New false false false]
  [mkRound [mkAccept 0 true RAlways]
     [UScan RAlways (mkScan New [(0, RAlways)] false)]
     (mkStart false false RAlways false false None [mkEmit 0 EBroadcast true] false);
   mkRound [mkAccept 1 false RAlways; mkAccept 2 true RAlways]
     [UScan RAlways (mkScan New [(1, RAlways); (2, RAlways)] false)]
     (mkStart false false RAlways false false None [mkEmit 1 (EP2P New true) true; mkEmit 2 EBroadcast true] false);
   mkRound []
     []
     (mkStart false false RAlways false true None [] true)].
Lemma tK_wf : wf tK = true. Proof. vm_compute. reflexivity. Qed.

(** party 0 of a 2-party committee (no old committee) *)
Definition s0 := init_state tK false true 0 0 2.
Definition s1 := fst (start tK s0).                    (* round 1 started, nothing received *)
Definition s2 := fst (deliver tK s1 0 1 true).         (* round-1 broadcast of party 1 received: now in round 2 *)
Definition m21 : msg := (1, 1, false).                 (* round-2 P2P message of party 1 *)
Definition m22 : msg := (2, 1, true).                  (* round-2 broadcast of party 1 *)

(** BaseStart on a fresh party only runs Start() of round 1: the own message is stored, but Update()
    has not run yet, so the party is not yet settled and waits for itself too *)
Example ex_start :
  start tK s0 = (s1, [EvEmit 0 EBroadcast]) /\ store_nonempty s0 = false /\
  ps_round s1 = 1 /\ waiting s1 = [(New, 0); (New, 1)].
Proof. vm_compute. auto. Qed.

Example ex_start_not_settled : ~ settled tK s1.
Proof. intros H. unfold settled in H. vm_compute in H. destruct H as [H _]. discriminate. Qed.

(** a full honest run of party 0: start, the round-1 broadcast, the two round-2 messages *)
Example ex_full_run :
  let r := run_ev tK s0 [(0, 1, true); m21; m22] in
  snd r = [EvEmit 0 EBroadcast; EvEmit 1 (EP2P New true); EvEmit 2 EBroadcast; EvEnd] /\
  ps_round (fst r) = 4 /\ count_end (snd r) = 1.
Proof. vm_compute. auto. Qed.

(** The final round sets its ok vector (since the fix: commit in /repo for EdDSA keygen), so the run
    ends with [finished = true]. *)
Example ex_eddsa_finished :
  finished tK (fst (run_ev tK s0 [(0, 1, true); m21; m22])) = true.
Proof. vm_compute. reflexivity. Qed.

Example ex_ecdsa_finished :
  let t := table_ecdsa_keygen in
  let r := run_ev t (init_state t false true 0 0 2) [(0, 1, true); (1, 1, false); (2, 1, true); (3, 1, true)] in
  finished t (fst r) = true /\
  snd r = [EvEmit 0 EBroadcast; EvEmit 1 (EP2P New true); EvEmit 2 EBroadcast; EvEmit 3 EBroadcast; EvEnd].
Proof. vm_compute. auto. Qed.

(** Theorem 1: hypotheses of [deliver_settles] hold, and the settled state is a running one *)
Example ex_settled : validate tK s1 0 1 = true /\ settled tK s2 /\ ps_round s2 = 2 /\ finished tK s2 = false.
Proof.
  split; [vm_compute; reflexivity|]. split; [|vm_compute; auto].
  apply (deliver_settles tK tK_wf). vm_compute. reflexivity.
Qed.

(** Theorem 2 on one call: entering round 2 sends exactly the round-2 messages *)
Example ex_events : snd (deliver tK s1 0 1 true) = [EvEmit 1 (EP2P New true); EvEmit 2 EBroadcast]
                    /\ flat_map (start_events tK s1) (seq 2 1) = [EvEmit 1 (EP2P New true); EvEmit 2 EBroadcast].
Proof. vm_compute. auto. Qed.

(** Theorem 3: the round-2 P2P message of party 1 with the broadcast flag set is stored but inert,
    while the same message with the right flag (plus the broadcast) completes the round *)
Example ex_flag_flip :
  true <> honest_flag tK 1 /\
  ps_round (fst (deliver tK s2 1 1 true)) = 2 /\ snd (deliver tK s2 1 1 true) = [] /\
  waiting (fst (deliver tK s2 1 1 true)) = [(New, 1)] /\
  ps_round (deliver_all tK s2 [(1, 1, true); m22]) = 2 /\
  ps_round (deliver_all tK s2 [m21; m22]) = 4.
Proof. vm_compute. repeat split; auto. discriminate. Qed.

(** StoreMessage overwrites unconditionally: a wrongly flagged message arriving AFTER the honest one
    erases it, and the round stalls although every honest message was delivered; re-delivery heals *)
Example ex_wrong_flag_erases :
  ps_round (deliver_all tK s2 [m21; (1, 1, true); m22]) = 2 /\
  waiting (deliver_all tK s2 [m21; (1, 1, true); m22]) = [(New, 1)] /\
  ps_round (deliver_all tK s2 [m21; (1, 1, true); m22; m21]) = 4.
Proof. vm_compute. auto. Qed.

(** ... and if it arrives after the peer's ok bit was set, the bit stays: with wrongly flagged
    messages in the history [waiting] is no longer exact (3 parties; party 1 is complete, then its
    P2P slot is overwritten: party 1 is not waited for although its slot is now unacceptable) *)
Example ex_inv_needs_honest :
  let u := deliver_all tK (fst (start tK (init_state tK false true 0 0 3)))
             [(0, 1, true); (0, 2, true); m21; m22; (1, 1, true)] in
  waiting u = [(New, 2)] /\ store_get u 1 1 = Some true /\ honest_flag tK 1 = false.
Proof. vm_compute. auto. Qed.

(** Theorem 4: in round 2 party 0 waits exactly for party 1, whose round-2 messages are missing *)
Example ex_waiting :
  Inv tK s2 /\ settled tK s2 /\
  exists r sc, cur_round tK s2 = Some r /\ selected_scan s2 (r_update r) = Some sc /\
    waiting s2 = [(New, 1)] /\ scan_ok r s2 sc 0 = true /\ scan_ok r s2 sc 1 = false /\
    start_ok r s2 New 1 = false /\ csize s2 Old = 0.
Proof.
  split; [|split].
  - apply (Inv_deliver_good tK tK_wf s1 0 1). apply (Inv_start tK tK_wf). apply Inv_init.
  - apply ex_settled.
  - eexists. eexists. vm_compute. repeat split; reflexivity.
Qed.

(** Theorem 5: the two round-2 messages in either order, and early round-2 messages *)
Example ex_order_hyps :
  Forall (good_msg tK s2) [m21; m22] /\ Permutation [m21; m22] [m22; m21] /\
  deliver_all tK s2 [m21; m22] = deliver_all tK s2 [m22; m21] /\
  ps_round (deliver_all tK s2 [m21; m22]) = 4 /\
  snd (deliver_all_ev tK s2 [m22; m21]) = [EvEnd].
Proof.
  split; [repeat constructor|]. split; [apply perm_swap|]. vm_compute. auto.
Qed.

Example ex_order_early :
  Forall (good_msg tK s1) [(0, 1, true); m21; m22] /\
  deliver_all tK s1 [m22; m21; (0, 1, true)] = deliver_all tK s1 [(0, 1, true); m21; m22] /\
  snd (deliver_all_ev tK s1 [m22; m21; (0, 1, true)]) = [EvEmit 1 (EP2P New true); EvEmit 2 EBroadcast; EvEnd].
Proof. split; [repeat constructor|]. vm_compute. auto. Qed.

(** Theorem 6: an interleaving of the segments of two concurrent BaseUpdate calls *)
Example ex_concurrent :
  let sched := [m21; m22; m21; m22] in
  (forall m, In m sched <-> In m [m21; m22]) /\
  it tK (run_sched tK s2 sched) = run_sched tK s2 sched /\
  run_sched tK s2 sched = deliver_all tK s2 [m22; m21] /\
  ps_round (run_sched tK s2 sched) = 4.
Proof.
  cbv zeta. split; [intros m; cbn; tauto|]. vm_compute. auto.
Qed.

(** a resharing run: party that is in both committees (old index space 2, new index space 2) *)
Example ex_resharing_both :
  let t := table_eddsa_resharing in
  let s := init_state t true true 0 2 2 in
  let r := run_ev t s [(0, 1, true); (1, 1, true); (2, 1, false); (3, 1, true); (4, 1, true)] in
  finished t (fst r) = true /\ count_end (snd r) = 1 /\
  snd r = [EvEmit 0 EBroadcast; EvEmit 1 EBroadcast; EvEmit 2 (EP2P New false); EvEmit 3 EBroadcast; EvEmit 4 EBroadcast; EvEnd].
Proof. vm_compute. auto. Qed.

End Examples.

(* ------------------------------------------------------------------ *)
(** * 16. Assumptions                                                   *)
(* ------------------------------------------------------------------ *)
Print Assumptions all_tables_wf.
Print Assumptions deliver_settles.
Print Assumptions deliver_saturates.
Print Assumptions start_saturates.
Print Assumptions round_monotone.
Print Assumptions deliver_store_frame.
Print Assumptions deliver_events.
Print Assumptions start_events_exact.
Print Assumptions deliver_all_events.
Print Assumptions emits_once.
Print Assumptions ends_once.
Print Assumptions ends_exactly.
Print Assumptions flag_flip_inert.
Print Assumptions flag_flip_never_advances.
Print Assumptions flag_flip_never_advances_stable.
Print Assumptions Inv_deliver_good.
Print Assumptions Inv_start.
Print Assumptions waiting_exact.
Print Assumptions waiting_exact_scan.
Print Assumptions waiting_exact_run.
Print Assumptions scan_ok_iff.
Print Assumptions deliver_all_as_put_all.
Print Assumptions delivery_set_independent.
Print Assumptions order_independent.
Print Assumptions deliver_idempotent.
Print Assumptions deliver_as_step1.
Print Assumptions concurrent_updates_confluent.
