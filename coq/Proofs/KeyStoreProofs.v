(* Theorems about Model/KeyStore.v (C20): the storage door, the store over a history of
   operations, independence of a session's output from the history, independence from the
   order of the signer list, and the relation between released R values and nonce sums. *)
From Coq Require Import ZArith List Lia Bool Znumtheory Permutation.
From TSS Require Import Base.Outcome Base.Bytes Base.ZMod Model.Group Model.Curve Model.Poly
  Model.SignAlg
  Proofs.ZModProofs Proofs.BytesProofs Proofs.GroupProofs Proofs.CurveLawsProofs Proofs.SignAlgProofs
  Model.KeyStore.
Import ListNotations.
Open Scope Z_scope.

(* [select] below is KeyStore.select (SignAlgProofs has a different [select]) *)
Local Notation select := KeyStore.select.

(* ====================================================================== *)
(* 1. the storage door                                                      *)
(* ====================================================================== *)

Section Door.
  Variable c : curve.

  Lemma new_ec_point_on : forall x y, on_curve c x y = true -> new_ec_point c x y = Some (Some (x, y)).
  Proof. intros x y Hon. unfold new_ec_point. rewrite Hon. reflexivity. Qed.

  Lemma new_ec_point_off : forall x y, on_curve c x y = false -> new_ec_point c x y = None.
  Proof. intros x y Hoff. unfold new_ec_point. rewrite Hoff. reflexivity. Qed.

  Lemma new_ec_point_Some : forall x y P, new_ec_point c x y = Some P ->
    P = Some (x, y) /\ on_curve c x y = true.
  Proof.
    intros x y P E. unfold new_ec_point in E. destruct (on_curve c x y); [|discriminate].
    injection E as <-. auto.
  Qed.

  (* a party whose point is present (not nil), on the curve or not *)
  Definition shaped_party (p : kparty) : Prop := exists x y, kp_bigx p = Some (x, y).
  Definition off_party (p : kparty) : Prop :=
    exists x y, kp_bigx p = Some (x, y) /\ on_curve c x y = false.

  Lemma wf_party_shaped : forall p, wf_party c p -> shaped_party p.
  Proof. intros p (x & y & E & _). exists x, y. exact E. Qed.

  Lemma save_party_shaped : forall p x y, kp_bigx p = Some (x, y) ->
    save_party p = [kp_id p; kp_xi p; x; y].
  Proof. intros p x y E. unfold save_party. rewrite E. reflexivity. Qed.

  Lemma load_parties_save : forall ps fuel,
    Forall (wf_party c) ps -> (length (flat_map save_party ps) <= fuel)%nat ->
    load_parties c fuel (flat_map save_party ps) = Ok ps.
  Proof.
    induction ps as [|p ps IH]; intros fuel Hwf Hfuel.
    - destruct fuel; reflexivity.
    - inversion Hwf as [|? ? (x & y & Ep & Hon) Hwf']; subst.
      cbn [flat_map] in *. rewrite (save_party_shaped p x y Ep) in *.
      cbn [app length] in *.
      destruct fuel as [|f]; [lia|]. cbn [load_parties].
      rewrite (new_ec_point_on x y Hon). rewrite IH by (try assumption; lia). cbn [obind].
      destruct p as [id xi bx]. cbn [kp_id kp_xi kp_bigx] in *. subst bx. reflexivity.
  Qed.

  Theorem load_save : forall s, wf_store c s -> load c (save s) = Ok s.
  Proof.
    intros [ps pub] [Hps (x & y & Epub & Hon)]. cbn [ks_parties ks_pub] in *. subst pub.
    unfold save. cbn [ks_parties ks_pub pt_nums app load].
    rewrite (new_ec_point_on x y Hon). rewrite load_parties_save by (try assumption; lia).
    reflexivity.
  Qed.

  Lemma load_parties_wf : forall fuel l ps, load_parties c fuel l = Ok ps -> Forall (wf_party c) ps.
  Proof.
    induction fuel as [|f IH]; intros l ps E; cbn [load_parties] in E.
    - destruct l; [|discriminate]. injection E as <-. constructor.
    - destruct l as [|id [|xi [|x [|y rest]]]]; try discriminate.
      + injection E as <-. constructor.
      + destruct (new_ec_point c x y) as [P|] eqn:EP; [|discriminate].
        destruct (load_parties c f rest) as [r| | |] eqn:Er; cbn [obind] in E; try discriminate.
        injection E as <-. apply new_ec_point_Some in EP. destruct EP as [-> Hon].
        constructor; [|exact (IH _ _ Er)]. exists x, y. auto.
  Qed.

  Theorem load_wf : forall l s, load c l = Ok s -> wf_store c s.
  Proof.
    intros l s E. unfold load in E. destruct l as [|x [|y rest]]; try discriminate.
    destruct (new_ec_point c x y) as [P|] eqn:EP; [|discriminate].
    destruct (load_parties c (length rest) rest) as [ps| | |] eqn:Er; cbn [obind] in E; try discriminate.
    injection E as <-. apply new_ec_point_Some in EP. destruct EP as [-> Hon].
    split; cbn [ks_parties ks_pub].
    - exact (load_parties_wf _ _ _ Er).
    - exists x, y. auto.
  Qed.

  (* what is loaded is exactly what the numbers say: saving it again gives the same numbers *)
  Lemma load_parties_numbers : forall fuel l ps, load_parties c fuel l = Ok ps -> flat_map save_party ps = l.
  Proof.
    induction fuel as [|f IH]; intros l ps E; cbn [load_parties] in E.
    - destruct l; [|discriminate]. injection E as <-. reflexivity.
    - destruct l as [|id [|xi [|x [|y rest]]]]; try discriminate.
      + injection E as <-. reflexivity.
      + destruct (new_ec_point c x y) as [P|] eqn:EP; [|discriminate].
        destruct (load_parties c f rest) as [r| | |] eqn:Er; cbn [obind] in E; try discriminate.
        injection E as <-. apply new_ec_point_Some in EP. destruct EP as [-> _].
        cbn [flat_map]. rewrite (IH _ _ Er). reflexivity.
  Qed.

  Theorem save_load : forall l s, load c l = Ok s -> save s = l.
  Proof.
    intros l s E. unfold load in E. destruct l as [|x [|y rest]]; try discriminate.
    destruct (new_ec_point c x y) as [P|] eqn:EP; [|discriminate].
    destruct (load_parties c (length rest) rest) as [ps| | |] eqn:Er; cbn [obind] in E; try discriminate.
    injection E as <-. apply new_ec_point_Some in EP. destruct EP as [-> _].
    unfold save. cbn [ks_parties ks_pub pt_nums app]. rewrite (load_parties_numbers _ _ _ Er). reflexivity.
  Qed.

  (* the door, characterised *)
  Theorem load_Ok_iff : forall l s, load c l = Ok s <-> (wf_store c s /\ save s = l).
  Proof.
    intros l s. split.
    - intros E. split; [exact (load_wf _ _ E)|exact (save_load _ _ E)].
    - intros [Hwf <-]. exact (load_save s Hwf).
  Qed.

  (* the only outcomes are Ok and Err *)
  Lemma load_parties_Ok_or_Err : forall fuel l, (exists ps, load_parties c fuel l = Ok ps) \/ load_parties c fuel l = Err.
  Proof.
    induction fuel as [|f IH]; intros l; cbn [load_parties].
    - destruct l; eauto.
    - destruct l as [|id [|xi [|x [|y rest]]]]; eauto.
      destruct (new_ec_point c x y); [|auto].
      destruct (IH rest) as [[ps ->]| ->]; cbn [obind]; eauto.
  Qed.

  Theorem load_Ok_or_Err : forall l, (exists s, load c l = Ok s) \/ load c l = Err.
  Proof.
    intros l. unfold load. destruct l as [|x [|y rest]]; auto.
    destruct (new_ec_point c x y); [|auto].
    destruct (load_parties_Ok_or_Err (length rest) rest) as [[ps ->]| ->]; cbn [obind]; eauto.
  Qed.

  (* off-curve coordinates do not come in *)
  Theorem load_rejects_off_curve_pub : forall x y rest, on_curve c x y = false -> load c (x :: y :: rest) = Err.
  Proof. intros x y rest Hoff. cbn [load]. rewrite (new_ec_point_off x y Hoff). reflexivity. Qed.

  Lemma load_parties_rejects : forall ps fuel,
    Forall shaped_party ps -> Exists off_party ps -> (length (flat_map save_party ps) <= fuel)%nat ->
    load_parties c fuel (flat_map save_party ps) = Err.
  Proof.
    induction ps as [|p ps IH]; intros fuel Hsh Hex Hfuel.
    - inversion Hex.
    - inversion Hsh as [|? ? (x & y & Ep) Hsh']; subst.
      cbn [flat_map] in *. rewrite (save_party_shaped p x y Ep) in *. cbn [app length] in *.
      destruct fuel as [|f]; [lia|]. cbn [load_parties].
      destruct (on_curve c x y) eqn:Hon.
      + rewrite (new_ec_point_on x y Hon).
        inversion Hex as [? ? (x' & y' & Ep' & Hoff)|? ? Hex']; subst.
        * rewrite Ep in Ep'. injection Ep' as <- <-. congruence.
        * rewrite IH by (try assumption; lia). reflexivity.
      + rewrite (new_ec_point_off x y Hon). reflexivity.
  Qed.

  (* a saved store in which every point is present but the group key or some party's point
     is not on the curve is refused *)
  Theorem load_rejects_off_curve : forall s,
    (exists x y, ks_pub s = Some (x, y)) -> Forall shaped_party (ks_parties s) ->
    ((exists x y, ks_pub s = Some (x, y) /\ on_curve c x y = false) \/ Exists off_party (ks_parties s)) ->
    load c (save s) = Err.
  Proof.
    intros [ps pub] (x & y & Epub) Hsh Hbad. cbn [ks_parties ks_pub] in *. subst pub.
    unfold save. cbn [ks_parties ks_pub pt_nums app].
    destruct Hbad as [(x' & y' & E & Hoff)|Hex].
    - injection E as <- <-. now apply load_rejects_off_curve_pub.
    - cbn [load]. destruct (new_ec_point c x y); [|reflexivity].
      rewrite load_parties_rejects by (try assumption; lia). reflexivity.
  Qed.

  (* the form asked for: one party of an otherwise well-formed store has an off-curve point *)
  Corollary load_rejects_off_curve_party : forall ps1 ps2 pub id xi x y,
    wf_store c (mkStore (ps1 ++ ps2) pub) -> on_curve c x y = false ->
    load c (save (mkStore (ps1 ++ mkParty id xi (Some (x, y)) :: ps2) pub)) = Err.
  Proof.
    intros ps1 ps2 pub id xi x y [Hps (px & py & Epub & _)] Hoff. cbn [ks_parties ks_pub] in *.
    apply Forall_app in Hps. destruct Hps as [H1 H2].
    apply load_rejects_off_curve; cbn [ks_parties ks_pub].
    - eauto.
    - apply Forall_app. split; [|constructor].
      + eapply Forall_impl; [|exact H1]. exact wf_party_shaped.
      + exists x, y. reflexivity.
      + eapply Forall_impl; [|exact H2]. exact wf_party_shaped.
    - right. apply Exists_app. right. constructor. exists x, y. auto.
  Qed.
End Door.

(* ====================================================================== *)
(* 4. the signer list is a set: any order gives the same selection          *)
(* ====================================================================== *)

Lemma insert_nat_comm : forall x y l, insert_nat x (insert_nat y l) = insert_nat y (insert_nat x l).
Proof.
  intros x y l. induction l as [|z t IH]; cbn [insert_nat].
  - destruct (Nat.leb x y) eqn:E1, (Nat.leb y x) eqn:E2; try reflexivity.
    + apply Nat.leb_le in E1, E2. assert (x = y) by lia. subst. reflexivity.
    + apply Nat.leb_gt in E1, E2. lia.
  - destruct (Nat.leb y z) eqn:Eyz, (Nat.leb x z) eqn:Exz; cbn [insert_nat];
      rewrite ?Eyz, ?Exz;
      destruct (Nat.leb x y) eqn:Exy, (Nat.leb y x) eqn:Eyx; cbn [insert_nat]; rewrite ?Eyz, ?Exz;
      try reflexivity;
      try (apply Nat.leb_le in Exy); try (apply Nat.leb_gt in Exy);
      try (apply Nat.leb_le in Eyx); try (apply Nat.leb_gt in Eyx);
      try (apply Nat.leb_le in Eyz); try (apply Nat.leb_gt in Eyz);
      try (apply Nat.leb_le in Exz); try (apply Nat.leb_gt in Exz);
      try lia;
      try (assert (x = y) by lia; subst; reflexivity);
      try (rewrite IH; reflexivity).
Qed.

Theorem sort_nat_perm : forall l l', Permutation l l' -> sort_nat l = sort_nat l'.
Proof.
  intros l l' HP. unfold sort_nat. induction HP as [|x l l' _ IH|x y l|l l' l'' _ IH1 _ IH2]; cbn [fold_right].
  - reflexivity.
  - now rewrite IH.
  - apply insert_nat_comm.
  - now rewrite IH1.
Qed.

(* sort_nat really sorts and keeps the elements (so [select] is the signer SET in id order) *)
Lemma insert_nat_perm : forall x l, Permutation (x :: l) (insert_nat x l).
Proof.
  intros x l. induction l as [|y t IH]; cbn [insert_nat]; [reflexivity|].
  destruct (Nat.leb x y); [reflexivity|].
  etransitivity; [apply perm_swap|]. now apply perm_skip.
Qed.

Lemma sort_nat_is_perm : forall l, Permutation l (sort_nat l).
Proof.
  induction l as [|x l IH]; [reflexivity|]. unfold sort_nat in *. cbn [fold_right].
  etransitivity; [apply perm_skip; exact IH|]. apply insert_nat_perm.
Qed.

Inductive sorted_nat : list nat -> Prop :=
| sorted_nil : sorted_nat []
| sorted_one : forall x, sorted_nat [x]
| sorted_cons : forall x y t, (x <= y)%nat -> sorted_nat (y :: t) -> sorted_nat (x :: y :: t).

Lemma insert_nat_sorted : forall x l, sorted_nat l -> sorted_nat (insert_nat x l).
Proof.
  intros x l Hs. induction Hs as [|y|y z t Hyz Hs IH]; cbn [insert_nat].
  - constructor.
  - destruct (Nat.leb x y) eqn:E.
    + apply Nat.leb_le in E. constructor; [exact E|constructor].
    + apply Nat.leb_gt in E. constructor; [lia|constructor].
  - cbn [insert_nat] in IH. destruct (Nat.leb x y) eqn:E.
    + apply Nat.leb_le in E. constructor; [exact E|]. constructor; assumption.
    + apply Nat.leb_gt in E. destruct (Nat.leb x z) eqn:E2.
      * apply Nat.leb_le in E2. constructor; [lia|exact IH].
      * constructor; [exact Hyz|exact IH].
Qed.

Lemma sort_nat_sorted : forall l, sorted_nat (sort_nat l).
Proof.
  induction l as [|x l IH]; [constructor|]. unfold sort_nat in *. cbn [fold_right].
  now apply insert_nat_sorted.
Qed.

Theorem select_perm : forall s sg sg', Permutation sg sg' -> select s sg = select s sg'.
Proof. intros s sg sg' HP. unfold KeyStore.select. now rewrite (sort_nat_perm sg sg' HP). Qed.

(* two operations that differ only in the order in which the signers are listed *)
Inductive kop_reorder : kop -> kop -> Prop :=
| kr_reload : kop_reorder KReload KReload
| kr_sign : forall sg sg' kis m, Permutation sg sg' -> kop_reorder (KSign sg kis m) (KSign sg' kis m)
| kr_hd : forall sg sg' kis m d, Permutation sg sg' -> kop_reorder (KSignHD sg kis m d) (KSignHD sg' kis m d)
| kr_ed : forall sg sg' ris m, Permutation sg sg' -> kop_reorder (KSignEd sg ris m) (KSignEd sg' ris m)
| kr_abort : forall sg sg', kop_reorder (KAbort sg) (KAbort sg').

(* ====================================================================== *)
(* 2, 3. the store over a history; outputs do not depend on the history     *)
(* ====================================================================== *)

Section History.
  Variable H512 : list Z -> list Z.
  Variable c : curve.

  Theorem kstep_signers_order : forall s o o', kop_reorder o o' -> kstep H512 c s o = kstep H512 c s o'.
  Proof.
    intros s o o' Hr. destruct Hr as [|sg sg' kis m HP|sg sg' kis m d HP|sg sg' ris m HP|sg sg'];
      cbn [kstep]; try rewrite (select_perm s sg sg' HP); reflexivity.
  Qed.

  Theorem kstep_store : forall s o, wf_store c s -> fst (kstep H512 c s o) = s.
  Proof.
    intros s o Hwf. destruct o; cbn [kstep fst]; try reflexivity.
    rewrite (load_save c s Hwf). reflexivity.
  Qed.

  (* without well-formedness the only way the store can change is a reload that succeeds *)
  Theorem kstep_store_any : forall s o, fst (kstep H512 c s o) = s \/
    (o = KReload /\ load c (save s) = Ok (fst (kstep H512 c s o))).
  Proof.
    intros s o. destruct o; cbn [kstep fst]; auto.
    destruct (load c (save s)) eqn:E; cbn [fst]; auto.
  Qed.

  (* ... and then the new store is well-formed: an ill-formed store does not survive a reload *)
  Theorem kstep_reload_wf : forall s s', kstep H512 c s KReload = (s', OReloaded) -> wf_store c s'.
  Proof.
    intros s s' E. cbn [kstep] in E. destruct (load c (save s)) as [s1| | |] eqn:El; try discriminate.
    injection E as <-. exact (load_wf c _ _ El).
  Qed.

  Theorem krun_store : forall ops s, wf_store c s -> fst (krun H512 c s ops) = s.
  Proof.
    induction ops as [|o ops IH]; intros s Hwf; cbn [krun]; [reflexivity|].
    pose proof (kstep_store s o Hwf) as E1.
    destruct (kstep H512 c s o) as [s1 out]. cbn [fst] in E1. subst s1.
    pose proof (IH s Hwf) as E2.
    destruct (krun H512 c s ops) as [s2 outs]. exact E2.
  Qed.

  Theorem krun_outputs_independent : forall ops s, wf_store c s ->
    snd (krun H512 c s ops) = map (fun o => snd (kstep H512 c s o)) ops.
  Proof.
    induction ops as [|o ops IH]; intros s Hwf; cbn [krun map]; [reflexivity|].
    pose proof (kstep_store s o Hwf) as E1.
    destruct (kstep H512 c s o) as [s1 out]. cbn [fst snd] in *. subst s1.
    pose proof (IH s Hwf) as E2.
    destruct (krun H512 c s ops) as [s2 outs]. cbn [snd] in *. now rewrite E2.
  Qed.

  (* consequences: the i-th output, and histories that agree on an operation agree on its output *)
  Corollary krun_nth_output : forall ops s i o, wf_store c s -> nth_error ops i = Some o ->
    nth_error (snd (krun H512 c s ops)) i = Some (snd (kstep H512 c s o)).
  Proof.
    intros ops s i o Hwf E. rewrite (krun_outputs_independent ops s Hwf).
    exact (map_nth_error (fun o => snd (kstep H512 c s o)) i ops E).
  Qed.

  Corollary krun_output_history_free : forall pre pre' post post' o s, wf_store c s ->
    nth_error (snd (krun H512 c s (pre ++ o :: post))) (length pre) =
    nth_error (snd (krun H512 c s (pre' ++ o :: post'))) (length pre').
  Proof.
    intros pre pre' post post' o s Hwf.
    rewrite (krun_nth_output (pre ++ o :: post) s (length pre) o Hwf), (krun_nth_output (pre' ++ o :: post') s (length pre') o Hwf).
    - reflexivity.
    - rewrite nth_error_app2, Nat.sub_diag by lia. reflexivity.
    - rewrite nth_error_app2, Nat.sub_diag by lia. reflexivity.
  Qed.

  Corollary krun_app : forall ops1 ops2 s, wf_store c s ->
    krun H512 c s (ops1 ++ ops2) = (s, snd (krun H512 c s ops1) ++ snd (krun H512 c s ops2)).
  Proof.
    intros ops1 ops2 s Hwf.
    rewrite (surjective_pairing (krun H512 c s (ops1 ++ ops2))).
    rewrite krun_store, !krun_outputs_independent by assumption. now rewrite map_app.
  Qed.

  (* reordering the signer lists anywhere in a history changes nothing *)
  Corollary krun_signers_order : forall ops ops' s, Forall2 kop_reorder ops ops' ->
    krun H512 c s ops = krun H512 c s ops'.
  Proof.
    intros ops ops' s HF. revert s. induction HF as [|o o' ops ops' Ho _ IH]; intros s; cbn [krun]; [reflexivity|].
    rewrite (kstep_signers_order s o o' Ho). destruct (kstep H512 c s o') as [s1 out]. now rewrite IH.
  Qed.
End History.

(* ====================================================================== *)
(* 5. equal released R  ==>  (essentially) equal nonce sums                 *)
(* ====================================================================== *)

Section NonceECDSA.
  Variable c : curve.
  Hypothesis CL : curve_laws c.
  Local Notation q := (cq c).
  Local Notation p := (cp c).
  Local Notation B := (base c).
  Local Notation cmul := (@gmul (curve_group c)).
  Local Notation pneg := (pt_neg c).

  Lemma onc_coords : forall x y, onc c (Some (x, y)) ->
    0 <= x < p /\ 0 <= y < p /\ curve_eq c x y = true.
  Proof.
    intros x y Ho. unfold onc, pt_on_curve, on_curve, in_field in Ho.
    rewrite !andb_true_iff in Ho. rewrite !Z.leb_le, !Z.ltb_lt in Ho. tauto.
  Qed.

  (* two affine points of a Weierstrass curve over a prime field with the same x are equal or opposite *)
  Theorem weier_same_x : forall x y y', ck c = Weier -> prime p ->
    onc c (Some (x, y)) -> onc c (Some (x, y')) ->
    Some (x, y') = Some (x, y) \/ Some (x, y') = pneg (Some (x, y)).
  Proof.
    intros x y y' W Hp Ho Ho'. pose proof (prime_gt_1 p Hp) as Hp1.
    apply onc_coords in Ho, Ho'. destruct Ho as (_ & Hy & He). destruct Ho' as (_ & Hy' & He').
    unfold curve_eq in He, He'. rewrite W in He, He'. apply Z.eqb_eq in He, He'.
    assert (Hd : (p | (y' - y) * (y' + y))).
    { apply Z.mod_divide; [lia|]. apply (proj1 (eqm_0_iff p _)).
      transitivity (y' * y' - y * y); [apply eqm_of_eq; ring|].
      apply eqm_sub_0. unfold eqm. congruence. }
    apply prime_mult in Hd; [|exact Hp]. destruct Hd as [[k Hk]|[k Hk]].
    - left. assert (k = 0) by nia. subst k. f_equal. f_equal. lia.
    - right. cbn [pt_neg]. rewrite W. f_equal. f_equal.
      replace (- y) with (y' + (- k) * p) by lia.
      rewrite Z_mod_plus_full. symmetry. apply Z.mod_small. exact Hy'.
  Qed.

  (* what a completed ECDSA session released as R *)
  Lemma ecdsa_sign_R : forall ks xs kis m fullLen Y sd,
    ecdsa_sign c ks xs kis m fullLen Y = Ok sd ->
    let k := zsum kis mod q in
    exists rx ry, k <> 0 /\ cmul (inv_prime q k) B = Some (rx, ry) /\
      sR sd = pad_left 32 (bytes_of_Z rx) /\ 0 < rx < q.
  Proof.
    intros ks xs kis m fullLen Y sd E k. pose proof (q_gt_1_c c CL) as Hq1.
    unfold ecdsa_sign in E. fold k in E.
    destruct (negb (m <? q)); [discriminate|].
    destruct (ec_base_mul c (inv_prime q k)) as [R| | |] eqn:ER; cbn [obind] in E; try discriminate.
    apply (ec_base_mul_nonneg c) in ER; [|pose proof (inv_prime_range q k Hq1); lia].
    destruct ER as [ER _]. destruct R as [[rx ry]|]; [|discriminate].
    exists rx, ry. split; [|split; [now symmetry|]].
    - intros Hk. rewrite Hk, Z.mul_0_l, Zmod_0_l in E.
      exact (finalize_zero_s_not_released c CL _ _ _ _ _ _ E).
    - destruct (finalize_unfold c _ _ _ _ _ _ _ E) as (mb & _ & Ev & ->). cbn [sR].
      split; [reflexivity|]. apply (verify_true_guard c) in Ev. tauto.
  Qed.

  Lemma inv_pair_eq : forall k k' i i', eqm q (k * i) 1 -> eqm q (k' * i') 1 -> eqm q i' i -> eqm q k k'.
  Proof.
    intros k k' i i' H1 H2 Hi.
    transitivity (k * (k' * i')); [rewrite H2; apply eqm_of_eq; ring|].
    rewrite Hi. transitivity (k' * (k * i)); [apply eqm_of_eq; ring|].
    rewrite H1. apply eqm_of_eq. ring.
  Qed.

  (* on the points: a*B = b*B iff a = b (mod q);  a*B = -(b*B) iff a = -b (mod q) *)
  Lemma cmul_B_eq : forall a b, cmul a B = cmul b B -> eqm q a b.
  Proof. intros a b E. exact (c_gmul_inj c CL a b E). Qed.

  Lemma cmul_B_opp : forall a b, cmul a B = pneg (cmul b B) -> eqm q a (- b).
  Proof.
    intros a b E. rewrite <- (c_gmul_neg c CL) in E by apply (onc_base c CL).
    exact (c_gmul_inj c CL a (- b) E).
  Qed.

  Theorem ecdsa_equal_R_nonce : forall ks xs kis m fl Y sd ks' xs' kis' m' fl' Y' sd',
    ck c = Weier -> prime p ->
    ecdsa_sign c ks xs kis m fl Y = Ok sd ->
    ecdsa_sign c ks' xs' kis' m' fl' Y' = Ok sd' ->
    sR sd = sR sd' ->
    eqm q (zsum kis) (zsum kis') \/ eqm q (zsum kis) (- zsum kis').
  Proof.
    intros ks xs kis m fl Y sd ks' xs' kis' m' fl' Y' sd' W Hp E E' HR.
    pose proof (q_prime_c c CL) as Hq. pose proof (q_gt_1_c c CL) as Hq1.
    destruct (ecdsa_sign_R _ _ _ _ _ _ _ E) as (rx & ry & Hk & HP & HsR & Hrx).
    destruct (ecdsa_sign_R _ _ _ _ _ _ _ E') as (rx' & ry' & Hk' & HP' & HsR' & Hrx').
    cbv zeta in *.
    set (k := zsum kis mod q) in *. set (k' := zsum kis' mod q) in *.
    assert (Hkr : 0 <= k < q) by (apply Z.mod_pos_bound; lia).
    assert (Hkr' : 0 <= k' < q) by (apply Z.mod_pos_bound; lia).
    assert (Erx : rx = rx').
    { rewrite <- (be_value_pad_bytes 32 rx), <- (be_value_pad_bytes 32 rx') by lia. congruence. }
    subst rx'.
    pose proof (onc_gmul c CL (inv_prime q k) B (onc_base c CL)) as Ho. rewrite HP in Ho.
    pose proof (onc_gmul c CL (inv_prime q k') B (onc_base c CL)) as Ho'. rewrite HP' in Ho'.
    assert (Hi : eqm q (k * inv_prime q k) 1) by (apply eqm_inv; [exact Hq|rewrite Z.mod_small; lia]).
    assert (Hi' : eqm q (k' * inv_prime q k') 1) by (apply eqm_inv; [exact Hq|rewrite Z.mod_small; lia]).
    assert (Ek : eqm q k k' \/ eqm q k (- k')).
    { destruct (weier_same_x rx ry ry' W Hp Ho Ho') as [Es|Es]; rewrite <- HP, <- HP' in Es.
      - left. apply cmul_B_eq in Es. exact (inv_pair_eq _ _ _ _ Hi Hi' Es).
      - right. apply cmul_B_opp in Es.
        assert (Hi2 : eqm q ((- k') * (- inv_prime q k')) 1).
        { transitivity (k' * inv_prime q k'); [apply eqm_of_eq; ring|exact Hi']. }
        symmetry in Es. apply eqm_opp in Es. rewrite Z.opp_involutive in Es. symmetry in Es.
        exact (inv_pair_eq _ _ _ _ Hi Hi2 Es). }
    unfold k, k' in Ek. destruct Ek as [Ek|Ek]; [left|right].
    - rewrite !eqm_mod in Ek. exact Ek.
    - rewrite <- (eqm_mod q (zsum kis)), <- (eqm_mod q (zsum kis')). exact Ek.
  Qed.

  (* contrapositive: different (and not opposite) nonce sums release different R *)
  Corollary ecdsa_distinct_nonce_distinct_R : forall ks xs kis m fl Y sd ks' xs' kis' m' fl' Y' sd',
    ck c = Weier -> prime p ->
    ecdsa_sign c ks xs kis m fl Y = Ok sd ->
    ecdsa_sign c ks' xs' kis' m' fl' Y' = Ok sd' ->
    ~ eqm q (zsum kis) (zsum kis') -> ~ eqm q (zsum kis) (- zsum kis') ->
    sR sd <> sR sd'.
  Proof.
    intros ks xs kis m fl Y sd ks' xs' kis' m' fl' Y' sd' W Hp E E' N1 N2 HR.
    destruct (ecdsa_equal_R_nonce _ _ _ _ _ _ _ _ _ _ _ _ _ _ W Hp E E' HR); contradiction.
  Qed.

  (* converse: the released R is a function of the nonce sum up to sign *)
  Theorem ecdsa_nonce_R : forall ks xs kis m fl Y sd ks' xs' kis' m' fl' Y' sd',
    ck c = Weier ->
    ecdsa_sign c ks xs kis m fl Y = Ok sd ->
    ecdsa_sign c ks' xs' kis' m' fl' Y' = Ok sd' ->
    eqm q (zsum kis) (zsum kis') \/ eqm q (zsum kis) (- zsum kis') ->
    sR sd = sR sd'.
  Proof.
    intros ks xs kis m fl Y sd ks' xs' kis' m' fl' Y' sd' W E E' Hk.
    pose proof (q_prime_c c CL) as Hq. pose proof (q_gt_1_c c CL) as Hq1.
    destruct (ecdsa_sign_R _ _ _ _ _ _ _ E) as (rx & ry & Hk0 & HP & HsR & Hrx).
    destruct (ecdsa_sign_R _ _ _ _ _ _ _ E') as (rx' & ry' & Hk0' & HP' & HsR' & Hrx').
    cbv zeta in *. rewrite HsR, HsR'. do 2 f_equal.
    destruct Hk as [Hk|Hk].
    - unfold eqm in Hk. rewrite Hk in HP. rewrite HP in HP'. now injection HP'.
    - set (k := zsum kis mod q) in *. set (k' := zsum kis' mod q) in *.
      assert (Hkr : 0 <= k < q) by (apply Z.mod_pos_bound; lia).
      assert (Hkr' : 0 <= k' < q) by (apply Z.mod_pos_bound; lia).
      assert (Hi : eqm q (k * inv_prime q k) 1) by (apply eqm_inv; [exact Hq|rewrite Z.mod_small; lia]).
      assert (Hi' : eqm q (k' * inv_prime q k') 1) by (apply eqm_inv; [exact Hq|rewrite Z.mod_small; lia]).
      assert (Hkk : eqm q k (- k')).
      { unfold k, k'. rewrite eqm_mod, Hk. apply eqm_opp. symmetry. apply eqm_mod. }
      assert (Hii : eqm q (inv_prime q k) (- inv_prime q k')).
      { apply (eqm_inv_unique q k); [exact Hq|rewrite Z.mod_small; lia|exact Hi|].
        rewrite Hkk. transitivity (k' * inv_prime q k'); [apply eqm_of_eq; ring|exact Hi']. }
      rewrite (c_gmul_eqm c CL _ _ Hii) in HP.
      rewrite (c_gmul_neg c CL) in HP by apply (onc_base c CL).
      rewrite HP' in HP. cbn [pt_neg] in HP. rewrite W in HP. now injection HP.
  Qed.
End NonceECDSA.

Section NonceEdDSA.
  Variable H512 : list Z -> list Z.
  Variable c : curve.
  Hypothesis CL : curve_laws c.
  Local Notation q := (cq c).
  Local Notation p := (cp c).
  Local Notation B := (base c).
  Local Notation cmul := (@gmul (curve_group c)).

  Lemma odd_prime_odd : prime p -> p <> 2 -> Z.odd p = true.
  Proof.
    intros Hp H2. destruct (Z.odd p) eqn:E; [reflexivity|exfalso].
    rewrite <- Z.negb_even in E. apply negb_false_iff in E. apply Z.even_spec in E.
    destruct E as [k Ek]. apply H2. symmetry.
    apply (prime_div_prime 2 p prime_2 Hp). exists k. lia.
  Qed.

  (* two points of the Edwards curve with the same y and the same parity of x are equal,
     provided d <> -1 (for d = -1 every (x, 1) satisfies the equation) *)
  Theorem edw_same_y : forall x x' y, ck c = Edw -> prime p -> p <> 2 -> (1 + cb c) mod p <> 0 ->
    onc c (Some (x, y)) -> onc c (Some (x', y)) -> Z.odd x = Z.odd x' -> x = x'.
  Proof.
    intros x x' y W Hp H2 Hd Ho Ho' Hpar. pose proof (prime_gt_1 p Hp) as Hp1.
    pose proof (odd_prime_odd Hp H2) as Hpo.
    apply (onc_coords c) in Ho, Ho'. destruct Ho as (Hx & Hy & He). destruct Ho' as (Hx' & _ & He').
    unfold curve_eq in He, He'. rewrite W in He, He'. apply Z.eqb_eq in He, He'.
    set (d := cb c) in *.
    assert (E1 : eqm p (y * y - x * x) (1 + d * (x * x) * (y * y))).
    { unfold eqm. rewrite He. change (eqm p (1 + d * (x * x mod p) * (y * y mod p)) (1 + d * (x * x) * (y * y))).
      rewrite !eqm_mod. reflexivity. }
    assert (E2 : eqm p (y * y - x' * x') (1 + d * (x' * x') * (y * y))).
    { unfold eqm. rewrite He'. change (eqm p (1 + d * (x' * x' mod p) * (y * y mod p)) (1 + d * (x' * x') * (y * y))).
      rewrite !eqm_mod. reflexivity. }
    apply eqm_sub_0 in E1, E2. apply eqm_0_iff in E1, E2.
    apply Z.mod_divide in E1, E2; try lia. destruct E1 as [j1 E1]. destruct E2 as [j2 E2].
    assert (Hdiv : (p | (x' * x' - x * x) * (1 + d * y * y))).
    { exists (j1 - j2). lia. }
    apply prime_mult in Hdiv; [|exact Hp]. destruct Hdiv as [Hdiv|[k Hk]].
    - replace (x' * x' - x * x) with ((x' - x) * (x' + x)) in Hdiv by ring.
      apply prime_mult in Hdiv; [|exact Hp]. destruct Hdiv as [[k Hk]|[k Hk]].
      + assert (k = 0) by nia. subst k. lia.
      + assert (k = 0 \/ k = 1) as [-> | ->] by nia; [lia|].
        exfalso. assert (Ep : p = x' + x) by lia. rewrite Ep, Z.odd_add, Hpar in Hpo.
        destruct (Z.odd x'); discriminate.
    - exfalso. apply Hd. apply Z.mod_divide; [lia|].
      assert (Ed : 1 + d = (1 + d * y * y) - d * ((y * y - x * x) - (1 + d * (x * x) * (y * y))) - d * (x * x) * (1 + d * y * y)) by ring.
      rewrite E1, Hk in Ed. exists (k - d * j1 - d * (x * x) * k). lia.
  Qed.

  Theorem eddsa_equal_R_nonce : forall ks xs ris m fl A sd ks' xs' ris' m' fl' A' sd',
    ck c = Edw -> prime p -> p <> 2 -> p <= 2 ^ 255 -> (1 + cb c) mod p <> 0 ->
    eddsa_sign H512 c ks xs ris m fl A = Ok sd ->
    eddsa_sign H512 c ks' xs' ris' m' fl' A' = Ok sd' ->
    sR sd = sR sd' ->
    eqm q (zsum ris) (zsum ris').
  Proof.
    intros ks xs ris m fl A sd ks' xs' ris' m' fl' A' sd' W Hp H2 H255 Hd E E' HR.
    destruct (eddsa_sign_Ok H512 c CL _ _ _ _ _ _ _ E) as (Rp & mb & ER & Hrep & _ & Esd & _).
    destruct (eddsa_sign_Ok H512 c CL _ _ _ _ _ _ _ E') as (Rp' & mb' & ER' & Hrep' & _ & Esd' & _).
    cbv zeta in Esd, Esd'. rewrite Esd, Esd' in HR. cbn [sR] in HR.
    pose proof (onc_gmul c CL (zsum ris mod q) B (onc_base c CL)) as Ho. rewrite <- ER in Ho.
    pose proof (onc_gmul c CL (zsum ris' mod q) B (onc_base c CL)) as Ho'. rewrite <- ER' in Ho'.
    destruct Rp as [[x y]|]; [|discriminate]. destruct Rp' as [[x' y']|]; [|discriminate].
    destruct (onc_coords c _ _ Ho) as (Hx & Hy & _). destruct (onc_coords c _ _ Ho') as (Hx' & Hy' & _).
    pose proof (enc_point_decode c x y ltac:(lia)) as D. pose proof (enc_point_decode c x' y' ltac:(lia)) as D'.
    rewrite (Z.mod_small x) in D by lia. rewrite (Z.mod_small x') in D' by lia.
    assert (H255p : 0 < 2 ^ 255) by (apply Z.pow_pos_nonneg; lia).
    apply bytes_of_Z_inj in HR; [|rewrite D; destruct (Z.odd x); lia|rewrite D'; destruct (Z.odd x'); lia].
    rewrite D, D' in HR.
    assert (Hyy : y = y' /\ Z.odd x = Z.odd x') by (destruct (Z.odd x), (Z.odd x'); split; try reflexivity; lia).
    destruct Hyy as [<- Hpar].
    pose proof (edw_same_y x x' y W Hp H2 Hd Ho Ho' Hpar) as <-.
    pose proof (q_gt_1_c c CL) as Hq1.
    rewrite ER' in ER. apply (c_gmul_inj c CL) in ER. unfold eqm.
    rewrite !Z.mod_mod in ER by lia. symmetry. exact ER.
  Qed.

  (* and conversely the released R is a function of the nonce sum *)
  Theorem eddsa_nonce_R : forall ks xs ris m fl A sd ks' xs' ris' m' fl' A' sd',
    eddsa_sign H512 c ks xs ris m fl A = Ok sd ->
    eddsa_sign H512 c ks' xs' ris' m' fl' A' = Ok sd' ->
    eqm q (zsum ris) (zsum ris') -> sR sd = sR sd'.
  Proof.
    intros ks xs ris m fl A sd ks' xs' ris' m' fl' A' sd' E E' Hr.
    destruct (eddsa_sign_Ok H512 c CL _ _ _ _ _ _ _ E) as (Rp & mb & ER & _ & _ & Esd & _).
    destruct (eddsa_sign_Ok H512 c CL _ _ _ _ _ _ _ E') as (Rp' & mb' & ER' & _ & _ & Esd' & _).
    cbv zeta in Esd, Esd'. rewrite Esd, Esd'. cbn [sR]. unfold eqm in Hr. rewrite Hr in ER. now rewrite ER, ER'.
  Qed.
End NonceEdDSA.

(* ---- the same, at the level of sessions in a history ---- *)
Definition ecdsa_nonces (o : kop) : option (list Z) :=
  match o with KSign _ kis _ => Some kis | KSignHD _ kis _ _ => Some kis | _ => None end.
Definition eddsa_nonces (o : kop) : option (list Z) :=
  match o with KSignEd _ ris _ => Some ris | _ => None end.

Section NonceSessions.
  Variable H512 : list Z -> list Z.
  Variable c : curve.
  Hypothesis CL : curve_laws c.
  Local Notation q := (cq c).
  Local Notation p := (cp c).

  Lemma kstep_ecdsa_session : forall s o kis sd,
    ecdsa_nonces o = Some kis -> snd (kstep H512 c s o) = OSig (Ok sd) ->
    exists ks xs m Y, ecdsa_sign c ks xs kis m 0 Y = Ok sd.
  Proof.
    intros s o kis sd En Eo. destruct o as [|sg kis0 m|sg kis0 m d|sg ris m|sg]; cbn [ecdsa_nonces] in En; try discriminate;
      injection En as ->; cbn [kstep snd] in Eo; injection Eo as Eo.
    - eauto.
    - destruct (child_pub c s d) as [Y| | |]; cbn [obind] in Eo; try discriminate. eauto.
  Qed.

  Lemma kstep_eddsa_session : forall s o ris sd,
    eddsa_nonces o = Some ris -> snd (kstep H512 c s o) = OSig (Ok sd) ->
    exists ks xs m A, eddsa_sign H512 c ks xs ris m 0 A = Ok sd.
  Proof.
    intros s o ris sd En Eo. destruct o as [|sg kis0 m|sg kis0 m d|sg ris0 m|sg]; cbn [eddsa_nonces] in En; try discriminate.
    injection En as ->. cbn [kstep snd] in Eo. injection Eo as Eo. eauto.
  Qed.

  (* two completed ECDSA sessions (plain or derived key; any stores, signer sets, messages) *)
  Theorem kstep_equal_R_nonce : forall s s' o o' kis kis' sd sd',
    ck c = Weier -> prime p ->
    ecdsa_nonces o = Some kis -> ecdsa_nonces o' = Some kis' ->
    snd (kstep H512 c s o) = OSig (Ok sd) -> snd (kstep H512 c s' o') = OSig (Ok sd') ->
    sR sd = sR sd' ->
    eqm q (zsum kis) (zsum kis') \/ eqm q (zsum kis) (- zsum kis').
  Proof.
    intros s s' o o' kis kis' sd sd' W Hp En En' Eo Eo' HR.
    destruct (kstep_ecdsa_session s o kis sd En Eo) as (ks & xs & m & Y & E).
    destruct (kstep_ecdsa_session s' o' kis' sd' En' Eo') as (ks' & xs' & m' & Y' & E').
    exact (ecdsa_equal_R_nonce c CL _ _ _ _ _ _ _ _ _ _ _ _ _ _ W Hp E E' HR).
  Qed.

  Theorem kstep_equal_R_nonce_ed : forall s s' o o' ris ris' sd sd',
    ck c = Edw -> prime p -> p <> 2 -> p <= 2 ^ 255 -> (1 + cb c) mod p <> 0 ->
    eddsa_nonces o = Some ris -> eddsa_nonces o' = Some ris' ->
    snd (kstep H512 c s o) = OSig (Ok sd) -> snd (kstep H512 c s' o') = OSig (Ok sd') ->
    sR sd = sR sd' ->
    eqm q (zsum ris) (zsum ris').
  Proof.
    intros s s' o o' ris ris' sd sd' W Hp H2 H255 Hd En En' Eo Eo' HR.
    destruct (kstep_eddsa_session s o ris sd En Eo) as (ks & xs & m & A & E).
    destruct (kstep_eddsa_session s' o' ris' sd' En' Eo') as (ks' & xs' & m' & A' & E').
    exact (eddsa_equal_R_nonce H512 c CL _ _ _ _ _ _ _ _ _ _ _ _ _ _ W Hp H2 H255 Hd E E' HR).
  Qed.

  (* in one history over a well-formed store: sessions i and j *)
  Theorem krun_equal_R_nonce : forall s ops i j o o' kis kis' sd sd',
    ck c = Weier -> prime p -> wf_store c s ->
    nth_error ops i = Some o -> nth_error ops j = Some o' ->
    ecdsa_nonces o = Some kis -> ecdsa_nonces o' = Some kis' ->
    nth_error (snd (krun H512 c s ops)) i = Some (OSig (Ok sd)) ->
    nth_error (snd (krun H512 c s ops)) j = Some (OSig (Ok sd')) ->
    sR sd = sR sd' ->
    eqm q (zsum kis) (zsum kis') \/ eqm q (zsum kis) (- zsum kis').
  Proof.
    intros s ops i j o o' kis kis' sd sd' W Hp Hwf Ei Ej En En' Oi Oj HR.
    rewrite (krun_nth_output H512 c ops s i o Hwf Ei) in Oi. injection Oi as Oi.
    rewrite (krun_nth_output H512 c ops s j o' Hwf Ej) in Oj. injection Oj as Oj.
    exact (kstep_equal_R_nonce s s o o' kis kis' sd sd' W Hp En En' Oi Oj HR).
  Qed.

  Theorem krun_equal_R_nonce_ed : forall s ops i j o o' ris ris' sd sd',
    ck c = Edw -> prime p -> p <> 2 -> p <= 2 ^ 255 -> (1 + cb c) mod p <> 0 -> wf_store c s ->
    nth_error ops i = Some o -> nth_error ops j = Some o' ->
    eddsa_nonces o = Some ris -> eddsa_nonces o' = Some ris' ->
    nth_error (snd (krun H512 c s ops)) i = Some (OSig (Ok sd)) ->
    nth_error (snd (krun H512 c s ops)) j = Some (OSig (Ok sd')) ->
    sR sd = sR sd' ->
    eqm q (zsum ris) (zsum ris').
  Proof.
    intros s ops i j o o' ris ris' sd sd' W Hp H2 H255 Hd Hwf Ei Ej En En' Oi Oj HR.
    rewrite (krun_nth_output H512 c ops s i o Hwf Ei) in Oi. injection Oi as Oi.
    rewrite (krun_nth_output H512 c ops s j o' Hwf Ej) in Oj. injection Oj as Oj.
    exact (kstep_equal_R_nonce_ed s s o o' ris ris' sd sd' W Hp H2 H255 Hd En En' Oi Oj HR).
  Qed.
End NonceSessions.

(* ====================================================================== *)
(* 6. Examples: the hypotheses are satisfiable, the statements are not vacuous *)
(* ====================================================================== *)

Local Notation W := toyW43.
Local Notation BW := (base toyW43).
Local Notation wmul := (@gmul (curve_group toyW43)).

(* three parties holding the sharing 5 + 7 z (mod 31) at 1, 2, 3 -- the numbers of
   SignAlgProofs.ex_on_poly -- with X_i = x_i * G and Y = 5 * G *)
Definition ex_store : kstore :=
  mkStore [mkParty 1 12 (Some (37, 36)); mkParty 2 19 (Some (37, 7)); mkParty 3 26 (Some (12, 31))]
          (Some (12, 12)).

Example ex_store_points :
  map kp_bigx (ks_parties ex_store) = map (fun x => wmul x BW) (map kp_xi (ks_parties ex_store)) /\
  ks_pub ex_store = wmul 5 BW.
Proof. vm_compute. split; reflexivity. Qed.

Example ex_wf_store : wf_store W ex_store.
Proof.
  split; cbn [ks_parties ks_pub ex_store].
  - repeat constructor; eexists; eexists; (split; [reflexivity|vm_compute; reflexivity]).
  - eexists; eexists; (split; [reflexivity|vm_compute; reflexivity]).
Qed.

Definition ex_history : list kop :=
  [KSign [2%nat; 0%nat] [3; 4] 10; KReload; KSignHD [1%nat; 2%nat] [3; 4] 10 4;
   KAbort [0%nat; 1%nat]; KSign [2%nat; 0%nat] [3; 4] 10].

Example ex_load_save : load W (save ex_store) = Ok ex_store.
Proof. vm_compute. reflexivity. Qed.

Example ex_krun_store : fst (krun toyH W ex_store ex_history) = ex_store.
Proof. vm_compute. reflexivity. Qed.

(* the first and the last session (same arguments) release the same signature; the reload
   reports success, the derived-key session completes too, the aborted one reports nothing *)
Example ex_krun_first_last : exists sd sdhd,
  snd (krun toyH W ex_store ex_history) = [OSig (Ok sd); OReloaded; OSig (Ok sdhd); OAborted; OSig (Ok sd)] /\
  be_value (sR sd) = 20 /\ be_value (sS sd) = 5 /\ be_value (sR sdhd) = 20 /\ be_value (sS sdhd) = 3.
Proof. eexists. eexists. vm_compute. repeat split; reflexivity. Qed.

(* the general theorems instantiated *)
Example ex_krun_outputs_independent :
  snd (krun toyH W ex_store ex_history) = map (fun o => snd (kstep toyH W ex_store o)) ex_history.
Proof. exact (krun_outputs_independent toyH W ex_history ex_store ex_wf_store). Qed.

Example ex_signers_order :
  kstep toyH W ex_store (KSign [2%nat; 0%nat] [3; 4] 10) = kstep toyH W ex_store (KSign [0%nat; 2%nat] [3; 4] 10) /\
  exists sd, snd (kstep toyH W ex_store (KSign [0%nat; 2%nat] [3; 4] 10)) = OSig (Ok sd).
Proof.
  split.
  - apply kstep_signers_order. constructor. apply perm_swap.
  - eexists. vm_compute. reflexivity.
Qed.

(* the derived key the HD session signed for is Y + 4 G = 9 G *)
Example ex_child_pub : child_pub W ex_store 4 = Ok (wmul 9 BW).
Proof. vm_compute. reflexivity. Qed.

(* an off-curve point in the saved data is refused at the door *)
Example ex_load_rejects :
  load W (save (mkStore [mkParty 1 12 (Some (37, 36)); mkParty 2 19 (Some (37, 8)); mkParty 3 26 (Some (12, 31))]
                        (Some (12, 12)))) = Err.
Proof.
  apply (load_rejects_off_curve_party W [mkParty 1 12 (Some (37, 36))] [mkParty 3 26 (Some (12, 31))]).
  - split; cbn [ks_parties ks_pub app].
    + repeat constructor; eexists; eexists; (split; [reflexivity|vm_compute; reflexivity]).
    + eexists; eexists; (split; [reflexivity|vm_compute; reflexivity]).
  - vm_compute. reflexivity.
Qed.

(* [wf_store] is needed in kstep_store: with absent (nil) points the flat number list is
   re-read with a different shape -- here two point-less parties come back as ONE party
   whose "point" is the second party's (id, share), which happens to lie on the curve *)
Example kstep_store_needs_wf : exists s,
  ~ wf_store W s /\ snd (kstep toyH W s KReload) = OReloaded /\ fst (kstep toyH W s KReload) <> s /\
  length (ks_parties (fst (kstep toyH W s KReload))) = 1%nat.
Proof.
  exists (mkStore [mkParty 1 12 None; mkParty 2 12 None] (Some (12, 12))).
  split; [|split; [vm_compute; reflexivity|split; [vm_compute; discriminate|vm_compute; reflexivity]]].
  intros [Hps _]. cbn [ks_parties] in Hps. inversion Hps as [|? ? (x & y & E & _) _]. discriminate.
Qed.

(* nonce sums 7 and 24 = -7 (mod 31): two completed sessions with the same R although the sums
   differ -- the "or opposite" alternative of ecdsa_equal_R_nonce cannot be dropped *)
Example ex_opposite_nonce_same_R : exists sd sd',
  ecdsa_sign W [1; 3] [12; 26] [3; 4] 10 0 (wmul 5 BW) = Ok sd /\
  ecdsa_sign W [1; 3] [12; 26] [24] 10 0 (wmul 5 BW) = Ok sd' /\
  sR sd = sR sd' /\ ~ eqm 31 (zsum [3; 4]) (zsum [24]) /\ eqm 31 (zsum [3; 4]) (- zsum [24]).
Proof.
  eexists. eexists. split; [vm_compute; reflexivity|split; [vm_compute; reflexivity|]].
  split; [reflexivity|split; [vm_compute; discriminate|vm_compute; reflexivity]].
Qed.

(* after the low-s rule even the whole signature coincides for opposite nonce sums *)
Example ex_opposite_nonce_same_sig :
  ecdsa_sign W [1; 3] [12; 26] [3; 4] 10 0 (wmul 5 BW) = ecdsa_sign W [1; 3] [12; 26] [24] 10 0 (wmul 5 BW)
  /\ is_ok (ecdsa_sign W [1; 3] [12; 26] [24] 10 0 (wmul 5 BW)) = true.
Proof. vm_compute. split; reflexivity. Qed.

Example ex_ecdsa_equal_R_nonce : forall kis kis' sd sd',
  ecdsa_sign W [1; 3] [12; 26] kis 10 0 (wmul 5 BW) = Ok sd ->
  ecdsa_sign W [2; 3] [19; 26] kis' 11 0 (wmul 5 BW) = Ok sd' ->
  sR sd = sR sd' -> eqm 31 (zsum kis) (zsum kis') \/ eqm 31 (zsum kis) (- zsum kis').
Proof.
  intros kis kis' sd sd'. exact (ecdsa_equal_R_nonce W toyW43_laws _ _ _ _ _ _ _ _ _ _ _ _ _ _ eq_refl prime_43).
Qed.

(* EdDSA on the toy Edwards curve: sharing 3 + 2 z (mod 7) at 1, 2, 3 (party 2 holds the share 0,
   so its point is the neutral element (0, 1), which is an ordinary affine point there) *)
Local Notation E7 := toyE.
Local Notation emul := (@gmul (curve_group toyE)).

Definition ex_store_ed : kstore :=
  mkStore [mkParty 1 5 (Some (9, 19)); mkParty 2 0 (Some (0, 1)); mkParty 3 2 (Some (20, 19))] (Some (18, 3)).

Example ex_store_ed_points :
  map kp_bigx (ks_parties ex_store_ed) = map (fun x => emul x (base E7)) (map kp_xi (ks_parties ex_store_ed)) /\
  ks_pub ex_store_ed = emul 3 (base E7).
Proof. vm_compute. split; reflexivity. Qed.

Example ex_wf_store_ed : wf_store E7 ex_store_ed.
Proof.
  split; cbn [ks_parties ks_pub ex_store_ed].
  - repeat constructor; eexists; eexists; (split; [reflexivity|vm_compute; reflexivity]).
  - eexists; eexists; (split; [reflexivity|vm_compute; reflexivity]).
Qed.

Definition ex_history_ed : list kop :=
  [KSignEd [2%nat; 0%nat] [3; 2] 10; KReload; KSignEd [0%nat; 2%nat] [5] 10; KAbort [1%nat]; KSignEd [0%nat; 1%nat] [4] 9].

(* nonce sums 3+2 and 5 are equal: same R (and, same message and signers, same signature);
   nonce sum 4: a different R *)
Example ex_krun_ed : exists sd sd',
  krun toyH E7 ex_store_ed ex_history_ed =
    (ex_store_ed, [OSig (Ok sd); OReloaded; OSig (Ok sd); OAborted; OSig (Ok sd')]) /\ sR sd <> sR sd'.
Proof. eexists. eexists. split; [vm_compute; reflexivity|vm_compute; discriminate]. Qed.

Lemma prime_29 : prime 29.
Proof. apply PaillierProofs.prime_check_sound. vm_compute. reflexivity. Qed.

Example ex_eddsa_equal_R_nonce : forall ris ris' sd sd',
  eddsa_sign toyH E7 [1; 3] [5; 2] ris 10 0 (emul 3 (base E7)) = Ok sd ->
  eddsa_sign toyH E7 [1; 2] [5; 0] ris' 9 0 (emul 3 (base E7)) = Ok sd' ->
  sR sd = sR sd' -> eqm 7 (zsum ris) (zsum ris').
Proof.
  intros ris ris' sd sd'.
  apply (eddsa_equal_R_nonce toyH E7 toyE_laws); try reflexivity.
  - exact prime_29.
  - discriminate.
  - vm_compute. discriminate.
  - vm_compute. discriminate.
Qed.

(* the arithmetic side conditions of eddsa_equal_R_nonce hold for ed25519 (primality of p aside) *)
Example ed25519_side_conditions :
  ck ed25519 = Edw /\ cp ed25519 <> 2 /\ cp ed25519 <= 2 ^ 255 /\ (1 + cb ed25519) mod cp ed25519 <> 0.
Proof. repeat split; vm_compute; discriminate. Qed.

(* ====================================================================== *)
Print Assumptions load_save.
Print Assumptions load_wf.
Print Assumptions save_load.
Print Assumptions load_Ok_iff.
Print Assumptions load_Ok_or_Err.
Print Assumptions load_rejects_off_curve_pub.
Print Assumptions load_rejects_off_curve.
Print Assumptions load_rejects_off_curve_party.
Print Assumptions sort_nat_perm.
Print Assumptions sort_nat_is_perm.
Print Assumptions sort_nat_sorted.
Print Assumptions select_perm.
Print Assumptions kstep_signers_order.
Print Assumptions kstep_store.
Print Assumptions kstep_store_any.
Print Assumptions krun_store.
Print Assumptions krun_outputs_independent.
Print Assumptions krun_nth_output.
Print Assumptions krun_output_history_free.
Print Assumptions krun_app.
Print Assumptions krun_signers_order.
Print Assumptions weier_same_x.
Print Assumptions ecdsa_sign_R.
Print Assumptions cmul_B_eq.
Print Assumptions cmul_B_opp.
Print Assumptions ecdsa_equal_R_nonce.
Print Assumptions ecdsa_distinct_nonce_distinct_R.
Print Assumptions ecdsa_nonce_R.
Print Assumptions edw_same_y.
Print Assumptions eddsa_equal_R_nonce.
Print Assumptions eddsa_nonce_R.
Print Assumptions kstep_equal_R_nonce.
Print Assumptions kstep_equal_R_nonce_ed.
Print Assumptions krun_equal_R_nonce.
Print Assumptions krun_equal_R_nonce_ed.
Print Assumptions kstep_reload_wf.
Print Assumptions ex_wf_store.
Print Assumptions ex_krun_store.
Print Assumptions ex_krun_first_last.
Print Assumptions ex_load_rejects.
Print Assumptions kstep_store_needs_wf.
Print Assumptions ex_opposite_nonce_same_R.
Print Assumptions ex_ecdsa_equal_R_nonce.
Print Assumptions ex_krun_ed.
Print Assumptions ex_eddsa_equal_R_nonce.
