(* Property C15: Feldman VSS of Model/Schnorr.v (crypto/vss) over a concrete
   curve [c] satisfying [curve_laws c] (Proofs/CurveLawsProofs.v).

   [nz k] ("k is not a degenerate scalar") abbreviates
   [ck c = Weier -> k mod q <> 0]: on a Weierstrass curve k*B is representable
   iff k is non-zero mod q; on an Edwards curve always. *)
From Coq Require Import ZArith List Lia Bool Znumtheory Setoid Morphisms.
From TSS Require Import Base.Outcome Base.Bytes Base.ZMod Base.GoInt Model.Framing Model.Group
  Model.Curve Model.Poly Model.Schnorr
  Proofs.ZModProofs Proofs.PolyProofs Proofs.GroupProofs Proofs.CurveLawsProofs.
Import ListNotations.
Open Scope Z_scope.

(* ------------------------------------------------------------------ *)
(* facts that need no laws *)

Lemma no_dup_z_spec : forall l, no_dup_z l = true <-> NoDup l.
Proof.
  induction l as [|x t IH]; cbn [no_dup_z].
  - split; [constructor|reflexivity].
  - rewrite andb_true_iff, IH, negb_true_iff. split.
    + intros [Hx Ht]. constructor; [|exact Ht].
      intros Hin. assert (E : existsb (Z.eqb x) t = true).
      { apply existsb_exists. exists x. split; [exact Hin|apply Z.eqb_refl]. }
      congruence.
    + intros Hnd. inversion Hnd as [|? ? Hx Ht]; subst. split; [|exact Ht].
      destruct (existsb (Z.eqb x) t) eqn:E; [|reflexivity].
      apply existsb_exists in E. destruct E as [y [Hy Exy]].
      apply Z.eqb_eq in Exy. subst y. contradiction.
Qed.

Lemma forallb_nz_spec : forall q ids,
  forallb (fun v => negb (v =? 0)) (map (fun v => v mod q) ids) = true
  <-> Forall (fun v => v mod q <> 0) ids.
Proof.
  intros q. induction ids as [|a t IH]; cbn [map forallb].
  - split; [constructor|reflexivity].
  - rewrite andb_true_iff, IH, negb_true_iff, Z.eqb_neq. split.
    + intros [A1 A2]. constructor; assumption.
    + intros K. inversion K; subst. split; assumption.
Qed.

Theorem check_indexes_spec : forall c ids,
  check_indexes c ids = true <->
  (Forall (fun v => v mod cq c <> 0) ids /\ NoDup (map (fun v => v mod cq c) ids)).
Proof.
  intros c ids. unfold check_indexes.
  rewrite andb_true_iff, forallb_nz_spec, no_dup_z_spec. reflexivity.
Qed.

Lemma zlength_map : forall {A B0} (f : A -> B0) l, zlength (map f l) = zlength l.
Proof. intros A B0 f l. unfold zlength. rewrite map_length. reflexivity. Qed.

Section V.
  Variable c : curve.

  Local Notation cmul := (@gmul (curve_group c)).
  Local Notation padd := (pt_add c).
  Local Notation O := (pt_zero c).
  Local Notation B := (base c).
  Local Notation q := (cq c).

  (* ---------------------------------------------------------------- *)
  (* 2. Create: refusals and the shape of the result (no laws needed) *)

  Lemma omapM_base_mul_cases : forall l,
      (omapM (ec_base_mul c) l = Ok (map (fun a => cmul (Z.abs a) B) l)
       /\ Forall (fun a => representable (cmul (Z.abs a) B) = true) l)
      \/ (omapM (ec_base_mul c) l = Panic
          /\ Exists (fun a => representable (cmul (Z.abs a) B) = false) l).
  Proof.
    induction l as [|a t IH]; cbn [omapM map].
    - left. split; [reflexivity|constructor].
    - change (ec_base_mul c a) with (ec_smul c B a).
      destruct (ec_smul_cases c B a) as [[Ea R]|[Ea R]]; rewrite Ea; cbn [obind].
      + destruct IH as [[E F]|[E F]]; rewrite E; cbn [obind].
        * left. split; [reflexivity|constructor; assumption].
        * right. split; [reflexivity|apply Exists_cons_tl; exact F].
      + right. split; [reflexivity|apply Exists_cons_hd; exact R].
  Qed.

  Theorem create_refuses : forall t secret ids tail,
      vss_create c t secret ids tail = Err <->
      (t < 1 \/ check_indexes c ids = false \/ zlength ids < t).
  Proof.
    intros t secret ids tail. unfold vss_create.
    destruct (t <? 1) eqn:E1.
    { apply Z.ltb_lt in E1. split; auto. }
    apply Z.ltb_ge in E1.
    destruct (check_indexes c ids) eqn:E2; cbn [negb].
    2:{ split; auto. }
    destruct (zlength ids <? t) eqn:E3.
    { apply Z.ltb_lt in E3. split; auto. }
    apply Z.ltb_ge in E3.
    destruct (omapM_base_mul_cases (secret :: tail)) as [[E _]|[E _]]; rewrite E; cbn [obind];
      (split; [discriminate|]); intros [K|[K|K]]; try lia; discriminate.
  Qed.

  Theorem create_Ok : forall t secret ids tail vs shares,
      vss_create c t secret ids tail = Ok (vs, shares) ->
      1 <= t /\ check_indexes c ids = true /\ t <= zlength ids
      /\ vs = map (fun a => cmul (Z.abs a) B) (secret :: tail)
      /\ Forall (fun a => representable (cmul (Z.abs a) B) = true) (secret :: tail)
      /\ shares = map (eval_poly q (secret :: tail)) ids.
  Proof.
    intros t secret ids tail vs shares. unfold vss_create.
    destruct (t <? 1) eqn:E1; [discriminate|]. apply Z.ltb_ge in E1.
    destruct (check_indexes c ids) eqn:E2; cbn [negb]; [|discriminate].
    destruct (zlength ids <? t) eqn:E3; [discriminate|]. apply Z.ltb_ge in E3.
    destruct (omapM_base_mul_cases (secret :: tail)) as [[E F]|[E _]]; rewrite E; cbn [obind];
      [|discriminate].
    intros K. injection K as <- <-. repeat split; auto.
  Qed.

  Theorem create_panics_iff : forall t secret ids tail,
      vss_create c t secret ids tail = Panic <->
      (1 <= t /\ check_indexes c ids = true /\ t <= zlength ids /\
       Exists (fun a => representable (cmul (Z.abs a) B) = false) (secret :: tail)).
  Proof.
    intros t secret ids tail. unfold vss_create.
    destruct (t <? 1) eqn:E1.
    { apply Z.ltb_lt in E1. split; [discriminate|]. intros (K & _). lia. }
    apply Z.ltb_ge in E1.
    destruct (check_indexes c ids) eqn:E2; cbn [negb].
    2:{ split; [discriminate|]. intros (_ & K & _). discriminate. }
    destruct (zlength ids <? t) eqn:E3.
    { apply Z.ltb_lt in E3. split; [discriminate|]. intros (_ & _ & K & _). lia. }
    apply Z.ltb_ge in E3.
    destruct (omapM_base_mul_cases (secret :: tail)) as [[E F]|[E F]]; rewrite E; cbn [obind].
    - split; [discriminate|]. intros (_ & _ & _ & K). exfalso.
      apply Exists_exists in K. destruct K as [a [Ha Ra]].
      rewrite Forall_forall in F. rewrite (F a Ha) in Ra. discriminate.
    - split; auto.
  Qed.

  Theorem create_no_diverge : forall t secret ids tail,
      vss_create c t secret ids tail <> Diverge.
  Proof.
    intros t secret ids tail. unfold vss_create.
    destruct (t <? 1); [discriminate|].
    destruct (negb (check_indexes c ids)); [discriminate|].
    destruct (zlength ids <? t); [discriminate|].
    destruct (omapM_base_mul_cases (secret :: tail)) as [[E _]|[E _]]; rewrite E; cbn [obind];
      discriminate.
  Qed.

  Theorem create_shares_on_poly : forall t secret ids tail vs shares,
      vss_create c t secret ids tail = Ok (vs, shares) ->
      vs = map (fun a => cmul (Z.abs a) B) (secret :: tail)
      /\ hd None vs = cmul (Z.abs secret) B
      /\ length shares = length ids
      /\ forall i, (i < length ids)%nat ->
           nth i shares 0 = eval_poly q (secret :: tail) (nth i ids 0).
  Proof.
    intros t secret ids tail vs shares Hc.
    destruct (create_Ok _ _ _ _ _ _ Hc) as (_ & _ & _ & Evs & _ & Esh).
    split; [exact Evs|]. split; [rewrite Evs; reflexivity|].
    split; [rewrite Esh; apply map_length|].
    intros i Hi. rewrite Esh.
    rewrite (nth_indep _ 0 (eval_poly q (secret :: tail) 0)) by (rewrite map_length; exact Hi).
    apply map_nth.
  Qed.

  (* ---------------------------------------------------------------- *)
  (* 5. ReConstruct: refusals (no laws needed) *)

  Theorem reconstruct_refuses : forall thr xs shares,
      vss_reconstruct c thr xs shares = Err <->
      (xs = [] \/ zlength xs < thr \/ ~ NoDup (map (fun v => v mod q) xs)).
  Proof.
    intros thr xs shares. unfold vss_reconstruct.
    destruct xs as [|x xs'].
    { split; auto. }
    destruct (zlength (x :: xs') <? thr) eqn:E1.
    { apply Z.ltb_lt in E1. split; auto. }
    apply Z.ltb_ge in E1.
    destruct (no_dup_z (map (fun v => v mod q) (x :: xs'))) eqn:E2; cbn [negb].
    - apply no_dup_z_spec in E2. split; [discriminate|].
      intros [K|[K|K]]; [discriminate|lia|contradiction].
    - split; auto. intros _. right. right. intros K. apply no_dup_z_spec in K. congruence.
  Qed.

  Theorem reconstruct_Ok : forall thr xs shares s,
      vss_reconstruct c thr xs shares = Ok s <->
      (xs <> [] /\ thr <= zlength xs /\ NoDup (map (fun v => v mod q) xs)
       /\ s = reconstruct q xs shares).
  Proof.
    intros thr xs shares s. unfold vss_reconstruct.
    destruct xs as [|x xs'].
    { split; [discriminate|]. intros (K & _). contradiction. }
    destruct (zlength (x :: xs') <? thr) eqn:E1.
    { apply Z.ltb_lt in E1. split; [discriminate|]. intros (_ & K & _). lia. }
    apply Z.ltb_ge in E1.
    destruct (no_dup_z (map (fun v => v mod q) (x :: xs'))) eqn:E2; cbn [negb].
    - apply no_dup_z_spec in E2. split.
      + intros K. injection K as <-. repeat split; auto. discriminate.
      + intros (_ & _ & _ & ->). reflexivity.
    - split; [discriminate|]. intros (_ & _ & K & _).
      apply no_dup_z_spec in K. congruence.
  Qed.

  Theorem reconstruct_total : forall thr xs shares,
      vss_reconstruct c thr xs shares <> Panic /\ vss_reconstruct c thr xs shares <> Diverge.
  Proof.
    intros thr xs shares. unfold vss_reconstruct.
    destruct xs as [|x xs']; [split; discriminate|].
    destruct (zlength (x :: xs') <? thr); [split; discriminate|].
    destruct (negb (no_dup_z (map (fun v => v mod q) (x :: xs')))); split; discriminate.
  Qed.

  (* ---------------------------------------------------------------- *)
  (* from here on: the curve laws *)

  Hypothesis CL : curve_laws c.
  Let Hq1 : 1 < q := q_gt_1_c c CL.
  Let HB : onc c B := onc_base c CL.

  Definition nz (k : Z) : Prop := ck c = Weier -> k mod q <> 0.

  Lemma rep_nz : forall k, representable (cmul k B) = true <-> nz k.
  Proof.
    intros k. rewrite (rep_gmul_B c CL). unfold nz.
    destruct (ck c); split; intros K.
    - intros _. destruct K as [K|K]; [discriminate|exact K].
    - right. apply K. reflexivity.
    - intros K'. discriminate.
    - left. reflexivity.
  Qed.

  Lemma nz_eqm : forall a b, eqm q a b -> nz a -> nz b.
  Proof. intros a b E Ha W. unfold eqm in E. rewrite <- E. apply Ha. exact W. Qed.

  Lemma nz_mul : forall a b, nz a -> nz b -> nz (a * b).
  Proof.
    intros a b Ha Hb W D.
    apply Z.mod_divide in D; [|lia].
    apply prime_mult in D; [|exact (q_prime_c c CL)].
    destruct D as [D|D]; apply Z.mod_divide in D; try lia.
    - exact (Ha W D).
    - exact (Hb W D).
  Qed.

  Lemma nz_1 : nz 1.
  Proof. intros _. rewrite Z.mod_1_l by lia. discriminate. Qed.

  Lemma nz_of_nonzero : forall k, k mod q <> 0 -> nz k.
  Proof. intros k Hk _. exact Hk. Qed.

  Lemma nz_abs : forall k, nz (Z.abs k) <-> nz k.
  Proof.
    intros k. unfold nz.
    assert (E : Z.abs k mod q = 0 <-> k mod q = 0).
    { rewrite !Z.mod_divide by lia. apply Z.divide_abs_r. }
    split; intros K W D; apply (K W); apply E; exact D.
  Qed.

  Theorem create_panics_weier : forall t secret ids tail,
      vss_create c t secret ids tail = Panic ->
      ck c = Weier /\ Exists (fun a => a mod q = 0) (secret :: tail).
  Proof.
    intros t secret ids tail Hp. apply create_panics_iff in Hp.
    destruct Hp as (_ & _ & _ & K).
    apply Exists_exists in K. destruct K as [a [Ha Ra]].
    destruct (ck c) eqn:W.
    - split; [reflexivity|]. apply Exists_exists. exists a. split; [exact Ha|].
      destruct (Z.eq_dec (a mod q) 0) as [E|NE]; [exact E|exfalso].
      assert (R : representable (cmul (Z.abs a) B) = true).
      { apply rep_nz. apply nz_abs. intros _. exact NE. }
      congruence.
    - exfalso. assert (R : representable (cmul (Z.abs a) B) = true).
      { apply rep_nz. intros K. congruence. }
      congruence.
  Qed.

  (* ---------------------------------------------------------------- *)
  (* 4. Share.Verify *)

  Lemma loop_step : forall V rest id tpow acc vjt acc',
      ec_smul c V ((tpow * id) mod q) = Ok vjt ->
      ec_add c acc vjt = Ok acc' ->
      vss_verify_loop c (V :: rest) id tpow acc
      = vss_verify_loop c rest id ((tpow * id) mod q) acc'.
  Proof.
    intros V rest id tpow acc vjt acc' E1 E2. cbn [vss_verify_loop].
    rewrite E1. cbn [obind]. rewrite E2. reflexivity.
  Qed.

  Lemma loop_step_err : forall V rest id tpow acc vjt,
      ec_smul c V ((tpow * id) mod q) = Ok vjt ->
      ec_add c acc vjt = Err ->
      vss_verify_loop c (V :: rest) id tpow acc = Ok None.
  Proof.
    intros V rest id tpow acc vjt E1 E2. cbn [vss_verify_loop].
    rewrite E1. cbn [obind]. rewrite E2. reflexivity.
  Qed.

  (* the loop on a committed polynomial: if no PROPER prefix sum is degenerate,
     the loop returns the full sum, or nil when the full sum is unrepresentable *)
  Lemma vss_loop_spec : forall id rest tpow s,
      nz id -> nz tpow -> Forall nz rest -> nz s ->
      (forall j, (1 <= j < length rest)%nat ->
                 nz (s + tpow * id * horner (firstn j rest) id)) ->
      vss_verify_loop c (map (fun a => cmul a B) rest) id tpow (cmul s B)
      = Ok (if representable (cmul (s + tpow * id * horner rest id) B)
            then Some (cmul (s + tpow * id * horner rest id) B) else None).
  Proof.
    intros id. induction rest as [|a r IH]; intros tpow s Hid Htp Hr Hs Hpre.
    - cbn [map vss_verify_loop horner].
      replace (s + tpow * id * 0) with s by ring.
      rewrite (proj2 (rep_nz s) Hs). reflexivity.
    - cbn [map].
      set (t' := (tpow * id) mod q).
      assert (Ht'0 : 0 <= t') by (apply Z.mod_pos_bound; lia).
      assert (Et' : eqm q t' (tpow * id)) by apply eqm_mod.
      assert (Hnt' : nz t').
      { apply (nz_eqm (tpow * id)); [symmetry; exact Et'|]. apply nz_mul; assumption. }
      inversion Hr as [|? ? Ha Hr']; subst.
      assert (Esm : cmul (Z.abs t') (cmul a B) = cmul (t' * a) B).
      { rewrite Z.abs_eq by exact Ht'0. symmetry. apply (c_gmul_mul c CL). exact HB. }
      assert (Eadd : padd (cmul s B) (cmul (t' * a) B) = cmul (s + t' * a) B).
      { symmetry. apply (c_gmul_add c CL). exact HB. }
      assert (Esmul : ec_smul c (cmul a B) ((tpow * id) mod q) = Ok (cmul (t' * a) B)).
      { fold t'. rewrite <- Esm. apply (ec_smul_rep c). rewrite Esm.
        apply rep_nz. apply nz_mul; assumption. }
      assert (Efin : cmul (s + t' * a + t' * id * horner r id) B
                     = cmul (s + tpow * id * horner (a :: r) id) B).
      { apply (c_gmul_eqm c CL). cbn [horner].
        change (eqm q (s + t' * a + t' * id * horner r id)
                      (s + tpow * id * (a + id * horner r id))).
        rewrite Et'. apply eqm_of_eq. ring. }
      destruct (representable (cmul (s + t' * a) B)) eqn:R1.
      + assert (Hn1 : nz (s + t' * a)) by (apply rep_nz; exact R1).
        rewrite (loop_step _ _ _ _ _ (cmul (t' * a) B) (cmul (s + t' * a) B)).
        * fold t'. rewrite (IH t' (s + t' * a)); try assumption.
          -- rewrite Efin. reflexivity.
          -- intros j Hj.
             apply (nz_eqm (s + tpow * id * horner (firstn (S j) (a :: r)) id)).
             ++ cbn [firstn horner]. rewrite Et'. apply eqm_of_eq. ring.
             ++ apply Hpre. cbn [length]. lia.
        * exact Esmul.
        * rewrite <- Eadd. apply (ec_add_rep c). rewrite Eadd. exact R1.
      + destruct r as [|a1 r1].
        * rewrite (loop_step_err _ _ _ _ _ (cmul (t' * a) B)).
          -- rewrite <- Efin. cbn [horner].
             replace (s + t' * a + t' * id * 0) with (s + t' * a) by ring.
             rewrite R1. reflexivity.
          -- exact Esmul.
          -- apply (ec_add_unrep c). rewrite Eadd. exact R1.
        * exfalso.
          assert (Hn1 : nz (s + t' * a)).
          { apply (nz_eqm (s + tpow * id * horner (firstn 1 (a :: a1 :: r1)) id)).
            - cbn [firstn horner]. rewrite Et'. apply eqm_of_eq. ring.
            - apply Hpre. cbn [length]. lia. }
          apply rep_nz in Hn1. congruence.
  Qed.

  (* the exact verdict of Share.Verify on a committed polynomial, outside the
     degenerate cases *)
  Theorem vss_verify_exact : forall t id share a0 rest,
      zlength (a0 :: rest) = t + 1 ->
      id mod q <> 0 -> share mod q <> 0 -> 0 <= share ->
      (ck c = Weier -> Forall (fun a => a mod q <> 0) (a0 :: rest)) ->
      (ck c = Weier -> forall j, (1 <= j <= length rest)%nat ->
                                 horner (firstn j (a0 :: rest)) id mod q <> 0) ->
      vss_verify c t t id share (map (fun a => cmul a B) (a0 :: rest))
      = Ok (share mod q =? horner (a0 :: rest) id mod q).
  Proof.
    intros t id share a0 rest Hlen Hid Hsh Hsh0 Hnzc Hpre.
    unfold vss_verify. rewrite zlength_map, Hlen, !Z.eqb_refl. cbn [negb orb].
    destruct (id mod q =? 0) eqn:E1; [apply Z.eqb_eq in E1; contradiction|].
    destruct (share mod q =? 0) eqn:E2; [apply Z.eqb_eq in E2; contradiction|].
    cbn [orb map].
    assert (Hnzc' : Forall nz (a0 :: rest)).
    { apply Forall_forall. intros a Ha W.
      specialize (Hnzc W). rewrite Forall_forall in Hnzc. apply Hnzc. exact Ha. }
    inversion Hnzc' as [|? ? Hna0 Hnrest]; subst.
    rewrite (vss_loop_spec id rest 1 a0).
    - replace (a0 + 1 * id * horner rest id) with (horner (a0 :: rest) id)
        by (cbn [horner]; ring).
      destruct (representable (cmul (horner (a0 :: rest) id) B)) eqn:RX; cbn [obind].
      + unfold ec_base_mul.
        rewrite (ec_smul_rep c).
        2:{ apply rep_nz. apply nz_abs. apply nz_of_nonzero. exact Hsh. }
        cbn [obind]. rewrite Z.abs_eq by exact Hsh0. f_equal.
        destruct (share mod q =? horner (a0 :: rest) id mod q) eqn:E3.
        * apply Z.eqb_eq in E3. rewrite (c_gmul_eqm c CL _ _ E3). apply pt_eqb_refl.
        * apply Z.eqb_neq in E3. apply pt_eqb_neq. intros K.
          apply (c_gmul_inj c CL) in K. contradiction.
      + f_equal. symmetry. apply Z.eqb_neq. intros K.
        assert (Hn : nz (horner (a0 :: rest) id)).
        { apply (nz_eqm share); [exact K|]. apply nz_of_nonzero. exact Hsh. }
        apply rep_nz in Hn. congruence.
    - apply nz_of_nonzero. exact Hid.
    - exact nz_1.
    - exact Hnrest.
    - exact Hna0.
    - intros j Hj W.
      replace (a0 + 1 * id * horner (firstn j rest) id)
        with (horner (firstn (S j) (a0 :: rest)) id) by (cbn [firstn horner]; ring).
      apply (Hpre W). lia.
  Qed.

  Theorem verify_iff_on_poly : forall t id share a0 rest,
      zlength (a0 :: rest) = t + 1 ->
      id mod q <> 0 -> share mod q <> 0 -> 0 <= share ->
      (ck c = Weier -> Forall (fun a => a mod q <> 0) (a0 :: rest)) ->
      (ck c = Weier -> forall j, (1 <= j <= length rest)%nat ->
                                 horner (firstn j (a0 :: rest)) id mod q <> 0) ->
      (vss_verify c t t id share (map (fun a => cmul a B) (a0 :: rest)) = Ok true
       <-> eqm q share (horner (a0 :: rest) id)).
  Proof.
    intros t id share a0 rest Hlen Hid Hsh Hsh0 Hnzc Hpre.
    rewrite (vss_verify_exact t id share a0 rest Hlen Hid Hsh Hsh0 Hnzc Hpre).
    unfold eqm. split.
    - intros K. injection K as K. apply Z.eqb_eq. exact K.
    - intros K. apply Z.eqb_eq in K. rewrite K. reflexivity.
  Qed.

  Theorem tamper_share_rejected : forall t id share share' a0 rest,
      zlength (a0 :: rest) = t + 1 ->
      id mod q <> 0 -> share' mod q <> 0 -> 0 <= share' ->
      (ck c = Weier -> Forall (fun a => a mod q <> 0) (a0 :: rest)) ->
      (ck c = Weier -> forall j, (1 <= j <= length rest)%nat ->
                                 horner (firstn j (a0 :: rest)) id mod q <> 0) ->
      eqm q share (horner (a0 :: rest) id) ->
      ~ eqm q share' share ->
      vss_verify c t t id share' (map (fun a => cmul a B) (a0 :: rest)) = Ok false.
  Proof.
    intros t id share share' a0 rest Hlen Hid Hsh Hsh0 Hnzc Hpre Hs Hne.
    rewrite (vss_verify_exact t id share' a0 rest Hlen Hid Hsh Hsh0 Hnzc Hpre).
    f_equal. apply Z.eqb_neq. intros K. apply Hne. unfold eqm in *. congruence.
  Qed.

  (* a share that is also rejected when it is 0 mod q, whatever the commitments *)
  Theorem zero_share_rejected : forall st t id share vs,
      share mod q = 0 -> vss_verify c st t id share vs = Ok false.
  Proof.
    intros st t id share vs Hs. unfold vss_verify.
    destruct (negb (st =? t) || negb (zlength vs =? t + 1)); [reflexivity|].
    apply Z.eqb_eq in Hs. rewrite Hs, orb_true_r. reflexivity.
  Qed.

  Theorem verifies_under_other_id_iff : forall t id' share a0 rest,
      zlength (a0 :: rest) = t + 1 ->
      id' mod q <> 0 -> share mod q <> 0 -> 0 <= share ->
      (ck c = Weier -> Forall (fun a => a mod q <> 0) (a0 :: rest)) ->
      (ck c = Weier -> forall j, (1 <= j <= length rest)%nat ->
                                 horner (firstn j (a0 :: rest)) id' mod q <> 0) ->
      (vss_verify c t t id' share (map (fun a => cmul a B) (a0 :: rest)) = Ok true
       <-> eqm q (horner (a0 :: rest) id') share).
  Proof.
    intros t id' share a0 rest Hlen Hid Hsh Hsh0 Hnzc Hpre.
    rewrite (verify_iff_on_poly t id' share a0 rest Hlen Hid Hsh Hsh0 Hnzc Hpre).
    split; intros K; symmetry; exact K.
  Qed.

  (* wrong threshold or wrong number of commitments *)
  Theorem verify_wrong_threshold_rejected : forall st t id share vs,
      (st <> t \/ zlength vs <> t + 1) -> vss_verify c st t id share vs = Ok false.
  Proof.
    intros st t id share vs K. unfold vss_verify.
    destruct K as [K|K]; apply Z.eqb_neq in K; rewrite K; cbn [negb orb];
      [reflexivity|rewrite orb_true_r; reflexivity].
  Qed.

  (* ---------------------------------------------------------------- *)
  (* 3. a dealt share verifies *)

  Theorem share_verifies : forall t secret ids tail vs shares i,
      vss_create c t secret ids tail = Ok (vs, shares) ->
      length tail = Z.to_nat t ->
      Forall (fun a => 0 <= a) (secret :: tail) ->
      (i < length ids)%nat ->
      nth i shares 0 mod q <> 0 ->
      (ck c = Weier -> forall j, (1 <= j <= length tail)%nat ->
          horner (firstn j (secret :: tail)) (nth i ids 0) mod q <> 0) ->
      vss_verify c t t (nth i ids 0) (nth i shares 0) vs = Ok true.
  Proof.
    intros t secret ids tail vs shares i Hc Hlt Hnn Hi Hsh Hpre.
    destruct (create_Ok _ _ _ _ _ _ Hc) as (Ht & Hck & Hn & Evs & Frep & Esh).
    destruct (create_shares_on_poly _ _ _ _ _ _ Hc) as (_ & _ & _ & Hnth).
    specialize (Hnth i Hi).
    set (id := nth i ids 0) in *. set (sh := nth i shares 0) in *.
    assert (Evs' : vs = map (fun a => cmul a B) (secret :: tail)).
    { rewrite Evs. apply map_ext_in. intros a Ha.
      rewrite Forall_forall in Hnn. rewrite Z.abs_eq by (apply Hnn; exact Ha). reflexivity. }
    assert (Hid : id mod q <> 0).
    { apply check_indexes_spec in Hck. destruct Hck as [Hf _].
      rewrite Forall_forall in Hf. apply Hf. apply nth_In. exact Hi. }
    assert (Hspec : eqm q sh (horner (secret :: tail) id)).
    { rewrite Hnth. apply eval_poly_spec. lia. }
    assert (Hsh0 : 0 <= sh).
    { rewrite Hnth. destruct tail as [|a1 tl].
      - cbn [length] in Hlt. lia.
      - apply eval_poly_range. lia. }
    rewrite Evs'.
    apply (verify_iff_on_poly t id sh secret tail); try assumption.
    - unfold zlength. cbn [length]. rewrite Hlt. lia.
    - intros W. apply Forall_forall. intros a Ha.
      rewrite Forall_forall in Frep. specialize (Frep a Ha).
      apply rep_nz in Frep. apply (proj1 (nz_abs a)) in Frep. exact (Frep W).
  Qed.

  (* ---------------------------------------------------------------- *)
  (* 5. reconstruction from at least t+1 consistent shares *)

  Theorem reconstruct_ge_t1 : forall thr xs shares coefs s,
      vss_reconstruct c thr xs shares = Ok s ->
      length shares = length xs ->
      (length coefs <= length xs)%nat ->
      (forall i, (i < length xs)%nat -> eqm q (nth i shares 0) (horner coefs (nth i xs 0))) ->
      eqm q s (hd 0 coefs).
  Proof.
    intros thr xs shares coefs s Hr Hls Hlc Hsh.
    apply reconstruct_Ok in Hr. destruct Hr as (_ & _ & ND & ->).
    rewrite <- horner_0.
    apply interp_at_0; auto. exact (q_prime_c c CL).
  Qed.

  (* dealing then reconstructing from ALL shares returns the secret *)
  Theorem create_reconstruct_roundtrip : forall t secret ids tail vs shares,
      vss_create c t secret ids tail = Ok (vs, shares) ->
      length tail = Z.to_nat t ->
      t + 1 <= zlength ids ->
      exists s, vss_reconstruct c (t + 1) ids shares = Ok s /\ eqm q s secret.
  Proof.
    intros t secret ids tail vs shares Hc Hlt Hn.
    destruct (create_Ok _ _ _ _ _ _ Hc) as (Ht & Hck & _ & _ & _ & Esh).
    destruct (create_shares_on_poly _ _ _ _ _ _ Hc) as (_ & _ & Hlen & Hnth).
    apply check_indexes_spec in Hck. destruct Hck as [_ ND].
    exists (reconstruct q ids shares).
    assert (Hr : vss_reconstruct c (t + 1) ids shares = Ok (reconstruct q ids shares)).
    { apply reconstruct_Ok. repeat split; auto.
      intros ->. unfold zlength in Hn. cbn [length] in Hn. lia. }
    split; [exact Hr|].
    apply (reconstruct_ge_t1 (t + 1) ids shares (secret :: tail) _ Hr Hlen).
    - unfold zlength in Hn. cbn [length]. rewrite Hlt. lia.
    - intros i Hi. rewrite (Hnth i Hi). apply eval_poly_spec. lia.
  Qed.

  (* ---------------------------------------------------------------- *)
  (* 6. t shares are consistent with every candidate secret *)

  Theorem vss_fewer_hides : forall xs ys s',
      check_indexes c xs = true -> length ys = length xs ->
      exists tail, length tail = length xs /\
        forall i, (i < length xs)%nat ->
          eqm q (eval_poly q (s' :: tail) (nth i xs 0)) (nth i ys 0).
  Proof.
    intros xs ys s' Hck Hl.
    apply check_indexes_spec in Hck. destruct Hck as [Hnz ND].
    assert (ND0 : NoDup (map (fun x => x mod q) (0 :: xs))).
    { cbn [map]. constructor; [|exact ND].
      rewrite Z.mod_0_l by lia. intros Hin. apply in_map_iff in Hin.
      destruct Hin as [x [Ex Hx]]. rewrite Forall_forall in Hnz. exact (Hnz x Hx Ex). }
    destruct (fewer_hides q xs ys s' (q_prime_c c CL) ND0 Hl) as [coefs (Hlen & H0 & Hsh)].
    destruct coefs as [|a0 tail]; [discriminate|].
    exists tail. split; [cbn [length] in Hlen; lia|].
    intros i Hi. rewrite eval_poly_spec by lia.
    rewrite <- (Hsh i Hi). rewrite horner_0 in H0. cbn [hd] in H0.
    cbn [horner]. rewrite H0. reflexivity.
  Qed.

  (* with canonical shares: the dealer's share vector is literally the same *)
  Theorem vss_fewer_hides_exact : forall xs ys s',
      check_indexes c xs = true -> length ys = length xs -> xs <> [] ->
      Forall (fun y => 0 <= y < q) ys ->
      exists tail, length tail = length xs /\
        map (eval_poly q (s' :: tail)) xs = ys.
  Proof.
    intros xs ys s' Hck Hl Hne Hrange.
    destruct (vss_fewer_hides xs ys s' Hck Hl) as [tail [Hlt Hsh]].
    exists tail. split; [exact Hlt|].
    apply (nth_ext _ _ 0 0); [rewrite map_length; lia|].
    intros i Hi. rewrite map_length in Hi.
    rewrite (nth_indep _ 0 (eval_poly q (s' :: tail) 0)) by (rewrite map_length; exact Hi).
    rewrite map_nth.
    apply (eqm_small q); [| |apply Hsh; exact Hi].
    - destruct tail as [|a1 tl].
      + destruct xs; [contradiction|discriminate].
      + apply eval_poly_range. lia.
    - rewrite Forall_forall in Hrange. apply Hrange. apply nth_In. lia.
  Qed.

  (* ---------------------------------------------------------------- *)
  (* 7. any two qualifying share sets of one dealing give the same secret; dealings add *)

  (* two (possibly different, differently sized, differently ordered) sets of at least deg+1 shares of the
     same polynomial reconstruct the same value: the choice of the signing / resharing committee is immaterial *)
  Theorem reconstruct_subset_independent : forall thr xs1 sh1 xs2 sh2 coefs s1 s2,
      vss_reconstruct c thr xs1 sh1 = Ok s1 ->
      vss_reconstruct c thr xs2 sh2 = Ok s2 ->
      length sh1 = length xs1 -> length sh2 = length xs2 ->
      (length coefs <= length xs1)%nat -> (length coefs <= length xs2)%nat ->
      (forall i, (i < length xs1)%nat -> eqm q (nth i sh1 0) (horner coefs (nth i xs1 0))) ->
      (forall i, (i < length xs2)%nat -> eqm q (nth i sh2 0) (horner coefs (nth i xs2 0))) ->
      eqm q s1 s2.
  Proof.
    intros thr xs1 sh1 xs2 sh2 coefs s1 s2 H1 H2 L1 L2 C1 C2 P1 P2.
    apply (eqm_trans q _ (hd 0 coefs)).
    - exact (reconstruct_ge_t1 thr xs1 sh1 coefs s1 H1 L1 C1 P1).
    - apply eqm_sym. exact (reconstruct_ge_t1 thr xs2 sh2 coefs s2 H2 L2 C2 P2).
  Qed.

  (* the pointwise sum of the shares of two dealings (what every party of the key generation stores as x_i)
     is a sharing of the sum of the two secrets *)
  Theorem reconstruct_additive : forall thr xs shA shB sh coefsA coefsB s,
      vss_reconstruct c thr xs sh = Ok s ->
      length sh = length xs ->
      (length coefsA <= length xs)%nat -> (length coefsB <= length xs)%nat ->
      (forall i, (i < length xs)%nat -> eqm q (nth i shA 0) (horner coefsA (nth i xs 0))) ->
      (forall i, (i < length xs)%nat -> eqm q (nth i shB 0) (horner coefsB (nth i xs 0))) ->
      (forall i, (i < length xs)%nat -> eqm q (nth i sh 0) (nth i shA 0 + nth i shB 0)) ->
      eqm q s (hd 0 coefsA + hd 0 coefsB).
  Proof.
    intros thr xs shA shB sh coefsA coefsB s Hr Hl CA CB PA PB PS.
    rewrite <- (horner_0 coefsA), <- (horner_0 coefsB), <- horner_padd, horner_0.
    apply (reconstruct_ge_t1 thr xs sh (PolyProofs.padd coefsA coefsB) s Hr Hl).
    - rewrite length_padd. lia.
    - intros i Hi. rewrite horner_padd.
      apply (eqm_trans q _ (nth i shA 0 + nth i shB 0)); [exact (PS i Hi)|].
      apply eqm_add; [exact (PA i Hi)|exact (PB i Hi)].
  Qed.

  (* a share set that lies on a polynomial of admissible degree whose constant term differs from the value
     reconstructed from another qualifying set cannot exist: one wrong share among deg+1 is not on the polynomial *)
  Theorem reconstruct_wrong_secret_off_poly : forall thr xs sh coefs s,
      vss_reconstruct c thr xs sh = Ok s ->
      length sh = length xs ->
      (length coefs <= length xs)%nat ->
      ~ eqm q s (hd 0 coefs) ->
      exists i, (i < length xs)%nat /\ ~ eqm q (nth i sh 0) (horner coefs (nth i xs 0)).
  Proof.
    intros thr xs sh coefs s Hr Hl Hc Hne.
    assert (D : forall n, (n <= length xs)%nat ->
               (forall i, (i < n)%nat -> eqm q (nth i sh 0) (horner coefs (nth i xs 0))) \/
               (exists i, (i < n)%nat /\ ~ eqm q (nth i sh 0) (horner coefs (nth i xs 0)))).
    { induction n as [|n IH]; intros Hn.
      - left. intros i Hi. lia.
      - destruct (IH ltac:(lia)) as [A|[i [Hi Hb]]].
        + destruct (Z.eq_dec (nth n sh 0 mod q) (horner coefs (nth n xs 0) mod q)) as [E|E].
          * left. intros i Hi. destruct (Nat.eq_dec i n) as [->|Hin]; [exact E|apply A; lia].
          * right. exists n. split; [lia|exact E].
        + right. exists i. split; [lia|exact Hb]. }
    destruct (D (length xs) (le_n _)) as [A|B0]; [|exact B0].
    exfalso. apply Hne. exact (reconstruct_ge_t1 thr xs sh coefs s Hr Hl Hc A).
  Qed.

End V.

(* ------------------------------------------------------------------ *)
(* non-vacuity on the toy curves.  t = 2, ids 1,2,3, polynomial 5 + 6x + 7x^2 *)
Section Examples.
  Let W := toyW43.
  Let E := toyE.
  Local Notation wmul := (@gmul (curve_group toyW43)).

  Example check_indexes_ex : check_indexes W [1; 2; 3] = true.
  Proof. vm_compute. reflexivity. Qed.

  Example create_ex :
    exists vs, vss_create W 2 5 [1; 2; 3] [6; 7] = Ok (vs, [18; 14; 24]).
  Proof. eexists. vm_compute. reflexivity. Qed.

  Example share_verifies_ex :
    vss_verify W 2 2 2 14 (map (fun a => wmul a (base W)) [5; 6; 7]) = Ok true.
  Proof.
    change 2 with (nth 1 [1; 2; 3] 0) at 3.
    change 14 with (nth 1 [18; 14; 24] 0).
    apply (share_verifies W toyW43_laws 2 5 [1; 2; 3] [6; 7]).
    - vm_compute. reflexivity.
    - reflexivity.
    - repeat constructor; lia.
    - cbn [length]. lia.
    - vm_compute. discriminate.
    - intros _ j Hj. cbn [length] in Hj.
      assert (K : (j = 1 \/ j = 2)%nat) by lia.
      destruct K as [-> | ->]; vm_compute; discriminate.
  Qed.

  Example share_verifies_ex_E :
    vss_verify E 2 2 2 5 (map (fun a => @gmul (curve_group toyE) a (base E)) [5; 6; 4]) = Ok true.
  Proof.
    change 2 with (nth 1 [1; 2; 3] 0) at 3.
    change 5 with (nth 1 [1; 5; 3] 0) at 1.
    apply (share_verifies E toyE_laws 2 5 [1; 2; 3] [6; 4]).
    - vm_compute. reflexivity.
    - reflexivity.
    - repeat constructor; lia.
    - cbn [length]. lia.
    - vm_compute. discriminate.
    - intros K. vm_compute in K. discriminate.
  Qed.

  Example verify_iff_ex :
    vss_verify W 2 2 2 14 (map (fun a => wmul a (base W)) [5; 6; 7]) = Ok true
    <-> eqm 31 14 (horner [5; 6; 7] 2).
  Proof.
    apply (verify_iff_on_poly W toyW43_laws 2 2 14 5 [6; 7]).
    - reflexivity.
    - vm_compute. discriminate.
    - vm_compute. discriminate.
    - lia.
    - intros _. repeat constructor; vm_compute; discriminate.
    - intros _ j Hj. cbn [length] in Hj.
      assert (K : (j = 1 \/ j = 2)%nat) by lia.
      destruct K as [-> | ->]; vm_compute; discriminate.
  Qed.

  Example tamper_ex :
    vss_verify W 2 2 2 15 (map (fun a => wmul a (base W)) [5; 6; 7]) = Ok false.
  Proof. vm_compute. reflexivity. Qed.

  Example reconstruct_ex : vss_reconstruct W 3 [1; 2; 3] [18; 14; 24] = Ok 5.
  Proof. vm_compute. reflexivity. Qed.

  Example reconstruct_ge_t1_ex : eqm 31 5 (hd 0 [5; 6; 7]).
  Proof.
    apply (reconstruct_ge_t1 W toyW43_laws 3 [1; 2; 3] [18; 14; 24] [5; 6; 7] 5).
    - vm_compute. reflexivity.
    - reflexivity.
    - cbn [length]. lia.
    - intros i Hi. cbn [length] in Hi.
      assert (K : (i = 0 \/ i = 1 \/ i = 2)%nat) by lia.
      destruct K as [-> | [-> | ->]]; vm_compute; reflexivity.
  Qed.

  (* a degenerate honest share on the Weierstrass curve: 5 + 6x + 7x^2 at x = 12
     has the partial sum 5 + 6*12 = 77 = 15 (fine) ... the polynomial 5 + 13 x + 7 x^2
     at x = 2 has partial sum 5 + 26 = 31 = 0 mod 31: Verify rejects the honest share *)
  Example honest_share_rejected_on_degenerate_prefix :
    exists vs shares,
      vss_create W 2 5 [1; 2; 3] [13; 7] = Ok (vs, shares) /\
      nth 1 shares 0 mod 31 <> 0 /\
      vss_verify W 2 2 2 (nth 1 shares 0) vs = Ok false.
  Proof.
    eexists. eexists. split; [vm_compute; reflexivity|].
    split; vm_compute; [discriminate|reflexivity].
  Qed.
  Example reconstruct_subset_independent_ex : eqm 31 5 5.
  Proof.
    apply (reconstruct_subset_independent W toyW43_laws 3 [1; 2; 3] [18; 14; 24] [3; 1; 2] [24; 18; 14] [5; 6; 7] 5 5).
    - vm_compute. reflexivity.
    - vm_compute. reflexivity.
    - reflexivity.
    - reflexivity.
    - cbn [length]. lia.
    - cbn [length]. lia.
    - intros i Hi. cbn [length] in Hi.
      assert (K : (i = 0 \/ i = 1 \/ i = 2)%nat) by lia.
      destruct K as [-> | [-> | ->]]; vm_compute; reflexivity.
    - intros i Hi. cbn [length] in Hi.
      assert (K : (i = 0 \/ i = 1 \/ i = 2)%nat) by lia.
      destruct K as [-> | [-> | ->]]; vm_compute; reflexivity.
  Qed.

  (* 5 + 6x + 7x^2 and 9 + 2x + x^2 at 1,2,3: shares 18,14,24 and 12,17,24; sums mod 31: 30,0,17; secret 14 *)
  Example reconstruct_additive_ex :
    vss_reconstruct W 3 [1; 2; 3] [30; 0; 17] = Ok 14 /\ eqm 31 14 (hd 0 [5; 6; 7] + hd 0 [9; 2; 1]).
  Proof.
    split; [vm_compute; reflexivity|].
    apply (reconstruct_additive W toyW43_laws 3 [1; 2; 3] [18; 14; 24] [12; 17; 24] [30; 0; 17] [5; 6; 7] [9; 2; 1] 14).
    - vm_compute. reflexivity.
    - reflexivity.
    - cbn [length]. lia.
    - cbn [length]. lia.
    - intros i Hi. cbn [length] in Hi.
      assert (K : (i = 0 \/ i = 1 \/ i = 2)%nat) by lia.
      destruct K as [-> | [-> | ->]]; vm_compute; reflexivity.
    - intros i Hi. cbn [length] in Hi.
      assert (K : (i = 0 \/ i = 1 \/ i = 2)%nat) by lia.
      destruct K as [-> | [-> | ->]]; vm_compute; reflexivity.
    - intros i Hi. cbn [length] in Hi.
      assert (K : (i = 0 \/ i = 1 \/ i = 2)%nat) by lia.
      destruct K as [-> | [-> | ->]]; vm_compute; reflexivity.
  Qed.
End Examples.

Print Assumptions check_indexes_spec.
Print Assumptions create_refuses.
Print Assumptions create_shares_on_poly.
Print Assumptions share_verifies.
Print Assumptions vss_verify_exact.
Print Assumptions verify_iff_on_poly.
Print Assumptions tamper_share_rejected.
Print Assumptions verifies_under_other_id_iff.
Print Assumptions reconstruct_ge_t1.
Print Assumptions reconstruct_refuses.
Print Assumptions create_reconstruct_roundtrip.
Print Assumptions vss_fewer_hides.
Print Assumptions vss_fewer_hides_exact.
Print Assumptions reconstruct_subset_independent.
Print Assumptions reconstruct_additive.
Print Assumptions reconstruct_wrong_secret_off_poly.
