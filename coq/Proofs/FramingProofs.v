From Coq Require Import ZArith List Lia.
From TSS Require Import Base.Outcome Base.Bytes Model.Framing Proofs.BytesProofs.
Import ListNotations.
Open Scope Z_scope.

Definition small (b : list Z) : Prop := zlength b < two64.
Definition all_small (xs : list (list Z)) : Prop := Forall small xs.

Lemma frame_body_snoc xs b : frame_body (xs ++ [b]) = frame_body xs ++ frame_elem b.
Proof. unfold frame_body. rewrite map_app, concat_app. cbn. now rewrite app_nil_r. Qed.

Lemma frame_elem_split b : frame_elem b = (b ++ [delimiter]) ++ le64 (zlength b).
Proof. unfold frame_elem. now rewrite <- app_assoc. Qed.

Lemma zlength_range {A} (l : list A) : 0 <= zlength l.
Proof. unfold zlength. lia. Qed.

Lemma frame_elem_tail_inj A1 A2 b1 b2 :
  small b1 -> small b2 ->
  A1 ++ frame_elem b1 = A2 ++ frame_elem b2 -> A1 = A2 /\ b1 = b2.
Proof.
  intros S1 S2 E. rewrite !frame_elem_split, !app_assoc in E.
  apply app_eq_tail_len in E; [|now rewrite !le64_length].
  destruct E as [E1 E2].
  apply le64_inj in E2; try (split; [apply zlength_range|assumption]).
  rewrite <- !app_assoc in E1. rewrite !app_assoc in E1.
  apply app_eq_tail_len in E1; [|reflexivity]. destruct E1 as [E1 _].
  apply app_eq_tail_len in E1; [assumption|]. unfold zlength in E2. lia.
Qed.

Theorem frame_body_inj xs ys :
  all_small xs -> all_small ys -> frame_body xs = frame_body ys -> xs = ys.
Proof.
  revert ys. induction xs as [|b xs IH] using rev_ind; intros ys Sx Sy E.
  - destruct ys as [|c ys] using rev_ind; [reflexivity|].
    rewrite frame_body_snoc in E. cbn in E. apply (f_equal (@length Z)) in E.
    unfold frame_elem in E. rewrite !app_length in E. cbn in E. lia.
  - destruct ys as [|c ys _] using rev_ind.
    + rewrite frame_body_snoc in E. cbn in E. apply (f_equal (@length Z)) in E.
      unfold frame_elem in E. rewrite !app_length in E. cbn in E. lia.
    + rewrite !frame_body_snoc in E.
      unfold all_small in *. apply Forall_app in Sx. apply Forall_app in Sy.
      destruct Sx as [Sx Sb]. destruct Sy as [Sy Sc].
      inversion Sb; inversion Sc; subst.
      apply frame_elem_tail_inj in E; auto. destruct E as [E1 E2]. subst.
      f_equal. apply IH; auto.
Qed.

Theorem frame_inj xs ys :
  all_small xs -> all_small ys -> frame xs = frame ys -> xs = ys.
Proof.
  intros Sx Sy E. unfold frame in E.
  assert (E' : frame_body xs = frame_body ys).
  { revert E. generalize (frame_body xs) (frame_body ys). intros l1 l2 E.
    assert (HL : length (le64 (zlength xs)) = length (le64 (zlength ys))) by now rewrite !le64_length.
    revert HL E. generalize (le64 (zlength xs)) (le64 (zlength ys)). intros p1.
    induction p1 as [|a p1 IHp]; intros [|b p2] HL E; cbn in *; try discriminate; auto.
    inversion E. apply (IHp p2); auto. }
  now apply frame_body_inj.
Qed.

(* integers *)
Definition int_ok (x : Z) : Prop := 0 <= x /\ small (bytes_of_Z x).
Definition ints_ok (xs : list Z) : Prop := Forall int_ok xs.

Lemma map_bytes_inj xs ys :
  Forall (fun x => 0 <= x) xs -> Forall (fun x => 0 <= x) ys ->
  map bytes_of_Z xs = map bytes_of_Z ys -> xs = ys.
Proof.
  revert ys; induction xs as [|x xs IH]; intros [|y ys] Hx Hy E; cbn in E; try discriminate; auto.
  inversion E. inversion Hx; inversion Hy; subst. f_equal; auto using bytes_of_Z_inj.
Qed.

Theorem frame_ints_inj xs ys :
  ints_ok xs -> ints_ok ys -> frame_ints xs = frame_ints ys -> xs = ys.
Proof.
  intros Hx Hy E. unfold frame_ints in E. apply frame_inj in E.
  - apply map_bytes_inj; auto; eapply Forall_impl; try eassumption; intros a [H _]; exact H.
  - unfold all_small. apply Forall_map. eapply Forall_impl; try eassumption. intros a [_ H]; exact H.
  - unfold all_small. apply Forall_map. eapply Forall_impl; try eassumption. intros a [_ H]; exact H.
Qed.

(* ---------- digests: equal digests => equal inputs or an explicit collision ---------- *)
Section Digests.
  Variable H : list Z -> list Z.
  Hypothesis H_len : forall x, length (H x) = 32%nat.
  Hypothesis H_bytes : forall x, Forall is_byte (H x).

  Definition collision : Prop := exists p p', p <> p' /\ H p = H p'.

  Lemma be_H_inj p p' : be_value (H p) = be_value (H p') -> H p = H p'.
  Proof. intros E. apply be_value_inj; auto. now rewrite !H_len. Qed.

  Theorem sha512_256_collision_or_equal xs ys :
    xs <> [] -> ys <> [] -> all_small xs -> all_small ys ->
    sha512_256 H xs = sha512_256 H ys -> xs = ys \/ collision.
  Proof.
    intros Nx Ny Sx Sy E. destruct xs as [|x xs]; [congruence|]. destruct ys as [|y ys]; [congruence|].
    cbn in E. inversion E as [E'].
    destruct (list_eq_dec Z.eq_dec (frame (x :: xs)) (frame (y :: ys))) as [Eq|Ne].
    - left. now apply frame_inj.
    - right. exists (frame (x :: xs)), (frame (y :: ys)). auto.
  Qed.

  Theorem sha512_256i_collision_or_equal xs ys :
    xs <> [] -> ys <> [] -> ints_ok xs -> ints_ok ys ->
    sha512_256i H xs = sha512_256i H ys -> xs = ys \/ collision.
  Proof.
    intros Nx Ny Sx Sy E. destruct xs as [|x xs]; [congruence|]. destruct ys as [|y ys]; [congruence|].
    cbn in E. inversion E as [E']. apply be_H_inj in E'.
    destruct (list_eq_dec Z.eq_dec (frame_ints (x :: xs)) (frame_ints (y :: ys))) as [Eq|Ne].
    - left. now apply frame_ints_inj.
    - right. exists (frame_ints (x :: xs)), (frame_ints (y :: ys)). auto.
  Qed.

  (* tagged: different tag or different inputs => different pre-image, unless H collides on the tags *)
  Theorem tagged_preimage_inj tag tag' xs ys :
    small tag -> small tag' -> ints_ok xs -> ints_ok ys ->
    tagged_preimage H tag xs = tagged_preimage H tag' ys ->
    (tag = tag' \/ collision) /\ xs = ys.
  Proof.
    intros St St' Sx Sy E. unfold tagged_preimage in E.
    set (t := H (frame [tag])) in *. set (t' := H (frame [tag'])) in *.
    assert (Lt : length t = length t') by (unfold t, t'; now rewrite !H_len).
    assert (E1 : t = t' /\ t ++ frame_ints xs = t' ++ frame_ints ys).
    { revert Lt E. generalize (t ++ frame_ints xs) (t' ++ frame_ints ys). generalize t t'.
      intros a. induction a as [|h a IH]; intros [|h' b] r r' L E; cbn in *; try discriminate; auto.
      inversion E; subst. destruct (IH b r r') as [E1 E2]; auto. subst. auto. }
    destruct E1 as [Et E2]. rewrite Et in E2. apply app_inv_head in E2.
    split; [|now apply frame_ints_inj].
    destruct (list_eq_dec Z.eq_dec tag tag') as [Eq|Ne]; [now left|right].
    exists (frame [tag]), (frame [tag']). split; [|exact Et].
    intros F. apply frame_inj in F; [inversion F; contradiction| |]; constructor; auto; constructor.
  Qed.

  Theorem tagged_collision_or_equal tag tag' xs ys :
    xs <> [] -> ys <> [] -> small tag -> small tag' -> ints_ok xs -> ints_ok ys ->
    sha512_256i_tagged H tag xs = sha512_256i_tagged H tag' ys ->
    (tag = tag' /\ xs = ys) \/ collision.
  Proof.
    intros Nx Ny St St' Sx Sy E. destruct xs as [|x xs]; [congruence|]. destruct ys as [|y ys]; [congruence|].
    cbn [sha512_256i_tagged] in E. inversion E as [E']. apply be_H_inj in E'.
    destruct (list_eq_dec Z.eq_dec (tagged_preimage H tag (x :: xs)) (tagged_preimage H tag' (y :: ys))) as [Eq|Ne].
    - apply tagged_preimage_inj in Eq; auto. destruct Eq as [[Et|C] Ex]; [left; auto|right; exact C].
    - right. eexists _, _. split; [exact Ne|exact E'].
  Qed.

  (* commitments: binding *)
  Theorem commit_binding c d d' :
    ints_ok d -> ints_ok d' ->
    commit_verify H c d = true -> commit_verify H c d' = true -> d = d' \/ collision.
  Proof.
    intros Sd Sd' V V'. unfold commit_verify in *.
    destruct d as [|x d]; [cbn in V; discriminate|]. destruct d' as [|y d']; [cbn in V'; discriminate|].
    cbn [sha512_256i] in *. apply Z.eqb_eq in V, V'.
    apply sha512_256i_collision_or_equal; auto; try discriminate. cbn [sha512_256i]. congruence.
  Qed.

  (* a commitment built by commit_with opens, and only to the committed sequence *)
  Theorem commit_opens r secrets :
    let '(c, d) := commit_with H r secrets in
    commit_verify H c d = true /\ decommit H c d = Ok (Some secrets).
  Proof.
    unfold commit_with, decommit, commit_verify_o, commit_verify. cbn [sha512_256i obind tl].
    rewrite Z.eqb_refl. auto.
  Qed.
End Digests.
