(* Proofs about Base/ZMod.v: powmod, egcd, modinv, inv_prime and the
   congruence relation [eqm q]. *)
From Coq Require Import ZArith Znumtheory Zpow_facts List Lia Setoid Morphisms.
From TSS Require Import Base.Outcome Base.Bytes Base.ZMod Proofs.BytesProofs Proofs.FermatBridge.
Import ListNotations.
Open Scope Z_scope.

(* ---------- powmod ---------- *)

Lemma powmod_pos_spec : forall a e m, 0 < m -> powmod_pos a e m = (a ^ Zpos e) mod m.
Proof.
  intros a e m Hm. induction e as [e IH|e IH|]; cbn [powmod_pos].
  - rewrite IH, Pos2Z.inj_xI.
    replace (2 * Z.pos e + 1) with (Z.pos e + Z.pos e + 1) by lia.
    rewrite !Z.pow_add_r, Z.pow_1_r by lia.
    rewrite <- (Z.mul_mod (a ^ Z.pos e) (a ^ Z.pos e) m) by lia.
    rewrite Z.mul_mod_idemp_l by lia. reflexivity.
  - rewrite IH, Pos2Z.inj_xO.
    replace (2 * Z.pos e) with (Z.pos e + Z.pos e) by lia.
    rewrite Z.pow_add_r by lia. rewrite <- Z.mul_mod by lia. reflexivity.
  - now rewrite Z.pow_1_r.
Qed.

Lemma powmod_spec : forall a e m, 0 <= e -> 0 < m -> powmod a e m = (a ^ e) mod m.
Proof.
  intros a [|p|p] m He Hm; cbn [powmod].
  - now rewrite Z.pow_0_r.
  - now apply powmod_pos_spec.
  - lia.
Qed.

Lemma powmod_range a e m : 0 < m -> 0 <= powmod a e m < m.
Proof.
  intros Hm. destruct e as [|p|p]; cbn [powmod].
  - apply Z.mod_pos_bound; lia.
  - rewrite powmod_pos_spec by lia. apply Z.mod_pos_bound; lia.
  - lia.
Qed.

Lemma powmod_mod a e m : 0 < m -> powmod (a mod m) e m = powmod a e m.
Proof.
  intros Hm. destruct e as [|p|p]; cbn [powmod]; auto.
  rewrite !powmod_pos_spec by lia. symmetry. apply Zpower_mod. lia.
Qed.

(* ---------- extended Euclid ---------- *)

Lemma egcd_bezout : forall fuel a b, let '(g, x, y) := egcd fuel a b in a * x + b * y = g.
Proof.
  induction fuel as [|k IH]; intros a b; cbn [egcd].
  - ring.
  - destruct (b =? 0) eqn:E.
    + ring.
    + apply Z.eqb_neq in E. specialize (IH b (a mod b)).
      destruct (egcd k b (a mod b)) as [[g x] y].
      pose proof (Z.div_mod a b E). rewrite <- IH.
      rewrite H at 1. ring.
Qed.

Lemma egcd_gcd : forall n fuel a b,
  0 <= a -> 0 <= b < 2 ^ Z.of_nat n -> (2 * n + 1 <= fuel)%nat ->
  fst (fst (egcd fuel a b)) = Z.gcd a b.
Proof.
  induction n as [|n IH]; intros fuel a b Ha Hb Hf.
  - assert (b = 0) by (cbn in Hb; lia). subst b.
    destruct fuel as [|k]; [lia|]. cbn [egcd]. rewrite Z.eqb_refl. cbn [fst].
    rewrite Z.gcd_0_r. lia.
  - destruct fuel as [|k]; [lia|]. cbn [egcd].
    destruct (b =? 0) eqn:E.
    + apply Z.eqb_eq in E. subst b. cbn [fst]. rewrite Z.gcd_0_r. lia.
    + apply Z.eqb_neq in E.
      assert (Hr : 0 <= a mod b < b) by (apply Z.mod_pos_bound; lia).
      set (r := a mod b) in *.
      assert (G1 : Z.gcd a b = Z.gcd b r).
      { unfold r. rewrite (Z.gcd_comm b), Z.gcd_mod by lia. apply Z.gcd_comm. }
      transitivity (fst (fst (egcd k b r))).
      { destruct (egcd k b r) as [[g x] y]. reflexivity. }
      destruct k as [|k]; [lia|]. cbn [egcd].
      destruct (r =? 0) eqn:E2.
      * apply Z.eqb_eq in E2. cbn [fst]. rewrite G1, E2, Z.gcd_0_r. lia.
      * apply Z.eqb_neq in E2.
        assert (Hs : 0 <= b mod r < r) by (apply Z.mod_pos_bound; lia).
        transitivity (fst (fst (egcd k r (b mod r)))).
        { destruct (egcd k r (b mod r)) as [[g x] y]. reflexivity. }
        rewrite IH; try lia.
        -- rewrite G1. rewrite (Z.gcd_comm r), Z.gcd_mod by lia. apply Z.gcd_comm.
        -- split; [lia|].
           rewrite Nat2Z.inj_succ, Z.pow_succ_r in Hb by lia.
           pose proof (Z.div_mod b r E2).
           assert (1 <= b / r) by (apply Z.div_le_lower_bound; lia).
           nia.
Qed.

Lemma egcd_fuel_ok n a : 0 <= a -> 0 < n ->
  fst (fst (egcd (egcd_fuel n) a n)) = Z.gcd a n.
Proof.
  intros Ha Hn. apply (egcd_gcd (size_nat (Z.abs n))); try lia.
  - split; [lia|]. rewrite Z.abs_eq by lia. destruct n; try lia. cbn [size_nat].
    apply pos_size_nat_bound.
  - unfold egcd_fuel. lia.
Qed.

(* ---------- modinv ---------- *)

Lemma modinv_sound : forall g n x, 0 < n -> modinv g n = Some x ->
  (g * x) mod n = 1 mod n /\ 0 <= x < n.
Proof.
  intros g n x Hn. unfold modinv.
  pose proof (egcd_bezout (egcd_fuel n) (g mod n) n) as B.
  destruct (egcd (egcd_fuel n) (g mod n) n) as [[d u] v].
  destruct (d =? 1) eqn:E; [|discriminate].
  apply Z.eqb_eq in E. subst d. intros H. injection H as <-.
  split; [|apply Z.mod_pos_bound; lia].
  rewrite Zmult_mod_idemp_r. rewrite <- Zmult_mod_idemp_l.
  replace (g mod n * u) with (1 + (- v) * n) by lia.
  now rewrite Z_mod_plus_full.
Qed.

(* ---------- eqm ---------- *)

Lemma eqm_refl q a : eqm q a a.
Proof. reflexivity. Qed.
Lemma eqm_sym q a b : eqm q a b -> eqm q b a.
Proof. unfold eqm; intros; congruence. Qed.
Lemma eqm_trans q a b c : eqm q a b -> eqm q b c -> eqm q a c.
Proof. unfold eqm; intros; congruence. Qed.

Add Parametric Relation (q : Z) : Z (eqm q)
  reflexivity proved by (eqm_refl q)
  symmetry proved by (eqm_sym q)
  transitivity proved by (eqm_trans q) as eqm_rel.

Lemma eqm_add q a a' b b' : eqm q a a' -> eqm q b b' -> eqm q (a + b) (a' + b').
Proof.
  unfold eqm; intros H1 H2. destruct (Z.eq_dec q 0) as [->|Hq].
  - rewrite !Zmod_0_r in *. congruence.
  - rewrite (Z.add_mod a b), (Z.add_mod a' b'), H1, H2; auto.
Qed.

Lemma eqm_mul q a a' b b' : eqm q a a' -> eqm q b b' -> eqm q (a * b) (a' * b').
Proof.
  unfold eqm; intros H1 H2. destruct (Z.eq_dec q 0) as [->|Hq].
  - rewrite !Zmod_0_r in *. congruence.
  - rewrite (Z.mul_mod a b), (Z.mul_mod a' b'), H1, H2; auto.
Qed.

Lemma eqm_opp q a a' : eqm q a a' -> eqm q (- a) (- a').
Proof.
  intros H. replace (- a) with ((-1) * a) by ring. replace (- a') with ((-1) * a') by ring.
  apply eqm_mul; [reflexivity|assumption].
Qed.

Lemma eqm_sub q a a' b b' : eqm q a a' -> eqm q b b' -> eqm q (a - b) (a' - b').
Proof.
  intros H1 H2. unfold Z.sub. apply eqm_add; [assumption|now apply eqm_opp].
Qed.

Add Parametric Morphism (q : Z) : Z.add with signature eqm q ==> eqm q ==> eqm q as eqm_add_mor.
Proof. intros; now apply eqm_add. Qed.
Add Parametric Morphism (q : Z) : Z.mul with signature eqm q ==> eqm q ==> eqm q as eqm_mul_mor.
Proof. intros; now apply eqm_mul. Qed.
Add Parametric Morphism (q : Z) : Z.sub with signature eqm q ==> eqm q ==> eqm q as eqm_sub_mor.
Proof. intros; now apply eqm_sub. Qed.
Add Parametric Morphism (q : Z) : Z.opp with signature eqm q ==> eqm q as eqm_opp_mor.
Proof. intros; now apply eqm_opp. Qed.

Lemma eqm_mod q a : eqm q (a mod q) a.
Proof.
  unfold eqm. destruct (Z.eq_dec q 0) as [->|Hq].
  - now rewrite !Zmod_0_r.
  - now apply Z.mod_mod.
Qed.

Lemma eqm_of_eq q a b : a = b -> eqm q a b.
Proof. intros ->; reflexivity. Qed.

Lemma eqm_0_iff q a : eqm q a 0 <-> a mod q = 0.
Proof. unfold eqm. rewrite Zmod_0_l. tauto. Qed.

Lemma eqm_sub_0 q a b : eqm q (a - b) 0 <-> eqm q a b.
Proof.
  split; intros H.
  - replace a with ((a - b) + b) by ring. rewrite H. apply eqm_of_eq; ring.
  - rewrite H. apply eqm_of_eq; ring.
Qed.

Lemma mod_sub_0 q a b : (a - b) mod q = 0 <-> a mod q = b mod q.
Proof. rewrite <- eqm_0_iff. apply eqm_sub_0. Qed.

Lemma eqm_small q a b : 0 <= a < q -> 0 <= b < q -> eqm q a b -> a = b.
Proof. unfold eqm; intros Ha Hb H. rewrite !Z.mod_small in H; auto. Qed.

(* ---------- inverse modulo a prime ---------- *)

Lemma prime_gt_1 q : prime q -> 1 < q.
Proof. now intros []. Qed.

Lemma inv_prime_spec : forall q a, prime q -> a mod q <> 0 -> (a * inv_prime q a) mod q = 1.
Proof.
  intros q a Hq Ha. pose proof (prime_gt_1 q Hq) as H1.
  unfold inv_prime. rewrite powmod_spec by lia.
  rewrite Z.mul_mod_idemp_r by lia.
  replace (a * a ^ (q - 2)) with (a ^ (q - 1)).
  - now apply Zfermat_little.
  - replace (q - 1) with (Z.succ (q - 2)) by lia. rewrite Z.pow_succ_r by lia. reflexivity.
Qed.

Lemma inv_prime_range : forall q a, 1 < q -> 0 <= inv_prime q a < q.
Proof. intros q a Hq. unfold inv_prime. apply powmod_range. lia. Qed.

Lemma inv_prime_mod q a : 0 < q -> inv_prime q (a mod q) = inv_prime q a.
Proof. intros Hq. unfold inv_prime. now apply powmod_mod. Qed.

Lemma eqm_inv q a : prime q -> a mod q <> 0 -> eqm q (a * inv_prime q a) 1.
Proof.
  intros Hq Ha. unfold eqm. rewrite inv_prime_spec by assumption.
  pose proof (prime_gt_1 q Hq). symmetry. apply Z.mod_small. lia.
Qed.

Lemma eqm_mul_cancel_l q a b c :
  prime q -> a mod q <> 0 -> eqm q (a * b) (a * c) -> eqm q b c.
Proof.
  intros Hq Ha H.
  assert (E : forall z, eqm q z (inv_prime q a * (a * z))).
  { intros z. replace (inv_prime q a * (a * z)) with ((a * inv_prime q a) * z) by ring.
    rewrite (eqm_inv q a Hq Ha). apply eqm_of_eq; ring. }
  rewrite (E b), (E c), H. reflexivity.
Qed.

Lemma eqm_mul_0 q a b :
  prime q -> a mod q <> 0 -> eqm q (a * b) 0 -> eqm q b 0.
Proof.
  intros Hq Ha H. apply (eqm_mul_cancel_l q a); auto. rewrite H. apply eqm_of_eq; ring.
Qed.

Lemma eqm_inv_unique q a x y :
  prime q -> a mod q <> 0 -> eqm q (a * x) 1 -> eqm q (a * y) 1 -> eqm q x y.
Proof.
  intros Hq Ha Hx Hy. apply (eqm_mul_cancel_l q a); auto. now rewrite Hx, Hy.
Qed.

Lemma modinv_prime_eq : forall q a, prime q -> a mod q <> 0 -> modinv a q = Some (inv_prime q a).
Proof.
  intros q a Hq Ha. pose proof (prime_gt_1 q Hq) as H1.
  assert (Hr : 0 <= a mod q < q) by (apply Z.mod_pos_bound; lia).
  assert (G : Z.gcd (a mod q) q = 1).
  { apply Zgcd_1_rel_prime. apply rel_prime_sym. apply prime_rel_prime; auto.
    intros D. apply Ha. apply Z.mod_divide in D; [|lia]. now rewrite Z.mod_mod in D by lia. }
  destruct (modinv a q) as [x|] eqn:E.
  - destruct (modinv_sound a q x ltac:(lia) E) as [S1 S2].
    f_equal. apply (eqm_small q); auto.
    + apply inv_prime_range; lia.
    + apply (eqm_inv_unique q a); [assumption|assumption|exact S1|now apply eqm_inv].
  - exfalso. unfold modinv in E.
    pose proof (egcd_fuel_ok q (a mod q) ltac:(lia) ltac:(lia)) as F.
    destruct (egcd (egcd_fuel q) (a mod q) q) as [[d u] v]. cbn [fst] in F.
    rewrite F, G in E. cbn in E. discriminate.
Qed.

Print Assumptions powmod_spec.
Print Assumptions egcd_bezout.
Print Assumptions modinv_sound.
Print Assumptions inv_prime_spec.
Print Assumptions inv_prime_range.
Print Assumptions modinv_prime_eq.
Print Assumptions eqm_mul_cancel_l.
