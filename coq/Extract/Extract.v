(* The only file with extraction directives.  Compiled by ./check in build/extract. *)
From Coq Require Import Extraction ExtrOcamlBasic ExtrOcamlZBigInt.
From TSS Require Import Base.Outcome Base.Bytes Base.ZMod Base.GoInt Model.Framing Model.Builder Model.Poly Model.Group Model.Curve Model.Paillier Model.Schnorr Model.MtA Model.ZKMod Model.Engine Model.SignAlg Model.CKD Model.KeyStore Model.SafePrime.
Extraction Language OCaml.
Extraction "model.ml"
  Framing.sha512_256 Framing.sha512_256i Framing.sha512_256i_tagged Framing.sha512_256i_one
  Framing.commit_with Framing.commit_verify_o Framing.decommit
  Bytes.be_value Builder.builder_secrets Builder.parse_secrets Builder.dln_unmarshal
  ZMod.powmod ZMod.modinv ZMod.go_exp GoInt.go_jacobi GoInt.non_empty_multi GoInt.non_empty_multi_any
  Poly.eval_poly Poly.reconstruct Poly.prepare_wi Poly.lagrange0
  Curve.secp256k1 Curve.ed25519 Curve.p256 Curve.on_curve Curve.new_ec_point Curve.pt_add Curve.pt_neg Curve.ec_smul Curve.ec_base_mul Curve.ec_add
  Curve.unflatten Curve.flatten Curve.eight_inv_eight Curve.pt_on_curve Curve.base
  Paillier.encrypt Paillier.homo_mult Paillier.homo_add Paillier.decrypt Paillier.key_of_primes Paillier.primes_far_apart
  Paillier.generate_xs Paillier.pai_prove Paillier.pai_verify
  Schnorr.zk_prove Schnorr.zk_verify Schnorr.zkv_prove Schnorr.zkv_verify
  Schnorr.check_indexes Schnorr.vss_create Schnorr.vss_verify Schnorr.vss_reconstruct
  MtA.alice_prove MtA.alice_verify MtA.bob_prove MtA.bob_verify MtA.alice_init MtA.bob_mid MtA.alice_end
  ZKMod.fac_prove ZKMod.fac_verify ZKMod.mod_prove ZKMod.mod_verify ZKMod.dln_prove ZKMod.dln_verify
  CKD.derive_child CKD.derive_hierarchy CKD.xkey_string SignAlg.ecdsa_sign SignAlg.ecdsa_finalize SignAlg.ecdsa_verify SignAlg.recover SignAlg.eddsa_sign SignAlg.kg_shares SignAlg.kg_pub SignAlg.kg_bigx SignAlg.kg_secret SignAlg.reshare_polys SignAlg.rs_shares SignAlg.sign_weights
  SafePrime.rand_int SafePrime.must_rand_int SafePrime.get_random_positive_int SafePrime.get_random_rel_prime SafePrime.get_random_qr_generator SafePrime.get_random_qnr SafePrime.safe_primes SafePrime.draw_preparams SafePrime.gen_ntildei SafePrime.mask_q
  KeyStore.krun KeyStore.load KeyStore.save
  Engine.init_state Engine.start Engine.deliver Engine.waiting Engine.finished Engine.running.
