(* The only file with extraction directives.  Compiled by ./check in build/extract. *)
From Coq Require Import Extraction ExtrOcamlBasic ExtrOcamlZBigInt.
From TSS Require Import Base.Outcome Base.Bytes Model.Framing Model.Builder.
Extraction Language OCaml.
Extraction "model.ml"
  Framing.sha512_256 Framing.sha512_256i Framing.sha512_256i_tagged Framing.sha512_256i_one
  Framing.commit_with Framing.commit_verify_o Framing.decommit
  Builder.builder_secrets Builder.parse_secrets.
