(* C16 — commitments bind; hash inputs are framed unambiguously.
   Only property theorems, each closed by [exact], each followed by Print Assumptions. *)
From Coq Require Import ZArith List.
From TSS Require Import Base.Outcome Base.Bytes Model.Framing Model.Builder
  Proofs.BytesProofs Proofs.FramingProofs Proofs.BuilderProofs Gen.Consts.
Import ListNotations.
Open Scope Z_scope.

(* The framing (count prefix, '$' delimiter, 64-bit length suffix) is injective on
   sequences of byte strings: different count, split points or bytes give a
   different hash pre-image. *)
Theorem C16_frame_injective : forall xs ys,
  all_small xs -> all_small ys -> frame xs = frame ys -> xs = ys.
Proof. exact frame_inj. Qed.
Print Assumptions C16_frame_injective.

Theorem C16_frame_ints_injective : forall xs ys,
  ints_ok xs -> ints_ok ys -> frame_ints xs = frame_ints ys -> xs = ys.
Proof. exact frame_ints_inj. Qed.
Print Assumptions C16_frame_ints_injective.

(* For EVERY hash function H with 32-byte outputs: equal digests mean equal
   input sequences or an explicit collision of H on two distinct pre-images. *)
Theorem C16_sha512_256_collision_or_equal :
  forall (H : list Z -> list Z) xs ys, xs <> [] -> ys <> [] -> all_small xs -> all_small ys ->
  sha512_256 H xs = sha512_256 H ys -> xs = ys \/ collision H.
Proof. exact sha512_256_collision_or_equal. Qed.
Print Assumptions C16_sha512_256_collision_or_equal.

Theorem C16_sha512_256i_collision_or_equal :
  forall (H : list Z -> list Z),
  (forall x, length (H x) = 32%nat) -> (forall x, Forall is_byte (H x)) ->
  forall xs ys, xs <> [] -> ys <> [] -> ints_ok xs -> ints_ok ys ->
  sha512_256i H xs = sha512_256i H ys -> xs = ys \/ collision H.
Proof. exact sha512_256i_collision_or_equal. Qed.
Print Assumptions C16_sha512_256i_collision_or_equal.

(* different tag or different inputs => different digest (or explicit collision) *)
Theorem C16_tagged_collision_or_equal :
  forall (H : list Z -> list Z),
  (forall x, length (H x) = 32%nat) -> (forall x, Forall is_byte (H x)) ->
  forall tag tag' xs ys, xs <> [] -> ys <> [] -> small tag -> small tag' -> ints_ok xs -> ints_ok ys ->
  sha512_256i_tagged H tag xs = sha512_256i_tagged H tag' ys ->
  (tag = tag' /\ xs = ys) \/ collision H.
Proof. exact tagged_collision_or_equal. Qed.
Print Assumptions C16_tagged_collision_or_equal.

(* binding: two openings of one commitment are the same sequence (changing,
   adding, removing or re-grouping any element is a different sequence) *)
Theorem C16_commit_binding :
  forall (H : list Z -> list Z),
  (forall x, length (H x) = 32%nat) -> (forall x, Forall is_byte (H x)) ->
  forall c d d', ints_ok d -> ints_ok d' ->
  commit_verify H c d = true -> commit_verify H c d' = true -> d = d' \/ collision H.
Proof. exact commit_binding. Qed.
Print Assumptions C16_commit_binding.

Theorem C16_commit_opens :
  forall (H : list Z -> list Z) r secrets,
  let '(c, d) := commit_with H r secrets in
  commit_verify H c d = true /\ decommit H c d = Ok (Some secrets).
Proof. exact commit_opens. Qed.
Print Assumptions C16_commit_opens.

(* the multi-part parser returns (a value or an error) on every input *)
Theorem C16_parse_total : forall secrets,
  parse_secrets secrets <> Panic /\ parse_secrets secrets <> Diverge.
Proof. exact parse_total. Qed.
Print Assumptions C16_parse_total.

(* source tie: the model's constants are the ones in /repo today *)
Example C16_consts_tied :
  Builder.PartsCap = crypto_commitments__PartsCap /\
  Builder.MaxPartSize = crypto_commitments__MaxPartSize /\
  Framing.delimiter = common__hashInputDelimiter.
Proof. repeat split; reflexivity. Qed.

(* non-vacuity: the hypotheses are met by concrete non-trivial inputs *)
Example C16_nonvacuous :
  all_small [[1; 36]; []; [0; 255]] /\ ints_ok [0; 1; 65536] /\
  frame [[1]; [2]] <> frame [[1; 2]] /\ parse_secrets [1; 5; 2; 6; 7] = Ok [[5]; [6; 7]].
Proof.
  repeat split; try (repeat constructor; unfold small, zlength, two64; cbn; try reflexivity; try (intro; discriminate)).
  all: try (vm_compute; intuition discriminate).
Qed.

(* the multi-part packing round-trips within the caps (two or more elements), and never returns more than 3 parts *)
Theorem C16_builder_roundtrip : forall parts secrets,
  builder_secrets parts = Ok secrets -> (2 <= length secrets)%nat -> parse_secrets secrets = Ok parts.
Proof. exact builder_roundtrip. Qed.
Print Assumptions C16_builder_roundtrip.

Theorem C16_parse_rejects_long : forall secrets parts,
  parse_secrets secrets = Ok parts -> zlength parts <= PartsCap.
Proof. exact parse_rejects_long. Qed.
Print Assumptions C16_parse_rejects_long.
