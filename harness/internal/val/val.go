// Package val is the canonical value syntax shared by the Go harness and the
// OCaml model driver: decimal integers, #hex byte strings, [lists], atoms.
package val

import (
	"encoding/hex"
	"fmt"
	"math/big"
	"strings"
)

type V interface{ String() string }

type Int struct{ X *big.Int }
type Bytes []byte
type List []V
type Atom string

func (i Int) String() string {
	if i.X == nil {
		return "nil"
	}
	return i.X.String()
}
func (b Bytes) String() string { return "#" + hex.EncodeToString(b) }
func (a Atom) String() string  { return string(a) }
func (l List) String() string {
	var sb strings.Builder
	sb.WriteByte('[')
	for i, v := range l {
		if i > 0 {
			sb.WriteByte(' ')
		}
		sb.WriteString(v.String())
	}
	sb.WriteByte(']')
	return sb.String()
}

func I(x *big.Int) V { return Int{x} }
func I64(x int64) V  { return Int{big.NewInt(x)} }
func B(b []byte) V   { return Bytes(b) }
func A(s string) V   { return Atom(s) }
func L(vs ...V) V    { return List(vs) }
func Bool(b bool) V {
	if b {
		return Atom("true")
	}
	return Atom("false")
}
func Ints(xs []*big.Int) V {
	l := make(List, len(xs))
	for i, x := range xs {
		l[i] = Int{x}
	}
	return l
}
func BytesList(xs [][]byte) V {
	l := make(List, len(xs))
	for i, x := range xs {
		l[i] = Bytes(x)
	}
	return l
}
func Ok(v V) V { return List{Atom("Ok"), v} }

var (
	Err     = Atom("Err")
	Panic   = Atom("Panic")
	Diverge = Atom("Diverge")
	None    = Atom("None")
)

func Some(v V) V { return List{Atom("Some"), v} }

// ---- parsing ----

type parser struct {
	s string
	p int
}

func (p *parser) ws() {
	for p.p < len(p.s) && (p.s[p.p] == ' ' || p.s[p.p] == '\t') {
		p.p++
	}
}

func (p *parser) value() (V, error) {
	p.ws()
	if p.p >= len(p.s) {
		return nil, fmt.Errorf("unexpected end")
	}
	c := p.s[p.p]
	switch {
	case c == '[':
		p.p++
		var l List = List{}
		for {
			p.ws()
			if p.p >= len(p.s) {
				return nil, fmt.Errorf("unterminated list")
			}
			if p.s[p.p] == ']' {
				p.p++
				return l, nil
			}
			v, err := p.value()
			if err != nil {
				return nil, err
			}
			l = append(l, v)
		}
	case c == '#':
		p.p++
		st := p.p
		for p.p < len(p.s) && isHex(p.s[p.p]) {
			p.p++
		}
		b, err := hex.DecodeString(p.s[st:p.p])
		if err != nil {
			return nil, err
		}
		return Bytes(b), nil
	case c == '-' || (c >= '0' && c <= '9'):
		st := p.p
		p.p++
		for p.p < len(p.s) && p.s[p.p] >= '0' && p.s[p.p] <= '9' {
			p.p++
		}
		x, ok := new(big.Int).SetString(p.s[st:p.p], 10)
		if !ok {
			return nil, fmt.Errorf("bad int %q", p.s[st:p.p])
		}
		return Int{x}, nil
	default:
		st := p.p
		for p.p < len(p.s) && p.s[p.p] != ' ' && p.s[p.p] != ']' && p.s[p.p] != '[' {
			p.p++
		}
		if st == p.p {
			return nil, fmt.Errorf("bad char %q", c)
		}
		return Atom(p.s[st:p.p]), nil
	}
}

func isHex(c byte) bool {
	return (c >= '0' && c <= '9') || (c >= 'a' && c <= 'f') || (c >= 'A' && c <= 'F')
}

// ParseAll parses a whitespace separated sequence of values.
func ParseAll(s string) ([]V, error) {
	p := &parser{s: s}
	var out []V
	for {
		p.ws()
		if p.p >= len(p.s) {
			return out, nil
		}
		v, err := p.value()
		if err != nil {
			return nil, err
		}
		out = append(out, v)
	}
}

// accessors (panic on shape errors: the caller recovers and reports a bad case)
func AsInt(v V) *big.Int { return v.(Int).X }
func AsBytes(v V) []byte { return []byte(v.(Bytes)) }
func AsList(v V) List    { return v.(List) }
func AsAtom(v V) string  { return string(v.(Atom)) }
func AsInt64(v V) int64  { return v.(Int).X.Int64() }
func AsBool(v V) bool    { return string(v.(Atom)) == "true" }
func AsInts(v V) []*big.Int {
	l := v.(List)
	out := make([]*big.Int, len(l))
	for i, e := range l {
		out[i] = e.(Int).X
	}
	return out
}
func AsBytesList(v V) [][]byte {
	l := v.(List)
	out := make([][]byte, len(l))
	for i, e := range l {
		out[i] = []byte(e.(Bytes))
	}
	return out
}
