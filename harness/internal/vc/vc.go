// Package vc is the harness core: an operation registry (the implementation
// side of the correspondence), case recording, direct-oracle violations and the
// per-run summary consumed by /verif/check.
package vc

import (
	"bufio"
	"crypto/sha256"
	"encoding/json"
	"fmt"
	"math/rand"
	"os"
	"path/filepath"
	"runtime/debug"
	"sort"
	"strings"
	"time"

	"verif/harness/internal/val"
)

type OpFunc func(args []val.V) val.V

var Ops = map[string]OpFunc{}

// OpTimeout can be overridden per op name.
var OpTimeout = map[string]time.Duration{}

const DefaultTimeout = 10 * time.Second

func Register(name string, f OpFunc) { Ops[name] = f }

// Exec runs one operation on the implementation, turning a panic into the
// value Panic and a timeout into Diverge.
func Exec(op string, args []val.V) (res val.V, detail string) {
	f, ok := Ops[op]
	if !ok {
		return val.A("UnknownOp"), ""
	}
	to := DefaultTimeout
	if t, ok := OpTimeout[op]; ok {
		to = t
	}
	type out struct {
		v val.V
		d string
	}
	ch := make(chan out, 1)
	go func() {
		defer func() {
			if e := recover(); e != nil {
				st := string(debug.Stack())
				ch <- out{val.Panic, fmt.Sprintf("%v\n%s", e, st)}
			}
		}()
		ch <- out{f(args), ""}
	}()
	select {
	case o := <-ch:
		return o.v, o.d
	case <-time.After(to):
		return val.Diverge, "timeout after " + to.String()
	}
}

type Violation struct {
	Key   string   `json:"key"`   // canonical signature, matched against known_findings.json
	What  string   `json:"what"`  // human description
	Cases []string `json:"cases"` // case lines (op args...) that replay it
	Extra string   `json:"extra,omitempty"`
}

type Run struct {
	Prop string
	Tier string
	Seed int64
	Rng  *rand.Rand
	Dir  string

	casesF, implF *bufio.Writer
	cf, imf       *os.File
	n             int
	distinct      map[[32]byte]bool
	nontrivial    int
	Dist          map[string]int
	Samples       []string
	Viol          []Violation
	Notes         []string
	Rule          string
	start         time.Time
}

func NewRun(prop, tier string, seed int64, dir string) *Run {
	_ = os.MkdirAll(dir, 0o755)
	cf, err := os.Create(filepath.Join(dir, "cases.txt"))
	if err != nil {
		panic(err)
	}
	imf, err := os.Create(filepath.Join(dir, "impl.txt"))
	if err != nil {
		panic(err)
	}
	return &Run{Prop: prop, Tier: tier, Seed: seed, Rng: rand.New(rand.NewSource(seed)), Dir: dir,
		cf: cf, imf: imf, casesF: bufio.NewWriterSize(cf, 1<<20), implF: bufio.NewWriterSize(imf, 1<<20),
		distinct: map[[32]byte]bool{}, Dist: map[string]int{}, start: time.Now()}
}

func (r *Run) Thorough() bool { return r.Tier == "thorough" }

// Pick returns q in the quick tier and t in the thorough tier.
func (r *Run) Pick(q, t int) int {
	if r.Thorough() {
		return t
	}
	return q
}

func Line(op string, args []val.V) string {
	parts := make([]string, 0, len(args)+1)
	parts = append(parts, op)
	for _, a := range args {
		parts = append(parts, a.String())
	}
	return strings.Join(parts, " ")
}

// Case executes op(args) on the implementation, records the case for the model
// and returns the observation. class is a distribution label; nontrivial says
// whether the case counts as non-trivial under the property's rule.
func (r *Run) Case(class string, nontrivial bool, op string, args ...val.V) val.V {
	obs, _ := Exec(op, args)
	r.Record(class, nontrivial, op, args, obs)
	return obs
}

// Record stores an already executed case.
func (r *Run) Record(class string, nontrivial bool, op string, args []val.V, obs val.V) {
	line := Line(op, args)
	h := sha256.Sum256([]byte(line))
	r.n++
	id := fmt.Sprintf("c%d", r.n)
	fmt.Fprintf(r.casesF, "%s %s\n", id, line)
	fmt.Fprintf(r.implF, "%s %s\n", id, obs.String())
	if !r.distinct[h] {
		r.distinct[h] = true
		if nontrivial {
			r.nontrivial++
		}
	}
	r.Dist[class]++
	if len(r.Samples) < 6 && (r.n%97 == 1 || len(r.Samples) < 2) {
		s := line + " => " + obs.String()
		if len(s) > 600 {
			s = s[:600] + "..."
		}
		r.Samples = append(r.Samples, s)
	}
}

// CountCase records a case that has no model-side counterpart (direct-oracle-only).
func (r *Run) CountCase(line string, nontrivial bool, sample string) {
	h := sha256.Sum256([]byte(line))
	r.n++
	if !r.distinct[h] {
		r.distinct[h] = true
		if nontrivial {
			r.nontrivial++
		}
	}
	if len(r.Samples) < 6 && (r.n%53 == 1 || len(r.Samples) < 2) {
		if len(sample) > 500 {
			sample = sample[:500] + "..."
		}
		r.Samples = append(r.Samples, sample)
	}
}

func (r *Run) Violate(key, what string, cases ...string) {
	for _, v := range r.Viol {
		if v.Key == key {
			return // one replay per key is enough
		}
	}
	r.Viol = append(r.Viol, Violation{Key: key, What: what, Cases: cases})
}

func (r *Run) Note(f string, a ...interface{}) { r.Notes = append(r.Notes, fmt.Sprintf(f, a...)) }

func (r *Run) Finish() {
	r.casesF.Flush()
	r.implF.Flush()
	r.cf.Close()
	r.imf.Close()
	keys := make([]string, 0, len(r.Dist))
	for k := range r.Dist {
		keys = append(keys, k)
	}
	sort.Strings(keys)
	sum := map[string]interface{}{
		"property_id":         r.Prop,
		"tier":                r.Tier,
		"seed":                r.Seed,
		"evaluations":         r.n,
		"distinct":            len(r.distinct),
		"distinct_nontrivial": r.nontrivial,
		"distribution":        r.Dist,
		"samples":             r.Samples,
		"violations":          r.Viol,
		"notes":               r.Notes,
		"rule":                r.Rule,
		"harness_wall_s":      time.Since(r.start).Seconds(),
	}
	b, _ := json.MarshalIndent(sum, "", " ")
	if err := os.WriteFile(filepath.Join(r.Dir, "summary.json"), b, 0o644); err != nil {
		panic(err)
	}
}
