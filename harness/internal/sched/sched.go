// Package sched is a deterministic single-threaded network for tss-lib parties:
// the harness owns every delivery decision, and after every single event it
// records the party's round, WaitingFor(), the messages it emitted (type,
// routing) and how many results it has produced.
package sched

import (
	"fmt"
	"math/rand"
	"reflect"
	"regexp"
	"sort"
	"strconv"
	"strings"

	"github.com/bnb-chain/tss-lib/v2/tss"
)

type Node struct {
	Name     string // N0, O1 ...
	Comm     byte   // 'O' old committee, 'N' new (or only) committee
	Idx      int
	PID      *tss.PartyID
	Party    tss.Party
	Out      chan tss.Message
	Results  func() int // total number of values received on the end channel so far
	Started  bool
	Events   []string // per-node event log in model syntax
	Obs      []string // per-event observations in model syntax
	Emitted  []string // all emitted descriptors (for cross-schedule comparison)
	Errs     []string
	Culprits [][]string // per reported error: the node names of the culprits
	Silent   bool       // a silenced node: its emissions are dropped
}

type Copy struct {
	From  *Node
	To    *Node
	Wire  []byte
	Bcast bool
	Type  string
	TyIdx int
	Seq   int
	Dup   bool
	Msg   tss.ParsedMessage
}

type Net struct {
	Proto   string
	Label   string   // optional description of this run (configuration, seed) for crash attribution
	Types   []string // message type names in table order
	Old     []*Node
	New     []*Node
	Pending []*Copy
	Log     []string // global event log
	seq     int
	Rng     *rand.Rand
	// hooks
	Tamper func(c *Copy) // may rewrite c.Wire / c.Bcast before delivery
	OnStep func(n *Node) // called after every event on n
}

func (net *Net) Nodes() []*Node { return append(append([]*Node{}, net.Old...), net.New...) }

func (net *Net) tyIdx(name string) int {
	for i, t := range net.Types {
		if t == name {
			return i
		}
	}
	return -1
}

var roundRe = regexp.MustCompile(`round: (\d+)`)

func RoundOf(p tss.Party) int {
	if !p.Running() {
		return 0
	}
	m := roundRe.FindStringSubmatch(p.String())
	if m == nil {
		return 0
	}
	r, _ := strconv.Atoi(m[1])
	return r
}

func (net *Net) nodeOf(pid *tss.PartyID, comm byte) *Node {
	list := net.New
	if comm == 'O' {
		list = net.Old
	}
	for _, n := range list {
		if n.PID.KeyInt().Cmp(pid.KeyInt()) == 0 {
			return n
		}
	}
	return nil
}

func (net *Net) waitingOf(n *Node) string {
	var ws []string
	for _, pid := range n.Party.WaitingFor() {
		if m := net.nodeOf(pid, 'O'); m != nil && len(net.Old) > 0 {
			ws = append(ws, fmt.Sprintf("aO%03d", m.Idx))
			continue
		}
		if m := net.nodeOf(pid, 'N'); m != nil {
			ws = append(ws, fmt.Sprintf("bN%03d", m.Idx))
		}
	}
	sort.Strings(ws)
	out := make([]string, len(ws))
	for i, w := range ws {
		j, _ := strconv.Atoi(w[2:])
		out[i] = fmt.Sprintf("[%c %d]", w[1], j)
	}
	return "[" + strings.Join(out, " ") + "]"
}

// collect drains n's out channel, creates the copies and returns the emission descriptors.
func (net *Net) collect(n *Node) []string {
	var descs []string
	for {
		select {
		case m := <-n.Out:
			pm := m.(tss.ParsedMessage)
			tname := reflect.TypeOf(pm.Content()).Elem().Name()
			ti := net.tyIdx(tname)
			wire, _, err := m.WireBytes()
			if err != nil {
				n.Errs = append(n.Errs, "WireBytes: "+err.Error())
				continue
			}
			var dests []*Node
			to := m.GetTo()
			if len(net.Old) == 0 {
				if to == nil {
					for _, d := range net.New {
						if d != n {
							dests = append(dests, d)
						}
					}
				} else {
					for _, pid := range to {
						if d := net.nodeOf(pid, 'N'); d != nil {
							dests = append(dests, d)
						}
					}
				}
			} else {
				// resharing: the committee flags select the committee(s), To lists the members
				if to == nil {
					n.Errs = append(n.Errs, "resharing message with nil destination: "+tname)
				}
				if m.IsToOldCommittee() || m.IsToOldAndNewCommittees() {
					for _, pid := range to {
						if d := net.nodeOf(pid, 'O'); d != nil && d != n {
							dests = append(dests, d)
						}
					}
				}
				if !m.IsToOldCommittee() || m.IsToOldAndNewCommittees() {
					for _, pid := range to {
						if d := net.nodeOf(pid, 'N'); d != nil && d != n {
							dests = append(dests, d)
						}
					}
				}
			}
			if m.IsBroadcast() {
				descs = append(descs, fmt.Sprintf("[%d true %v %v]", ti, m.IsToOldCommittee(), m.IsToOldAndNewCommittees()))
			} else {
				for _, d := range dests {
					descs = append(descs, fmt.Sprintf("[%d false %c %d]", ti, d.Comm, d.Idx))
				}
				if len(to) != 1 {
					n.Errs = append(n.Errs, fmt.Sprintf("point-to-point message %s has %d recipients", tname, len(to)))
				}
			}
			if n.Silent {
				continue
			}
			for _, d := range dests {
				net.seq++
				net.Pending = append(net.Pending, &Copy{From: n, To: d, Wire: wire, Bcast: m.IsBroadcast(), Type: tname, TyIdx: ti, Seq: net.seq, Msg: pm})
			}
		default:
			return descs
		}
	}
}

func (net *Net) observe(n *Node, ev string, descs []string) {
	n.Events = append(n.Events, ev)
	n.Emitted = append(n.Emitted, descs...)
	o := fmt.Sprintf("[%d %s [%s] %d]", RoundOf(n.Party), net.waitingOf(n), strings.Join(descs, " "), n.Results())
	n.Obs = append(n.Obs, o)
	net.Log = append(net.Log, n.Name+" "+ev+" => "+o)
	if net.OnStep != nil {
		net.OnStep(n)
	}
}

func (net *Net) StartNode(n *Node) {
	n.Started = true
	if err := n.Party.Start(); err != nil {
		n.Errs = append(n.Errs, "Start: "+err.Error())
	}
	net.observe(n, "s", net.collect(n))
}

// Deliver hands copy c to its recipient through UpdateFromBytes (wire encoding included).
func (net *Net) Deliver(c *Copy) (bool, *tss.Error) {
	if net.Tamper != nil {
		net.Tamper(c)
	}
	ok, err := c.To.Party.UpdateFromBytes(c.Wire, c.From.PID, c.Bcast)
	if err != nil {
		c.To.Errs = append(c.To.Errs, fmt.Sprintf("Update(%s from %s): %v culprits=%v", c.Type, c.From.Name, err.Cause(), err.Culprits()))
		var names []string
		for _, pid := range err.Culprits() {
			nm := "unknown:" + pid.String()
			for _, n := range net.Nodes() {
				if n.PID.KeyInt().Cmp(pid.KeyInt()) == 0 {
					nm = n.Name
					if len(net.Old) > 0 {
						// in resharing one key may exist in both committees; prefer the committee the index refers to
						if pid.Index == n.Idx {
							break
						}
						continue
					}
					break
				}
			}
			names = append(names, nm)
		}
		c.To.Culprits = append(c.To.Culprits, names)
	}
	net.observe(c.To, fmt.Sprintf("[%d %d %v]", c.TyIdx, c.From.Idx, c.Bcast), net.collect(c.To))
	return ok, err
}

// Strategy picks the next event: an index into pending copies, or -(k+1) to start the k-th unstarted node.
type Strategy func(net *Net, unstarted []*Node) int

// Inflight, when set, is told which run is about to execute (so that a panic in a library goroutine, which kills the
// process, can be attributed to a concrete run).
var Inflight func(desc string)

// FlipDefaultCurve: see Run.
var FlipDefaultCurve = true
var runCounter int

// Run executes events until nothing is enabled. maxEvents bounds runaway loops.
func (net *Net) Run(st Strategy, maxEvents int) {
	// the process-wide default curve (tss.SetCurve) must not matter to a protocol run whose parameters name their curve:
	// every other run is executed with the default set to the OTHER curve than the one the protocol uses
	runCounter++
	if FlipDefaultCurve {
		ed := strings.HasPrefix(net.Proto, "eddsa")
		if (runCounter%2 == 0) != ed {
			tss.SetCurve(tss.Edwards())
		} else {
			tss.SetCurve(tss.S256())
		}
		defer tss.SetCurve(tss.S256())
	}
	if Inflight != nil {
		d := net.Label
		if d == "" {
			d = fmt.Sprintf("%s run with %d old / %d new parties", net.Proto, len(net.Old), len(net.New))
		}
		Inflight(d)
	}
	for steps := 0; steps < maxEvents; steps++ {
		var un []*Node
		for _, n := range net.Nodes() {
			if !n.Started {
				un = append(un, n)
			}
		}
		if len(net.Pending) == 0 && len(un) == 0 {
			return
		}
		k := st(net, un)
		if k < 0 {
			net.StartNode(un[-k-1])
			continue
		}
		c := net.Pending[k]
		net.Pending = append(net.Pending[:k], net.Pending[k+1:]...)
		net.Deliver(c)
	}
}

// ---- strategies ----

// FIFO: start everyone first, then deliver in emission order.
func FIFO(net *Net, un []*Node) int {
	if len(un) > 0 {
		return -1
	}
	return 0
}

func LIFO(net *Net, un []*Node) int {
	if len(un) > 0 {
		return -len(un)
	}
	return len(net.Pending) - 1
}

func Random(net *Net, un []*Node) int {
	tot := len(un) + len(net.Pending)
	k := net.Rng.Intn(tot)
	if k < len(un) {
		return -k - 1
	}
	return k - len(un)
}

// Starve(v): messages to node v are delivered only when nothing else is enabled.
func Starve(victim string) Strategy {
	return func(net *Net, un []*Node) int {
		if len(un) > 0 {
			return -1
		}
		for i, c := range net.Pending {
			if c.To.Name != victim {
				return i
			}
		}
		return 0
	}
}

// HoldBack(tyIdx, from, to): one copy (the message of that type from `from` to `to`; to == "" holds every copy of that
// message) is delivered only when nothing else is deliverable: a slow link / a broadcast channel slower than the point-to-point one.
func HoldBack(tyIdx int, from, to string) Strategy {
	return func(net *Net, un []*Node) int {
		if len(un) > 0 {
			return -1
		}
		for i, c := range net.Pending {
			if !(c.TyIdx == tyIdx && c.From.Name == from && (to == "" || c.To.Name == to)) {
				return i
			}
		}
		return 0
	}
}

// LateStart(v): node v is started only when nothing else is enabled (its inbox fills before Start).
func LateStart(victim string) Strategy {
	return func(net *Net, un []*Node) int {
		for k, n := range un {
			if n.Name != victim {
				return -k - 1
			}
		}
		if len(net.Pending) > 0 {
			return net.Rng.Intn(len(net.Pending))
		}
		return -1
	}
}

// FutureFirst: prefer the pending copy with the highest type index (latest round).
func FutureFirst(net *Net, un []*Node) int {
	if len(un) > 0 {
		return -1
	}
	best := 0
	for i, c := range net.Pending {
		if c.TyIdx > net.Pending[best].TyIdx {
			best = i
		}
	}
	return best
}

// Scripted replays a fixed list of choices (used by the exhaustive enumeration); when the
// script is exhausted it records the branching factor and falls back to FIFO-like index 0.
type Script struct {
	Choices []int
	pos     int
	Widths  []int
}

func (s *Script) Strategy() Strategy {
	return func(net *Net, un []*Node) int {
		tot := len(un) + len(net.Pending)
		k := 0
		if s.pos < len(s.Choices) {
			k = s.Choices[s.pos]
		}
		s.pos++
		s.Widths = append(s.Widths, tot)
		if k >= tot {
			k = tot - 1
		}
		if k < len(un) {
			return -k - 1
		}
		return k - len(un)
	}
}
