package main

import (
	"crypto/ecdsa"
	"fmt"
	"math/big"

	"github.com/bnb-chain/tss-lib/v2/crypto/ckd"
	"github.com/bnb-chain/tss-lib/v2/ecdsa/keygen"
	"github.com/bnb-chain/tss-lib/v2/ecdsa/signing"
	"github.com/bnb-chain/tss-lib/v2/tss"
)

func main() {
	keys, _, err := keygen.LoadKeygenTestFixturesRandomSet(3, 5)
	if err != nil {
		panic(err)
	}
	cc := make([]byte, 32)
	pk := &ckd.ExtendedKey{PublicKey: ecdsa.PublicKey{Curve: tss.S256(), X: keys[0].ECDSAPub.X(), Y: keys[0].ECDSAPub.Y()}, ChainCode: cc, ParentFP: []byte{0, 0, 0, 0}, Version: []byte{4, 0x88, 0xad, 0xe4}}
	d, ch, err := ckd.DeriveChildKeyFromHierarchy([]uint32{}, pk, tss.S256().Params().N, tss.S256())
	fmt.Println("delta", d, "same key", ch.X.Cmp(pk.X) == 0, err)
	defer func() { fmt.Println("recovered:", recover()) }()
	err = signing.UpdatePublicKeyAndAdjustBigXj(d, keys, &ch.PublicKey, tss.S256())
	fmt.Println("update err", err)
	_ = big.NewInt
}
