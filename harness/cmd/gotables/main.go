// gotables: the translator. Reads /repo with go/ast only (no type checker, no
// network) and regenerates coq/Gen/*.v plus tables.txt. A shape it does not
// recognise is reported (exit status 1 and a line "UNRECOGNISED ...") and the
// affected generated definition is marked so that the dependent obligation fails.
package main

import (
	"fmt"
	"go/ast"
	"go/parser"
	"go/token"
	"os"
	"path/filepath"
	"sort"
	"strings"
)

type pkgFiles struct {
	dir   string
	name  string
	files map[string]*ast.File
}

var (
	fset    = token.NewFileSet()
	repo    string
	outDir  string
	unrecog []string
	pkgs    = map[string]*pkgFiles{} // key: relative dir
)

func unrecognised(f string, a ...interface{}) {
	unrecog = append(unrecog, fmt.Sprintf(f, a...))
}

func loadRepo() {
	_ = filepath.Walk(repo, func(p string, info os.FileInfo, err error) error {
		if err != nil {
			return nil
		}
		if info.IsDir() {
			if strings.HasPrefix(info.Name(), ".") && p != repo {
				return filepath.SkipDir
			}
			return nil
		}
		if !strings.HasSuffix(p, ".go") || strings.HasSuffix(p, "_test.go") || strings.HasSuffix(p, ".pb.go") {
			return nil
		}
		f, err := parser.ParseFile(fset, p, nil, parser.ParseComments)
		if err != nil {
			unrecognised("parse error %s: %v", p, err)
			return nil
		}
		// skip files guarded by the verif build tag (our own hooks)
		for _, cg := range f.Comments {
			for _, c := range cg.List {
				if strings.HasPrefix(c.Text, "//go:build") && strings.Contains(c.Text, "verif") {
					return nil
				}
			}
		}
		rel, _ := filepath.Rel(repo, filepath.Dir(p))
		pk := pkgs[rel]
		if pk == nil {
			pk = &pkgFiles{dir: rel, name: f.Name.Name, files: map[string]*ast.File{}}
			pkgs[rel] = pk
		}
		pk.files[filepath.Base(p)] = f
		return nil
	})
}

func sortedPkgs() []string {
	ks := make([]string, 0, len(pkgs))
	for k := range pkgs {
		ks = append(ks, k)
	}
	sort.Strings(ks)
	return ks
}

func sortedFiles(pk *pkgFiles) []string {
	ks := make([]string, 0, len(pk.files))
	for k := range pk.files {
		ks = append(ks, k)
	}
	sort.Strings(ks)
	return ks
}

func coqIdent(s string) string {
	r := strings.NewReplacer("/", "_", "-", "_", ".", "_")
	return r.Replace(s)
}

func writeOut(name, content string) {
	if err := os.WriteFile(filepath.Join(outDir, name), []byte(content), 0o644); err != nil {
		fmt.Fprintln(os.Stderr, err)
		os.Exit(2)
	}
}

func main() {
	if len(os.Args) != 3 {
		fmt.Fprintln(os.Stderr, "usage: gotables <repo> <outdir>")
		os.Exit(2)
	}
	repo, outDir = os.Args[1], os.Args[2]
	loadRepo()
	genConsts()
	for _, g := range generators {
		g()
	}
	if len(unrecog) > 0 {
		for _, u := range unrecog {
			fmt.Println("UNRECOGNISED", u)
		}
		os.Exit(1)
	}
}

var generators []func()
