package main

// Protocol tables: for each of the six protocol packages recognise
//   - message constructors (routing literal, content type),
//   - StoreMessage (type -> store field) and ValidateMessage (index committee),
//   - the round chain (FirstRound / NextRound),
//   - CanAccept, Update and Start of every round,
// and emit them as Coq terms (Gen/Tables.v) and in the value syntax (tables.txt).
// Anything whose shape is not recognised is reported and makes the run fail.

import (
	"fmt"
	"go/ast"
	"go/token"
	"sort"
	"strings"
)

var protocolDirs = []string{"ecdsa/keygen", "ecdsa/signing", "ecdsa/resharing", "eddsa/keygen", "eddsa/signing", "eddsa/resharing"}

type msgType struct {
	name     string
	bcast    bool
	fromNew  bool
	singleTo bool
	toOld    bool
	toBoth   bool
	store    string
	ctor     string
	fields   []string
}

type acceptT struct {
	ty    int
	bcast bool
	cond  string
}
type scanStore struct {
	ty   int
	cond string
}
type clause struct {
	kind   string // skip | scan | error
	cond   string
	vec    string // old | new
	early  bool
	stores []scanStore
}
type emitT struct {
	ty        int
	p2p       bool
	to        string // old | new (p2p target committee)
	skipSelf  bool
	selfStore bool
}
type startT struct {
	allOldPre, allNewPre   bool
	guard                  string
	allOldPost, allNewPost bool
	selfOK                 string // none | old | new
	emits                  []emitT
	end                    bool
}
type roundT struct {
	recv    string
	accepts []acceptT
	update  []clause
	start   startT
}
type protoTable struct {
	name   string
	dir    string
	types  []*msgType
	rounds []*roundT
	reshar bool
}

func init() { generators = append(generators, genTables) }

func (pk *pkgFiles) funcs() []*ast.FuncDecl {
	var out []*ast.FuncDecl
	for _, fn := range sortedFiles(pk) {
		for _, d := range pk.files[fn].Decls {
			if fd, ok := d.(*ast.FuncDecl); ok {
				out = append(out, fd)
			}
		}
	}
	return out
}

func recvName(fd *ast.FuncDecl) string {
	if fd.Recv == nil || len(fd.Recv.List) == 0 {
		return ""
	}
	t := fd.Recv.List[0].Type
	if s, ok := t.(*ast.StarExpr); ok {
		t = s.X
	}
	if id, ok := t.(*ast.Ident); ok {
		return id.Name
	}
	return ""
}

func exprStr(e ast.Expr) string {
	switch x := e.(type) {
	case *ast.Ident:
		return x.Name
	case *ast.SelectorExpr:
		return exprStr(x.X) + "." + x.Sel.Name
	case *ast.CallExpr:
		return exprStr(x.Fun) + "()"
	case *ast.StarExpr:
		return "*" + exprStr(x.X)
	case *ast.UnaryExpr:
		return x.Op.String() + exprStr(x.X)
	case *ast.BinaryExpr:
		return exprStr(x.X) + x.Op.String() + exprStr(x.Y)
	case *ast.IndexExpr:
		return exprStr(x.X) + "[" + exprStr(x.Index) + "]"
	case *ast.ParenExpr:
		return "(" + exprStr(x.X) + ")"
	case *ast.BasicLit:
		return x.Value
	case *ast.CompositeLit:
		return exprStr(x.Type) + "{..}"
	case *ast.ArrayType:
		return "[]" + exprStr(x.Elt)
	}
	return fmt.Sprintf("<%T>", e)
}

// roleCond recognises committee-role conditions.
func roleCond(e ast.Expr) (string, bool) {
	switch x := e.(type) {
	case *ast.ParenExpr:
		return roleCond(x.X)
	case *ast.UnaryExpr:
		if x.Op == token.NOT {
			c, ok := roleCond(x.X)
			if !ok {
				return "", false
			}
			switch c {
			case "ROld":
				return "RNotOld", true
			case "RNew":
				return "RNotNew", true
			}
			return "", false
		}
	case *ast.BinaryExpr:
		if x.Op == token.LAND {
			a, ok1 := roleCond(x.X)
			b, ok2 := roleCond(x.Y)
			if ok1 && ok2 && ((a == "ROld" && b == "RNew") || (a == "RNew" && b == "ROld")) {
				return "ROldAndNew", true
			}
		}
	case *ast.CallExpr:
		s := exprStr(x.Fun)
		if strings.HasSuffix(s, ".IsOldCommittee") {
			return "ROld", true
		}
		if strings.HasSuffix(s, ".IsNewCommittee") {
			return "RNew", true
		}
	}
	return "", false
}

func genTables() {
	var tabs []*protoTable
	for _, dir := range protocolDirs {
		pk := pkgs[dir]
		if pk == nil {
			unrecognised("protocol package %s not found", dir)
			continue
		}
		t := buildTable(dir, pk)
		if t != nil {
			tabs = append(tabs, t)
		}
	}
	emitTables(tabs)
}

func buildTable(dir string, pk *pkgFiles) *protoTable {
	t := &protoTable{name: coqIdent(dir), dir: dir, reshar: strings.HasSuffix(dir, "resharing")}
	where := func(f string, a ...interface{}) { unrecognised("%s: %s", dir, fmt.Sprintf(f, a...)) }

	// 1. StoreMessage: type switch -> store fields ; fixes the order of message types
	storeOf := map[string]string{}
	var typeOrder []string
	newIndexed := map[string]bool{}
	for _, fd := range pk.funcs() {
		if recvName(fd) != "LocalParty" {
			continue
		}
		switch fd.Name.Name {
		case "StoreMessage":
			ast.Inspect(fd.Body, func(n ast.Node) bool {
				ts, ok := n.(*ast.TypeSwitchStmt)
				if !ok {
					return true
				}
				for _, c := range ts.Body.List {
					cc := c.(*ast.CaseClause)
					if cc.List == nil {
						continue
					}
					for _, ty := range cc.List {
						tn := strings.TrimPrefix(exprStr(ty), "*")
						if len(cc.Body) != 1 {
							where("StoreMessage case %s has %d statements", tn, len(cc.Body))
							continue
						}
						as, ok := cc.Body[0].(*ast.AssignStmt)
						if !ok || len(as.Lhs) != 1 {
							where("StoreMessage case %s is not a single assignment", tn)
							continue
						}
						ix, ok := as.Lhs[0].(*ast.IndexExpr)
						if !ok || exprStr(ix.Index) != "fromPIdx" || exprStr(as.Rhs[0]) != "msg" {
							where("StoreMessage case %s: unexpected assignment %s = %s", tn, exprStr(as.Lhs[0]), exprStr(as.Rhs[0]))
							continue
						}
						f := exprStr(ix.X)
						storeOf[tn] = f[strings.LastIndex(f, ".")+1:]
						typeOrder = append(typeOrder, tn)
					}
				}
				return false
			})
		case "ValidateMessage":
			// resharing: the types listed in the switch index the new committee
			ast.Inspect(fd.Body, func(n ast.Node) bool {
				ts, ok := n.(*ast.TypeSwitchStmt)
				if !ok {
					return true
				}
				for _, c := range ts.Body.List {
					cc := c.(*ast.CaseClause)
					isNew := false
					for _, s := range cc.Body {
						if strings.Contains(nodeStr(s), "NewParties") {
							isNew = true
						}
					}
					if isNew {
						for _, ty := range cc.List {
							newIndexed[strings.TrimPrefix(exprStr(ty), "*")] = true
						}
					}
				}
				return false
			})
		}
	}
	if len(typeOrder) == 0 {
		where("no StoreMessage type switch found")
		return nil
	}
	idx := map[string]int{}
	for i, tn := range typeOrder {
		mt := &msgType{name: tn, store: storeOf[tn], fromNew: !t.reshar || newIndexed[tn]}
		t.types = append(t.types, mt)
		idx[tn] = i
	}
	storeIdx := map[string]int{}
	for i, mt := range t.types {
		storeIdx[mt.store] = i
	}

	// 2. constructors
	ctorOf := map[string]*msgType{}
	for _, fd := range pk.funcs() {
		if fd.Recv != nil || !strings.HasPrefix(fd.Name.Name, "New") || fd.Body == nil {
			continue
		}
		var routing *ast.CompositeLit
		content := ""
		ast.Inspect(fd.Body, func(n ast.Node) bool {
			cl, ok := n.(*ast.CompositeLit)
			if !ok {
				return true
			}
			ts := exprStr(cl.Type)
			if ts == "tss.MessageRouting" {
				routing = cl
			} else if _, ok := idx[ts]; ok {
				content = ts
				mt := t.types[idx[ts]]
				mt.fields = nil
				for _, el := range cl.Elts {
					if kv, ok := el.(*ast.KeyValueExpr); ok {
						mt.fields = append(mt.fields, exprStr(kv.Key))
					}
				}
			}
			return true
		})
		if routing == nil {
			continue
		}
		if content == "" {
			where("constructor %s: content type not recognised", fd.Name.Name)
			continue
		}
		mt := t.types[idx[content]]
		mt.ctor = fd.Name.Name
		seenB := false
		for _, el := range routing.Elts {
			kv, ok := el.(*ast.KeyValueExpr)
			if !ok {
				where("constructor %s: positional routing literal", fd.Name.Name)
				continue
			}
			k := exprStr(kv.Key)
			v := exprStr(kv.Value)
			switch k {
			case "From":
			case "To":
				if cl, ok := kv.Value.(*ast.CompositeLit); ok {
					if len(cl.Elts) == 1 {
						mt.singleTo = true
					} else {
						where("constructor %s: To literal with %d elements", fd.Name.Name, len(cl.Elts))
					}
				}
			case "IsBroadcast":
				seenB = true
				mt.bcast = v == "true"
				if v != "true" && v != "false" {
					where("constructor %s: IsBroadcast is not a literal (%s)", fd.Name.Name, v)
				}
			case "IsToOldCommittee":
				mt.toOld = v == "true"
			case "IsToOldAndNewCommittees":
				mt.toBoth = v == "true"
			default:
				where("constructor %s: unknown routing key %s", fd.Name.Name, k)
			}
		}
		if !seenB {
			where("constructor %s: IsBroadcast missing", fd.Name.Name)
		}
		ctorOf[fd.Name.Name] = mt
	}
	for _, mt := range t.types {
		if mt.ctor == "" {
			where("message type %s has no recognised constructor", mt.name)
		}
	}

	// 3. round chain
	methods := map[string]map[string]*ast.FuncDecl{}
	for _, fd := range pk.funcs() {
		r := recvName(fd)
		if r == "" {
			continue
		}
		if methods[r] == nil {
			methods[r] = map[string]*ast.FuncDecl{}
		}
		methods[r][fd.Name.Name] = fd
	}
	first := ""
	for _, fd := range pk.funcs() {
		if fd.Recv == nil && fd.Name.Name == "newRound1" {
			ast.Inspect(fd.Body, func(n ast.Node) bool {
				if cl, ok := n.(*ast.CompositeLit); ok && first == "" {
					first = exprStr(cl.Type)
				}
				return true
			})
		}
	}
	if first == "" {
		where("newRound1 not found")
		return nil
	}
	cur := first
	for guardN := 0; cur != "" && guardN < 32; guardN++ {
		m := methods[cur]
		if m == nil || m["Start"] == nil || m["Update"] == nil || m["CanAccept"] == nil || m["NextRound"] == nil {
			where("round type %s lacks Start/Update/CanAccept/NextRound", cur)
			return nil
		}
		rt := &roundT{recv: cur}
		rt.accepts = parseCanAccept(where, cur, m["CanAccept"], idx)
		rt.update = parseUpdate(where, cur, m["Update"], storeIdx)
		rt.start = parseStart(where, cur, m["Start"], ctorOf, idx, storeIdx, t)
		t.rounds = append(t.rounds, rt)
		// NextRound
		next := ""
		isNil := false
		for _, s := range m["NextRound"].Body.List {
			if rs, ok := s.(*ast.ReturnStmt); ok && len(rs.Results) == 1 {
				switch r := rs.Results[0].(type) {
				case *ast.Ident:
					if r.Name == "nil" {
						isNil = true
					}
				case *ast.UnaryExpr:
					if cl, ok := r.X.(*ast.CompositeLit); ok {
						next = exprStr(cl.Type)
					}
				}
			}
		}
		if next == "" && !isNil {
			where("%s.NextRound not recognised", cur)
			return nil
		}
		cur = next
	}
	return t
}

func nodeStr(n ast.Node) string {
	var sb strings.Builder
	ast.Inspect(n, func(m ast.Node) bool {
		switch x := m.(type) {
		case *ast.Ident:
			sb.WriteString(x.Name + " ")
		case *ast.BasicLit:
			sb.WriteString(x.Value + " ")
		}
		return true
	})
	return sb.String()
}

// parseCanAccept: sequence of `if _, ok := msg.Content().(*T); ok { return [!]msg.IsBroadcast() }`,
// optionally wrapped in `if <role> { ... }`, ending in `return false`.
func parseCanAccept(where func(string, ...interface{}), recv string, fd *ast.FuncDecl, idx map[string]int) []acceptT {
	var out []acceptT
	var walk func(stmts []ast.Stmt, cond string)
	walk = func(stmts []ast.Stmt, cond string) {
		for _, s := range stmts {
			switch x := s.(type) {
			case *ast.ReturnStmt:
				if len(x.Results) == 1 && exprStr(x.Results[0]) == "false" {
					continue
				}
				where("%s.CanAccept: unexpected return %s", recv, exprStr(x.Results[0]))
			case *ast.IfStmt:
				if x.Init == nil {
					c, ok := roleCond(x.Cond)
					if !ok || x.Else != nil || cond != "RAlways" {
						where("%s.CanAccept: unrecognised guard %s", recv, exprStr(x.Cond))
						continue
					}
					walk(x.Body.List, c)
					continue
				}
				as, ok := x.Init.(*ast.AssignStmt)
				if !ok || len(as.Rhs) != 1 {
					where("%s.CanAccept: unrecognised if-init", recv)
					continue
				}
				ta, ok := as.Rhs[0].(*ast.TypeAssertExpr)
				if !ok {
					where("%s.CanAccept: init is not a type assertion", recv)
					continue
				}
				tn := strings.TrimPrefix(exprStr(ta.Type), "*")
				ti, known := idx[tn]
				if !known || exprStr(x.Cond) != "ok" || len(x.Body.List) != 1 {
					where("%s.CanAccept: unrecognised case for %s", recv, tn)
					continue
				}
				rs, ok := x.Body.List[0].(*ast.ReturnStmt)
				if !ok || len(rs.Results) != 1 {
					where("%s.CanAccept: case %s does not return", recv, tn)
					continue
				}
				r := exprStr(rs.Results[0])
				switch r {
				case "msg.IsBroadcast()":
					out = append(out, acceptT{ti, true, cond})
				case "!msg.IsBroadcast()":
					out = append(out, acceptT{ti, false, cond})
				default:
					where("%s.CanAccept: case %s returns %s", recv, tn, r)
				}
			default:
				where("%s.CanAccept: unexpected statement %T", recv, s)
			}
		}
	}
	walk(fd.Body.List, "RAlways")
	return out
}

// parseScan recognises one `for j, msg := range round.temp.<store> { ... }` loop.
func parseScan(where func(string, ...interface{}), recv string, rs *ast.RangeStmt, storeIdx map[string]int) (clause, bool) {
	cl := clause{kind: "scan"}
	storeName := func(e ast.Expr) (int, bool) {
		s := exprStr(e)
		s = s[strings.LastIndex(s, ".")+1:]
		i, ok := storeIdx[s]
		return i, ok
	}
	first, ok := storeName(rs.X)
	if !ok {
		where("%s.Update: range over unknown store %s", recv, exprStr(rs.X))
		return cl, false
	}
	msgVar := exprStr(rs.Value)
	varStore := map[string]int{msgVar: first}
	seenOKSkip := false
	styleSet, early := false, false
	setStyle := func(e bool) {
		if styleSet && early != e {
			where("%s.Update: mixed failure styles in one loop", recv)
		}
		styleSet, early = true, e
	}
	failStyle := func(b *ast.BlockStmt) (bool, bool) {
		// {ret = false; continue}  or  {return false, nil}
		if len(b.List) == 2 {
			if as, ok := b.List[0].(*ast.AssignStmt); ok && exprStr(as.Lhs[0]) == "ret" && exprStr(as.Rhs[0]) == "false" {
				if br, ok := b.List[1].(*ast.BranchStmt); ok && br.Tok == token.CONTINUE {
					return false, true
				}
			}
		}
		if len(b.List) == 1 {
			if r, ok := b.List[0].(*ast.ReturnStmt); ok && len(r.Results) == 2 && exprStr(r.Results[0]) == "false" && exprStr(r.Results[1]) == "nil" {
				return true, true
			}
		}
		return false, false
	}
	checkOf := func(ifs *ast.IfStmt) (string, bool) {
		// msg == nil || !round.CanAccept(msg)
		be, ok := ifs.Cond.(*ast.BinaryExpr)
		if !ok || be.Op != token.LOR {
			return "", false
		}
		l, ok := be.X.(*ast.BinaryExpr)
		if !ok || l.Op != token.EQL || exprStr(l.Y) != "nil" {
			return "", false
		}
		v := exprStr(l.X)
		if exprStr(be.Y) != "!round.CanAccept("+")" && !strings.HasPrefix(exprStr(be.Y), "!round.CanAccept") {
			return "", false
		}
		ce, ok := be.Y.(*ast.UnaryExpr)
		if !ok {
			return "", false
		}
		call, ok := ce.X.(*ast.CallExpr)
		if !ok || len(call.Args) != 1 || exprStr(call.Args[0]) != v {
			return "", false
		}
		return v, true
	}
	done := false
	var walk func(stmts []ast.Stmt, cond string) bool
	walk = func(stmts []ast.Stmt, cond string) bool {
		for _, s := range stmts {
			if done {
				return true // statements after ok[j] = true do not affect the engine
			}
			switch x := s.(type) {
			case *ast.IfStmt:
				// if round.<vec>[j] { continue }
				if ix, ok := x.Cond.(*ast.IndexExpr); ok && x.Init == nil {
					v := exprStr(ix.X)
					if (strings.HasSuffix(v, ".ok") || strings.HasSuffix(v, ".oldOK") || strings.HasSuffix(v, ".newOK")) && len(x.Body.List) == 1 {
						seenOKSkip = true
						if strings.HasSuffix(v, ".oldOK") {
							cl.vec = "Old"
						} else {
							cl.vec = "New"
						}
						continue
					}
				}
				if v, ok := checkOf(x); ok {
					ti, known := varStore[v]
					if !known {
						where("%s.Update: check on unknown variable %s", recv, v)
						return false
					}
					e, ok := failStyle(x.Body)
					if !ok {
						where("%s.Update: unrecognised failure branch", recv)
						return false
					}
					setStyle(e)
					cl.stores = append(cl.stores, scanStore{ti, cond})
					continue
				}
				if c, ok := roleCond(x.Cond); ok && x.Else == nil && cond == "RAlways" {
					if !walk(x.Body.List, c) {
						return false
					}
					continue
				}
				where("%s.Update: unrecognised if %s", recv, exprStr(x.Cond))
				return false
			case *ast.AssignStmt:
				// msg2 := round.temp.<store>[j]
				if x.Tok == token.DEFINE && len(x.Lhs) == 1 {
					if ix, ok := x.Rhs[0].(*ast.IndexExpr); ok {
						if ti, ok := storeName(ix.X); ok {
							varStore[exprStr(x.Lhs[0])] = ti
							continue
						}
					}
				}
				// round.<vec>[j] = true
				if ix, ok := x.Lhs[0].(*ast.IndexExpr); ok && exprStr(x.Rhs[0]) == "true" {
					v := exprStr(ix.X)
					want := "New"
					if strings.HasSuffix(v, ".oldOK") {
						want = "Old"
					}
					if want != cl.vec {
						where("%s.Update: sets %s but skips on another vector", recv, v)
						return false
					}
					done = true
					continue
				}
				where("%s.Update: unrecognised assignment %s", recv, exprStr(x.Lhs[0]))
				return false
			default:
				where("%s.Update: unexpected statement %T in scan loop", recv, s)
				return false
			}
		}
		return true
	}
	if !walk(rs.Body.List, "RAlways") {
		return cl, false
	}
	if !seenOKSkip || !done {
		where("%s.Update: scan loop lacks ok-skip or ok-set", recv)
		return cl, false
	}
	cl.early = early
	return cl, true
}

func parseUpdate(where func(string, ...interface{}), recv string, fd *ast.FuncDecl, storeIdx map[string]int) []clause {
	var out []clause
	for _, s := range fd.Body.List {
		switch x := s.(type) {
		case *ast.AssignStmt: // ret := true
			if exprStr(x.Lhs[0]) == "ret" {
				continue
			}
			where("%s.Update: unexpected assignment", recv)
		case *ast.ReturnStmt:
			continue
		case *ast.RangeStmt:
			cl, ok := parseScan(where, recv, x, storeIdx)
			if ok {
				cl.cond = "RAlways"
				out = append(out, cl)
			}
		case *ast.IfStmt:
			// if !cond { return true, nil }   |   if A { for.. } else if B { for.. } else { return false, err }
			c, ok := roleCond(x.Cond)
			if !ok {
				where("%s.Update: unrecognised condition %s", recv, exprStr(x.Cond))
				continue
			}
			if x.Else == nil && len(x.Body.List) == 1 {
				if r, ok := x.Body.List[0].(*ast.ReturnStmt); ok && len(r.Results) == 2 && exprStr(r.Results[0]) == "true" {
					out = append(out, clause{kind: "skip", cond: c})
					continue
				}
			}
			var chain func(ifs *ast.IfStmt)
			chain = func(ifs *ast.IfStmt) {
				c, ok := roleCond(ifs.Cond)
				if !ok {
					where("%s.Update: unrecognised chain condition %s", recv, exprStr(ifs.Cond))
					return
				}
				if len(ifs.Body.List) == 1 {
					if rs, ok := ifs.Body.List[0].(*ast.RangeStmt); ok {
						cl, ok := parseScan(where, recv, rs, storeIdx)
						if ok {
							cl.cond = c
							out = append(out, cl)
						}
					} else {
						where("%s.Update: chain body is not a range loop", recv)
					}
				} else {
					where("%s.Update: chain body has %d statements", recv, len(ifs.Body.List))
				}
				switch e := ifs.Else.(type) {
				case nil:
				case *ast.IfStmt:
					chain(e)
				case *ast.BlockStmt:
					if len(e.List) == 1 {
						if r, ok := e.List[0].(*ast.ReturnStmt); ok && len(r.Results) == 2 && exprStr(r.Results[0]) == "false" {
							out = append(out, clause{kind: "error", cond: "RAlways"})
							return
						}
					}
					where("%s.Update: unrecognised else block", recv)
				}
			}
			chain(x)
		default:
			where("%s.Update: unexpected statement %T", recv, s)
		}
	}
	return out
}

// parseStart walks the whole body of Start.
func parseStart(where func(string, ...interface{}), recv string, fd *ast.FuncDecl, ctorOf map[string]*msgType, idx map[string]int, storeIdx map[string]int, t *protoTable) startT {
	st := startT{guard: "RAlways", selfOK: "none"}
	guardSeen := false
	// variable -> constructor name, collected over the whole body
	varCtor := map[string]string{}
	ast.Inspect(fd.Body, func(n ast.Node) bool {
		as, ok := n.(*ast.AssignStmt)
		if !ok || len(as.Rhs) != 1 {
			return true
		}
		if call, ok := as.Rhs[0].(*ast.CallExpr); ok {
			if id, ok := call.Fun.(*ast.Ident); ok {
				if _, known := ctorOf[id.Name]; known {
					varCtor[exprStr(as.Lhs[0])] = id.Name
				}
			}
		}
		return true
	})
	type loopCtx struct {
		committee string // old | new | ""
		skipSelf  bool
	}
	var walk func(stmts []ast.Stmt, lc *loopCtx, top bool)
	selfStores := map[string]bool{} // var name -> stored under own index
	var emitsOrder []struct {
		v  string
		lc *loopCtx
	}
	walk = func(stmts []ast.Stmt, lc *loopCtx, top bool) {
		for _, s := range stmts {
			switch x := s.(type) {
			case *ast.ExprStmt:
				if call, ok := x.X.(*ast.CallExpr); ok {
					f := exprStr(call.Fun)
					switch {
					case strings.HasSuffix(f, ".resetOK"):
					case strings.HasSuffix(f, ".allOldOK"):
						if guardSeen {
							st.allOldPost = true
						} else {
							st.allOldPre = true
						}
					case strings.HasSuffix(f, ".allNewOK"):
						if guardSeen {
							st.allNewPost = true
						} else {
							st.allNewPre = true
						}
					}
				}
			case *ast.SendStmt:
				ch := exprStr(x.Chan)
				if strings.HasSuffix(ch, ".out") {
					emitsOrder = append(emitsOrder, struct {
						v  string
						lc *loopCtx
					}{exprStr(x.Value), lc})
				} else if strings.HasSuffix(ch, ".end") {
					st.end = true
				}
			case *ast.AssignStmt:
				if len(x.Lhs) == 1 {
					if ix, ok := x.Lhs[0].(*ast.IndexExpr); ok {
						base := exprStr(ix.X)
						sfx := base[strings.LastIndex(base, ".")+1:]
						ixs := exprStr(ix.Index)
						if (sfx == "ok" || sfx == "newOK" || sfx == "oldOK") && len(x.Rhs) == 1 {
							if (ixs == "i" || ixs == "PIdx" || strings.HasSuffix(ixs, "PartyID().Index")) && exprStr(x.Rhs[0]) == "true" {
								// round.ok[i] = true
								if sfx == "oldOK" {
									st.selfOK = "Old"
								} else {
									st.selfOK = "New"
								}
							} else {
								// inside a loop over all parties (finalization / keygen round 4): all ok
								if sfx == "oldOK" {
									st.allOldPost = true
								} else {
									st.allNewPost = true
								}
							}
							continue
						}
						if _, ok := storeIdx[sfx]; ok && len(x.Rhs) == 1 {
							v := exprStr(x.Rhs[0])
							if _, isMsg := varCtor[v]; isMsg {
								// a self store: index is the own index (i, PIdx, round.PartyID().Index) or the loop index under j == i
								_ = ixs
								selfStores[v] = true
							}
							continue
						}
					}
				}
			case *ast.IfStmt:
				if c, ok := roleCond(x.Cond); ok && top && !guardSeen && len(x.Body.List) >= 1 {
					if r, ok := x.Body.List[len(x.Body.List)-1].(*ast.ReturnStmt); ok && len(r.Results) == 1 && exprStr(r.Results[0]) == "nil" {
						// if !IsX { return nil } : the round acts only when the negation holds
						neg := map[string]string{"RNotOld": "ROld", "RNotNew": "RNew"}[c]
						if neg == "" {
							where("%s.Start: role guard %s is not a negated membership test", recv, c)
						}
						st.guard = neg
						guardSeen = true
						continue
					}
				}
				// j == i { ... continue } inside a party loop: skip self
				if lc != nil {
					if be, ok := x.Cond.(*ast.BinaryExpr); ok && be.Op == token.EQL {
						l, r := exprStr(be.X), exprStr(be.Y)
						if (l == "j" && (r == "i" || r == "PIdx")) || (r == "j" && (l == "i" || l == "PIdx")) {
							hasContinue := false
							for _, b := range x.Body.List {
								if br, ok := b.(*ast.BranchStmt); ok && br.Tok == token.CONTINUE {
									hasContinue = true
								}
							}
							if hasContinue {
								lc.skipSelf = true
							}
						}
					}
				}
				walk(x.Body.List, lc, false)
				switch e := x.Else.(type) {
				case *ast.BlockStmt:
					walk(e.List, lc, false)
				case *ast.IfStmt:
					walk([]ast.Stmt{e}, lc, false)
				}
			case *ast.RangeStmt:
				rx := exprStr(x.X)
				nlc := lc
				if strings.Contains(rx, "Parties().IDs()") {
					cm := "New"
					if strings.Contains(rx, "OldParties") {
						cm = "Old"
					}
					nlc = &loopCtx{committee: cm}
				} else if strings.HasSuffix(rx, ".ok") || strings.HasSuffix(rx, ".newOK") || strings.HasSuffix(rx, ".oldOK") {
					nlc = &loopCtx{}
				}
				walk(x.Body.List, nlc, false)
			case *ast.ForStmt:
				walk(x.Body.List, lc, false)
			case *ast.BlockStmt:
				walk(x.List, lc, top)
			case *ast.GoStmt, *ast.DeferStmt:
				// goroutines inside rounds never emit (checked: a send inside would be seen by Inspect below)
			}
		}
	}
	walk(fd.Body.List, nil, true)
	// sends hidden in function literals are not expected
	ast.Inspect(fd.Body, func(n ast.Node) bool {
		if fl, ok := n.(*ast.FuncLit); ok {
			ast.Inspect(fl.Body, func(m ast.Node) bool {
				if ss, ok := m.(*ast.SendStmt); ok {
					ch := exprStr(ss.Chan)
					if strings.HasSuffix(ch, ".out") || strings.HasSuffix(ch, ".end") {
						where("%s.Start: send on %s inside a function literal", recv, ch)
					}
				}
				return true
			})
		}
		return true
	})
	for _, e := range emitsOrder {
		cn, ok := varCtor[e.v]
		if !ok {
			where("%s.Start: cannot find the constructor of emitted value %s", recv, e.v)
			continue
		}
		mt := ctorOf[cn]
		ti := idx[mt.name]
		em := emitT{ty: ti, selfStore: selfStores[e.v]}
		if e.lc != nil && e.lc.committee != "" {
			em.p2p = true
			em.to = e.lc.committee
			em.skipSelf = e.lc.skipSelf
		}
		st.emits = append(st.emits, em)
	}
	_ = sort.Strings
	return st
}

// ---------------- output ----------------

func boolS(b bool) string {
	if b {
		return "true"
	}
	return "false"
}

func emitTables(tabs []*protoTable) {
	var coq, txt strings.Builder
	coq.WriteString("(* generated by gotables from /repo: the six protocol tables. Do not edit. *)\nFrom Coq Require Import List.\nFrom TSS Require Import Model.Engine.\nImport ListNotations.\n\n")
	for _, t := range tabs {
		fmt.Fprintf(&coq, "(* %s: message types %s *)\n", t.dir, func() string {
			var ns []string
			for i, mt := range t.types {
				ns = append(ns, fmt.Sprintf("%d=%s", i, mt.name))
			}
			return strings.Join(ns, " ")
		}())
		fmt.Fprintf(&coq, "Definition table_%s : table := mkTable\n  [", t.name)
		fmt.Fprintf(&txt, "%s [", t.name)
		for i, mt := range t.types {
			if i > 0 {
				coq.WriteString(";\n   ")
				txt.WriteString(" ")
			}
			cm := "Old"
			if mt.fromNew {
				cm = "New"
			}
			fmt.Fprintf(&coq, "mkMsgType %s %s %s %s %s", boolS(mt.bcast), cm, boolS(mt.singleTo), boolS(mt.toOld), boolS(mt.toBoth))
			fmt.Fprintf(&txt, "[%s %s %s %s %s %s]", mt.name, boolS(mt.bcast), cm, boolS(mt.singleTo), boolS(mt.toOld), boolS(mt.toBoth))
		}
		coq.WriteString("]\n  [")
		txt.WriteString("] [")
		for ri, r := range t.rounds {
			if ri > 0 {
				coq.WriteString(";\n   ")
				txt.WriteString(" ")
			}
			// accepts
			var ca, ta []string
			for _, a := range r.accepts {
				ca = append(ca, fmt.Sprintf("mkAccept %d %s %s", a.ty, boolS(a.bcast), a.cond))
				ta = append(ta, fmt.Sprintf("[%d %s %s]", a.ty, boolS(a.bcast), a.cond))
			}
			var cu, tu []string
			for _, c := range r.update {
				switch c.kind {
				case "skip":
					cu = append(cu, "USkip "+c.cond)
					tu = append(tu, "[skip "+c.cond+"]")
				case "error":
					cu = append(cu, "UError "+c.cond)
					tu = append(tu, "[error "+c.cond+"]")
				case "scan":
					var cs, ts []string
					for _, s := range c.stores {
						cs = append(cs, fmt.Sprintf("(%d, %s)", s.ty, s.cond))
						ts = append(ts, fmt.Sprintf("[%d %s]", s.ty, s.cond))
					}
					cu = append(cu, fmt.Sprintf("UScan %s (mkScan %s [%s] %s)", c.cond, c.vec, strings.Join(cs, "; "), boolS(c.early)))
					tu = append(tu, fmt.Sprintf("[scan %s %s %s [%s]]", c.cond, c.vec, boolS(c.early), strings.Join(ts, " ")))
				}
			}
			var ce, te []string
			for _, e := range r.start.emits {
				mode, tm := "EBroadcast", "bcast"
				if e.p2p {
					mode = fmt.Sprintf("(EP2P %s %s)", e.to, boolS(e.skipSelf))
					tm = fmt.Sprintf("[p2p %s %s]", e.to, boolS(e.skipSelf))
				}
				ce = append(ce, fmt.Sprintf("mkEmit %d %s %s", e.ty, mode, boolS(e.selfStore)))
				te = append(te, fmt.Sprintf("[%d %s %s]", e.ty, tm, boolS(e.selfStore)))
			}
			so := "None"
			if r.start.selfOK != "none" {
				so = "(Some " + r.start.selfOK + ")"
			}
			fmt.Fprintf(&coq, "mkRound [%s]\n     [%s]\n     (mkStart %s %s %s %s %s %s [%s] %s)",
				strings.Join(ca, "; "), strings.Join(cu, "; "),
				boolS(r.start.allOldPre), boolS(r.start.allNewPre), r.start.guard, boolS(r.start.allOldPost), boolS(r.start.allNewPost), so,
				strings.Join(ce, "; "), boolS(r.start.end))
			fmt.Fprintf(&txt, "[[%s] [%s] [%s %s %s %s %s %s [%s] %s]]",
				strings.Join(ta, " "), strings.Join(tu, " "),
				boolS(r.start.allOldPre), boolS(r.start.allNewPre), r.start.guard, boolS(r.start.allOldPost), boolS(r.start.allNewPost), r.start.selfOK,
				strings.Join(te, " "), boolS(r.start.end))
		}
		coq.WriteString("].\n\n")
		txt.WriteString("]\n")
	}
	// list of all tables and content-field inventory (used by C08's secret-leak obligation)
	coq.WriteString("Definition all_tables : list table := [")
	for i, t := range tabs {
		if i > 0 {
			coq.WriteString("; ")
		}
		coq.WriteString("table_" + t.name)
	}
	coq.WriteString("].\n")
	writeOut("Tables.v", coq.String())
	writeOut("tables.txt", txt.String())
}
