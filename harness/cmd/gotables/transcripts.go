package main

// Fiat-Shamir transcripts (C12): for every call of common.SHA512_256i_TAGGED / SHA512_256i / SHA512_256 in the proof
// packages, the enclosing function, whether the call is tagged (and with which expression), and the ordered list of
// hashed expressions, normalised so that the prover's `alpha.X()` and the verifier's `pf.Alpha.X()` read the same:
//   - a leading `pf.` / `proof.` is dropped, call parentheses are dropped, the first letter of each path element of three or
//     more characters is lower-cased;
//   - `append(a, b, c...)...` is flattened; a trailing `...` marks a spread slice;
//   - a local slice variable that is passed spread (`msg...`) is resolved through its defining assignments
//     (`msg := append([]*big.Int{h1, h2, N}, alpha[:]...)`).

import (
	"fmt"
	"go/ast"
	"sort"
	"strings"
)

func init() { generators = append(generators, genTranscripts) }

var transcriptDirs = []string{"crypto/schnorr", "crypto/dlnproof", "crypto/modproof", "crypto/facproof", "crypto/mta", "crypto/paillier", "crypto/commitments"}

// the session strings: in the protocol packages only the function getSSID is read (what a session id is made of: the curve of
// the run, the committee, the public key material, the round number and the nonce)
var ssidDirs = []string{"ecdsa/keygen", "ecdsa/resharing", "ecdsa/signing", "eddsa/keygen", "eddsa/resharing", "eddsa/signing"}

// names of one or two characters keep their case (T the commitment and t the Pedersen base are different things)
func lowerFirst(s string) string {
	if len(s) < 3 {
		return s
	}
	return strings.ToLower(s[:1]) + s[1:]
}

func normExpr(e ast.Expr) string {
	switch x := e.(type) {
	case *ast.Ident:
		return lowerFirst(x.Name)
	case *ast.SelectorExpr:
		base := normExpr(x.X)
		if base == "pf" || base == "proof" || base == "p" {
			return lowerFirst(x.Sel.Name)
		}
		return base + "." + lowerFirst(x.Sel.Name)
	case *ast.CallExpr:
		// big.NewInt(int64(v)) and plain conversions are the value v
		if len(x.Args) == 1 {
			f := exprStr(x.Fun)
			if f == "big.NewInt" || f == "int64" || f == "uint64" || f == "int" {
				return normExpr(x.Args[0])
			}
		}
		return normExpr(x.Fun)
	case *ast.SliceExpr:
		s := normExpr(x.X) + "["
		if x.Low != nil {
			s += normExpr(x.Low)
		}
		s += ":"
		if x.High != nil {
			s += normExpr(x.High)
		}
		return s + "]"
	case *ast.IndexExpr:
		return normExpr(x.X) + "[" + normExpr(x.Index) + "]"
	case *ast.BasicLit:
		return x.Value
	case *ast.StarExpr:
		return normExpr(x.X)
	case *ast.UnaryExpr:
		return normExpr(x.X)
	case *ast.ParenExpr:
		return normExpr(x.X)
	case *ast.CompositeLit:
		var parts []string
		for _, el := range x.Elts {
			parts = append(parts, normExpr(el))
		}
		return "{" + strings.Join(parts, ",") + "}"
	}
	return "?"
}

// flatten the argument list of a variadic hash call
func flattenArgs(args []ast.Expr, spread bool, locals map[string][]string) []string {
	var out []string
	for i, a := range args {
		last := i == len(args)-1
		if ce, ok := a.(*ast.CallExpr); ok {
			if id, ok := ce.Fun.(*ast.Ident); ok && id.Name == "append" {
				out = append(out, flattenArgs(ce.Args, ce.Ellipsis.IsValid(), locals)...)
				continue
			}
		}
		if cl, ok := a.(*ast.CompositeLit); ok {
			for _, el := range cl.Elts {
				out = append(out, normExpr(el))
			}
			continue
		}
		s := normExpr(a)
		if last && spread {
			if def, ok := locals[s]; ok {
				out = append(out, def...)
				continue
			}
			s += "..."
		}
		out = append(out, s)
	}
	return out
}

type transcript struct {
	file, fn, kind, tag string
	args                []string
	line                int
}

func genTranscripts() {
	var ts []transcript
	ssidOnly := map[string]bool{}
	for _, d := range ssidDirs {
		ssidOnly[d] = true
	}
	for _, dir := range append(append([]string{}, transcriptDirs...), ssidDirs...) {
		pk := pkgs[dir]
		if pk == nil {
			unrecognised("transcripts: package %s not found", dir)
			continue
		}
		for _, fname := range sortedFiles(pk) {
			for _, d := range pk.files[fname].Decls {
				fd, ok := d.(*ast.FuncDecl)
				if !ok || fd.Body == nil {
					continue
				}
				if ssidOnly[dir] && fd.Name.Name != "getSSID" {
					continue
				}
				// local slice definitions: name -> flattened elements (assignments in source order; append to itself extends)
				locals := map[string][]string{}
				ast.Inspect(fd.Body, func(n ast.Node) bool {
					as, ok := n.(*ast.AssignStmt)
					if !ok || len(as.Lhs) != 1 || len(as.Rhs) != 1 {
						return true
					}
					id, ok := as.Lhs[0].(*ast.Ident)
					if !ok {
						return true
					}
					name := lowerFirst(id.Name)
					switch r := as.Rhs[0].(type) {
					case *ast.CallExpr:
						if f, ok := r.Fun.(*ast.Ident); ok && f.Name == "append" {
							// x = append(x, more...) extends the recorded definition of x
							if first, ok := r.Args[0].(*ast.Ident); ok && lowerFirst(first.Name) == name && len(r.Args) > 1 {
								if prev, ok := locals[name]; ok {
									locals[name] = append(append([]string{}, prev...), flattenArgs(r.Args[1:], r.Ellipsis.IsValid(), locals)...)
									return true
								}
							}
							locals[name] = flattenArgs(r.Args, r.Ellipsis.IsValid(), locals)
						}
					case *ast.CompositeLit:
						var els []string
						for _, el := range r.Elts {
							els = append(els, normExpr(el))
						}
						locals[name] = els
					}
					return true
				})
				ast.Inspect(fd.Body, func(n ast.Node) bool {
					ce, ok := n.(*ast.CallExpr)
					if !ok {
						return true
					}
					se, ok := ce.Fun.(*ast.SelectorExpr)
					if !ok {
						return true
					}
					if id, ok := se.X.(*ast.Ident); !ok || id.Name != "common" {
						return true
					}
					kind := se.Sel.Name
					if kind != "SHA512_256i_TAGGED" && kind != "SHA512_256i" && kind != "SHA512_256" {
						return true
					}
					fname2 := fd.Name.Name
					if fd.Recv != nil && len(fd.Recv.List) == 1 {
						rt := exprStr(fd.Recv.List[0].Type)
						fname2 = strings.TrimPrefix(rt, "*") + "." + fname2
					}
					t := transcript{file: dir + "/" + fname, fn: fname2, kind: kind, line: fset.Position(ce.Pos()).Line}
					args := ce.Args
					if kind == "SHA512_256i_TAGGED" {
						if len(args) == 0 {
							unrecognised("%s:%d: tagged hash without a tag", t.file, t.line)
							return true
						}
						t.tag = normExpr(args[0])
						args = args[1:]
					}
					t.args = flattenArgs(args, ce.Ellipsis.IsValid(), locals)
					for _, a := range t.args {
						if strings.Contains(a, "?") {
							unrecognised("%s:%d: hashed expression not recognised", t.file, t.line)
						}
					}
					ts = append(ts, t)
					return true
				})
			}
		}
	}
	sort.SliceStable(ts, func(i, j int) bool {
		if ts[i].file != ts[j].file {
			return ts[i].file < ts[j].file
		}
		return ts[i].line < ts[j].line
	})
	var sb strings.Builder
	sb.WriteString("(* generated by gotables from /repo/crypto/**: every challenge-hash call with its ordered, normalised inputs. Do not edit. *)\nFrom Coq Require Import List String.\nFrom TSS Require Import Model.TranscriptSpec.\nImport ListNotations.\nOpen Scope string_scope.\n\nDefinition transcripts : list transcript := [\n")
	var lines []string
	for _, t := range ts {
		qs := make([]string, len(t.args))
		for i, a := range t.args {
			qs[i] = fmt.Sprintf("%q", a)
		}
		lines = append(lines, fmt.Sprintf("  mkTranscript %q %q %q %q [%s]", t.file, t.fn, t.kind, t.tag, strings.Join(qs, "; ")))
	}
	sb.WriteString(strings.Join(lines, ";\n"))
	sb.WriteString("\n].\n")
	writeOut("Transcripts.v", sb.String())
}
