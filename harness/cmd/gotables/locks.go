package main

// Lock discipline of tss/party.go (C09): for the entry points that the property names
// (BaseStart, BaseUpdate, WaitingFor, WrapErrorLocked) every access to party state is listed
// together with whether the party mutex is held at that point, following the structured
// control flow (if / else / return; `defer p.unlock()` keeps the lock to the end; the
// `r := func(...) { p.unlock(); ... }` unlock hook releases it at the `return r(...)`).
// For the six LocalParty.UpdateFromBytes the way a parse error is wrapped is recorded.

import (
	"fmt"
	"go/ast"
	"strings"
)

func init() { generators = append(generators, genLocks) }

type lockSite struct {
	fn, access string
	line       int
	locked     bool
}

var stateCalls = map[string]bool{
	"round": true, "setRound": true, "advance": true, "StoreMessage": true, "failed": true, "setFailed": true,
	"storedBeforeStart": true, "setStoredBeforeStart": true, "WrapError": true, "ValidateMessage": true, "Running": true, "String": true,
}

type lockReturn struct {
	fn       string
	line     int
	released bool
}

type lockWalker struct {
	returns     []lockReturn
	everLocked  bool
	deferUnlock bool
	fn          string
	recv        string          // name of the party variable (p)
	hooks       map[string]bool // local closures that unlock
	sites       []lockSite
	defered     bool
}

// accesses inside an expression (in source order), closures skipped
func (w *lockWalker) expr(e ast.Node, locked bool) bool {
	if e == nil {
		return locked
	}
	ast.Inspect(e, func(n ast.Node) bool {
		switch x := n.(type) {
		case *ast.FuncLit:
			return false
		case *ast.CallExpr:
			if se, ok := x.Fun.(*ast.SelectorExpr); ok {
				if id, ok := se.X.(*ast.Ident); ok && id.Name == w.recv {
					switch {
					case se.Sel.Name == "lock":
						locked = true
						w.everLocked = true
					case se.Sel.Name == "unlock":
						locked = false
					case stateCalls[se.Sel.Name]:
						// arguments first (source order is close enough: they are evaluated before the call)
						w.sites = append(w.sites, lockSite{w.fn, se.Sel.Name, fset.Position(x.Pos()).Line, locked})
					}
				}
			}
			if id, ok := x.Fun.(*ast.Ident); ok && w.hooks[id.Name] {
				// evaluate the arguments under the current state, then the hook unlocks
				for _, a := range x.Args {
					locked = w.expr(a, locked)
				}
				locked = false
				return false
			}
		case *ast.SelectorExpr:
			if id, ok := x.X.(*ast.Ident); ok && id.Name == w.recv && (x.Sel.Name == "rnd" || x.Sel.Name == "storedEarly" || x.Sel.Name == "startErr") {
				w.sites = append(w.sites, lockSite{w.fn, "field " + x.Sel.Name, fset.Position(x.Pos()).Line, locked})
			}
		}
		return true
	})
	return locked
}

// block returns the lock state after the statements and whether control cannot fall through
func (w *lockWalker) block(stmts []ast.Stmt, locked bool) (bool, bool) {
	for _, s := range stmts {
		var term bool
		locked, term = w.stmt(s, locked)
		if term {
			return locked, true
		}
	}
	return locked, false
}

func (w *lockWalker) stmt(s ast.Stmt, locked bool) (bool, bool) {
	switch x := s.(type) {
	case *ast.ReturnStmt:
		for _, r := range x.Results {
			locked = w.expr(r, locked)
		}
		// a function that unlocks by hand must have released the mutex on every return path once it has taken it
		if w.everLocked && !w.deferUnlock {
			w.returns = append(w.returns, lockReturn{w.fn, fset.Position(x.Pos()).Line, !locked})
		}
		return locked, true
	case *ast.DeferStmt:
		// defer p.unlock(): the lock is held until the function returns; other deferred calls are not state accesses of interest
		if strings.Contains(nodeStr(x.Call), w.recv+" unlock") {
			w.deferUnlock = true
		}
		return locked, false
	case *ast.AssignStmt:
		// r := func(...) {... p.unlock() ...}
		if len(x.Lhs) == 1 && len(x.Rhs) == 1 {
			if fl, ok := x.Rhs[0].(*ast.FuncLit); ok {
				if id, ok := x.Lhs[0].(*ast.Ident); ok && strings.Contains(nodeStr(fl.Body), w.recv+" unlock ") {
					w.hooks[id.Name] = true
					return locked, false
				}
			}
		}
		for _, r := range x.Rhs {
			locked = w.expr(r, locked)
		}
		return locked, false
	case *ast.ExprStmt:
		return w.expr(x.X, locked), false
	case *ast.IfStmt:
		if x.Init != nil {
			locked, _ = w.stmt(x.Init, locked)
		}
		locked = w.expr(x.Cond, locked)
		l1, t1 := w.block(x.Body.List, locked)
		l2, t2 := locked, false
		if x.Else != nil {
			switch e := x.Else.(type) {
			case *ast.BlockStmt:
				l2, t2 = w.block(e.List, locked)
			default:
				l2, t2 = w.stmt(e, locked)
			}
		}
		switch {
		case t1 && t2:
			return locked, true
		case t1:
			return l2, false
		case t2:
			return l1, false
		default:
			return l1 && l2, false // conservative: held only if held on both paths
		}
	case *ast.ForStmt:
		if x.Init != nil {
			locked, _ = w.stmt(x.Init, locked)
		}
		locked = w.expr(x.Cond, locked)
		l1, _ := w.block(x.Body.List, locked)
		return locked && l1, false
	case *ast.RangeStmt:
		locked = w.expr(x.X, locked)
		l1, _ := w.block(x.Body.List, locked)
		return locked && l1, false
	case *ast.BlockStmt:
		return w.block(x.List, locked)
	case *ast.DeclStmt, *ast.BranchStmt, *ast.EmptyStmt, *ast.IncDecStmt:
		return locked, false
	default:
		return w.expr(s, locked), false
	}
}

func genLocks() {
	var sb strings.Builder
	sb.WriteString("(* generated by gotables from /repo/tss/party.go and */local_party.go: party-state accesses of the entry points and whether the party mutex is held. Do not edit. *)\nFrom Coq Require Import List String.\nFrom TSS Require Import Model.Locking.\nImport ListNotations.\nOpen Scope string_scope.\n\nDefinition lock_sites : list lock_site := [\n")
	var lines, retLines []string
	pk := pkgs["tss"]
	if pk == nil || pk.files["party.go"] == nil {
		unrecognised("tss/party.go not found")
	} else {
		for _, d := range pk.files["party.go"].Decls {
			fd, ok := d.(*ast.FuncDecl)
			if !ok || fd.Body == nil {
				continue
			}
			name := fd.Name.Name
			entry := map[string]bool{"BaseStart": true, "BaseUpdate": true, "WaitingFor": true, "WrapErrorLocked": true}[name]
			if !entry {
				continue
			}
			recv := "p"
			if fd.Recv != nil && len(fd.Recv.List) == 1 && len(fd.Recv.List[0].Names) == 1 {
				recv = fd.Recv.List[0].Names[0].Name
			} else if fd.Type.Params != nil && len(fd.Type.Params.List) > 0 && len(fd.Type.Params.List[0].Names) > 0 {
				recv = fd.Type.Params.List[0].Names[0].Name
			}
			w := &lockWalker{fn: name, recv: recv, hooks: map[string]bool{}}
			w.block(fd.Body.List, false)
			if len(w.sites) == 0 {
				unrecognised("tss/party.go:%s: no party-state access recognised", name)
			}
			for _, s := range w.sites {
				lines = append(lines, fmt.Sprintf("  mkLockSite %q %q %v", s.fn, s.access, s.locked))
			}
			for _, rt := range w.returns {
				retLines = append(retLines, fmt.Sprintf("  (%q, %v)", rt.fn, rt.released))
			}
		}
	}
	sb.WriteString(strings.Join(lines, ";\n"))
	sb.WriteString("\n].\n\n(* return statements of the entry points that unlock by hand (no deferred unlock), reached with the mutex taken: true = released there *)\nDefinition lock_returns : list (string * bool) := [\n")
	sb.WriteString(strings.Join(retLines, ";\n"))
	sb.WriteString("\n].\n\n(* how each LocalParty.UpdateFromBytes wraps a parse error: true = through tss.WrapErrorLocked *)\nDefinition parse_error_wraps : list (string * bool) := [\n")
	var pw []string
	for _, dir := range protocolDirs {
		pk := pkgs[dir]
		if pk == nil || pk.files["local_party.go"] == nil {
			unrecognised("%s/local_party.go not found", dir)
			continue
		}
		found := false
		for _, d := range pk.files["local_party.go"].Decls {
			fd, ok := d.(*ast.FuncDecl)
			if !ok || fd.Body == nil || fd.Name.Name != "UpdateFromBytes" {
				continue
			}
			found = true
			body := nodeStr(fd.Body)
			lockedWrap := strings.Contains(body, "tss WrapErrorLocked ") && !strings.Contains(body, " WrapError ")
			pw = append(pw, fmt.Sprintf("  (%q, %v)", dir, lockedWrap))
		}
		if !found {
			unrecognised("%s/local_party.go: UpdateFromBytes not found", dir)
		}
	}
	sb.WriteString(strings.Join(pw, ";\n"))
	sb.WriteString("\n].\n")
	writeOut("Locks.v", sb.String())
}
