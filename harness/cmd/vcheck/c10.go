package main

import (
	"fmt"
	"math/big"

	"github.com/bnb-chain/tss-lib/v2/crypto/dlnproof"
	"github.com/bnb-chain/tss-lib/v2/crypto/facproof"
	"github.com/bnb-chain/tss-lib/v2/crypto/modproof"
	"github.com/bnb-chain/tss-lib/v2/crypto/mta"
	"github.com/bnb-chain/tss-lib/v2/crypto/paillier"

	"verif/harness/internal/val"
	"verif/harness/internal/vc"
)

func init() {
	gens["C10"] = genC10
	// *_verify_rt: serialise the proof to its wire parts, parse it back, verify
	vc.Register("alice_verify_rt", func(a []val.V) val.V {
		p := val.AsInts(a[6])
		pf := &mta.RangeProofAlice{Z: p[0], U: p[1], W: p[2], S: p[3], S1: p[4], S2: p[5]}
		bz := pf.Bytes()
		back, err := mta.RangeProofAliceFromBytes(bz[:])
		if err != nil {
			return val.Err
		}
		return okb(back.Verify(curveByName(val.AsAtom(a[0])), paiPKObj(val.AsInt(a[1])), val.AsInt(a[2]), val.AsInt(a[3]), val.AsInt(a[4]), val.AsInt(a[5])))
	})
	vc.Register("bob_verify_rt", func(a []val.V) val.V {
		p := val.AsInts(a[8])
		pf := &mta.ProofBob{Z: p[0], ZPrm: p[1], T: p[2], V: p[3], W: p[4], S: p[5], S1: p[6], S2: p[7], T1: p[8], T2: p[9]}
		bz := pf.Bytes()
		back, err := mta.ProofBobFromBytes(bz[:])
		if err != nil {
			return val.Err
		}
		return okb(back.Verify(val.AsBytes(a[1]), curveByName(val.AsAtom(a[0])), paiPKObj(val.AsInt(a[2])), val.AsInt(a[3]), val.AsInt(a[4]), val.AsInt(a[5]), val.AsInt(a[6]), val.AsInt(a[7])))
	})
	vc.Register("bobwc_verify_rt", func(a []val.V) val.V {
		ec := curveByName(val.AsAtom(a[0]))
		p := val.AsInts(a[8])
		U, X := pointOf(ec, a[9]), pointOf(ec, a[10])
		if U == nil || X == nil {
			return val.Err
		}
		pf := &mta.ProofBobWC{ProofBob: &mta.ProofBob{Z: p[0], ZPrm: p[1], T: p[2], V: p[3], W: p[4], S: p[5], S1: p[6], S2: p[7], T1: p[8], T2: p[9]}, U: U}
		bz := pf.Bytes()
		back, err := mta.ProofBobWCFromBytes(ec, bz[:])
		if err != nil {
			return val.Err
		}
		return okb(back.Verify(val.AsBytes(a[1]), ec, paiPKObj(val.AsInt(a[2])), val.AsInt(a[3]), val.AsInt(a[4]), val.AsInt(a[5]), val.AsInt(a[6]), val.AsInt(a[7]), X))
	})
	vc.Register("fac_verify_rt", func(a []val.V) val.V {
		p := val.AsInts(a[6])
		pf := &facproof.ProofFac{P: p[0], Q: p[1], A: p[2], B: p[3], T: p[4], Sigma: p[5], Z1: p[6], Z2: p[7], W1: p[8], W2: p[9], V: p[10]}
		bz := pf.Bytes()
		back, err := facproof.NewProofFromBytes(bz[:])
		if err != nil {
			return val.Err
		}
		return okb(back.Verify(val.AsBytes(a[1]), curveByName(val.AsAtom(a[0])), val.AsInt(a[2]), val.AsInt(a[3]), val.AsInt(a[4]), val.AsInt(a[5])))
	})
	vc.Register("mod_verify_rt", func(a []val.V) val.V {
		p := val.AsInts(a[2])
		pf := &modproof.ProofMod{W: p[0], A: p[modproof.Iterations+1], B: p[modproof.Iterations+2]}
		copy(pf.X[:], p[1:modproof.Iterations+1])
		copy(pf.Z[:], p[modproof.Iterations+3:])
		bz := pf.Bytes()
		back, err := modproof.NewProofFromBytes(bz[:])
		if err != nil {
			return val.Err
		}
		return okb(back.Verify(val.AsBytes(a[0]), val.AsInt(a[1])))
	})
	vc.Register("dln_verify_rt", func(a []val.V) val.V {
		pf := &dlnproof.Proof{}
		copy(pf.Alpha[:], val.AsInts(a[3]))
		copy(pf.T[:], val.AsInts(a[4]))
		bz, err := pf.Serialize()
		if err != nil {
			return val.Err
		}
		back, err := dlnproof.UnmarshalDLNProof(bz)
		if err != nil {
			return val.Err
		}
		return okb(back.Verify(val.AsInt(a[0]), val.AsInt(a[1]), val.AsInt(a[2])))
	})
}

type rng struct{ r *vc.Run }

func (g rng) below(bound *big.Int) *big.Int {
	b := make([]byte, (bound.BitLen()+7)/8+8)
	g.r.Rng.Read(b)
	return new(big.Int).Mod(new(big.Int).SetBytes(b), bound)
}
func (g rng) unit(n *big.Int) *big.Int {
	for {
		x := g.below(n)
		if x.Sign() > 0 && new(big.Int).GCD(nil, nil, x, n).Cmp(big.NewInt(1)) == 0 {
			return x
		}
	}
}

func skV(sk *paillier.PrivateKey) val.V {
	return val.Ints([]*big.Int{sk.N, sk.LambdaN, sk.PhiN, sk.P, sk.Q})
}

// two different sessions of the same length follow each other (a digest cache keyed by an aliased buffer confuses them)
var sessionsC10 = [][]byte{{}, {0x24}, {0x25}, []byte("0123456789abcdef0123456789abcdef"), []byte("fedcba9876543210fedcba9876543210"), make([]byte, 1000)}

// proveAndVerify runs a prover op and feeds the resulting proof to the verifier ops.
// build turns the prover's observation into verifier arguments; returns the verifier args (nil if the prover failed).
func proveThenVerify(r *vc.Run, label, proveOp string, proveArgs []val.V, verifyOp string, build func(proof val.V) []val.V, rt bool) []val.V {
	obs := r.Case("prove/"+label, true, proveOp, proveArgs...)
	l, ok := obs.(val.List)
	if !ok || len(l) != 2 || l[0].String() != "Ok" {
		r.Violate("prover-failed|"+proveOp+"|"+label, fmt.Sprintf("%s did not return a proof for an honest input (%s): %s", proveOp, label, obs.String()), vc.Line(proveOp, proveArgs))
		return nil
	}
	vargs := build(l[1])
	v := r.Case("verify/"+label, true, verifyOp, vargs...)
	if v.String() != okb(true).String() {
		r.Violate("honest-rejected|"+verifyOp+"|"+label, fmt.Sprintf("an honestly generated %s proof is rejected (%s): %s", label, verifyOp, v.String()), vc.Line(proveOp, proveArgs), vc.Line(verifyOp, vargs))
	}
	if rt {
		v2 := r.Case("verify-rt/"+label, true, verifyOp+"_rt", vargs...)
		if v2.String() != okb(true).String() {
			r.Violate("honest-rejected-after-encoding|"+verifyOp+"|"+label, fmt.Sprintf("an honest %s proof is rejected after Bytes()/FromBytes (%s)", label, v2.String()), vc.Line(verifyOp+"_rt", vargs))
		}
	}
	return vargs
}

// c10Light: one session and two witnesses per family (used by C12 for the prover correspondence: the challenge derivation)
var c10Light bool

func genC10(r *vc.Run) {
	r.Rule = "every prover of the library run with explicit randomness (the harness builds the byte stream that makes the samplers return the chosen values) on true statements: witnesses {0,1,2,q-1,leading-zero values,random}, sessions {empty,1 byte,32,1000 bytes}, vendored parameter sets and ordered pairs; each proof is verified in memory and after Bytes()/FromBytes; model and implementation must produce identical proof bytes and verdicts; non-trivial = all cases"
	c10Body(r)
}

func c10Body(r *vc.Run) {
	g := rng{r}
	keys, _ := fixtures()
	reps := r.Pick(1, 4)
	if c10Light {
		reps = 1
	}
	// ---- Schnorr and Schnorr-V on both curves
	for _, cn := range []string{"secp256k1", "ed25519"} {
		ec := curveByName(cn)
		q := ec.Params().N
		ws := []*big.Int{big.NewInt(1), big.NewInt(2), add(q, -1), new(big.Int).Rsh(q, 9), g.below(q), g.below(q)}
		if cn == "ed25519" {
			ws = append(ws, big.NewInt(0))
		}
		for si, sess := range sessionsC10 {
			for wi, x := range ws {
				if !r.Thorough() && (si+wi)%2 == 1 && wi > 0 {
					continue
				}
				if c10Light && ((si != 3 && si != 4) || wi < 4) {
					continue
				}
				a := g.below(q)
				if a.Sign() == 0 {
					a = big.NewInt(5)
				}
				Xv, _ := vc.Exec("ec_base_mul", []val.V{val.A(cn), val.I(x)})
				if xl, ok := Xv.(val.List); ok && len(xl) == 2 {
					X := xl[1]
					proveThenVerify(r, "schnorr/"+cn, "schnorr_prove", []val.V{val.A(cn), val.B(sess), val.I(x), val.I(a)}, "schnorr_verify",
						func(p val.V) []val.V { pl := val.AsList(p); return []val.V{val.A(cn), val.B(sess), X, pl[0], pl[1]} }, false)
				}
				// V proof: V = s*R + l*G
				rr := g.below(q)
				if rr.Sign() == 0 {
					rr = big.NewInt(3)
				}
				Rv, _ := vc.Exec("ec_base_mul", []val.V{val.A(cn), val.I(rr)})
				R := val.AsList(Rv)[1]
				s, l := x, g.below(q)
				if s.Sign() == 0 || l.Sign() == 0 {
					continue
				}
				sR, _ := vc.Exec("ec_smul", []val.V{val.A(cn), R, val.I(s)})
				lG, _ := vc.Exec("ec_base_mul", []val.V{val.A(cn), val.I(l)})
				Vv, _ := vc.Exec("ec_add", []val.V{val.A(cn), val.AsList(sR)[1], val.AsList(lG)[1]})
				if vl, ok := Vv.(val.List); ok && len(vl) == 2 {
					V := vl[1]
					ra, rb := g.below(q), g.below(q)
					if ra.Sign() == 0 || rb.Sign() == 0 {
						continue
					}
					proveThenVerify(r, "schnorrv/"+cn, "schnorrv_prove", []val.V{val.A(cn), val.B(sess), R, val.I(s), val.I(l), val.I(ra), val.I(rb)}, "schnorrv_verify",
						func(p val.V) []val.V {
							pl := val.AsList(p)
							return []val.V{val.A(cn), val.B(sess), V, R, pl[0], pl[1], pl[2]}
						}, false)
				}
			}
		}
	}
	// ---- modular proofs on the vendored parameter sets
	nk := r.Pick(2, 5)
	_ = nk
	for cni, cn := range []string{"secp256k1", "ed25519"} {
		ec := curveByName(cn)
		q := ec.Params().N
		q3 := q3of(q)
		q7 := mul(mul(q3, q3), q)
		for ai := 0; ai < nk; ai++ {
			for bi := 0; bi < nk; bi++ {
				if ai == bi {
					continue
				}
				if !r.Thorough() && !(ai == 0 && bi == 1) && !(ai == 1 && bi == 0 && cni == 0) {
					continue
				}
				if c10Light && !(ai == 0 && bi == 1) {
					continue
				}
				kA, kB := keys[ai], keys[bi]
				N := kA.PaillierSK.N
				for rep := 0; rep < reps; rep++ {
					sess := sessionsC10[(ai+bi+rep)%len(sessionsC10)]
					ms := []*big.Int{big.NewInt(0), big.NewInt(1), add(q, -1), g.below(q)}
					if c10Light {
						ms = ms[3:]
					}
					for mi, m := range ms {
						// consecutive proofs run under different sessions, same-length ones next to each other
						sess := sessionsC10[(ai+bi+rep+mi+1)%len(sessionsC10)]
						// Alice: c = Enc(m; x) under A's key, proof to B's parameters
						x := g.unit(N)
						cv := r.Case("prove/encrypt", true, "pai_encrypt", val.I(N), val.I(m), val.I(x))
						cA := val.AsList(cv)[1]
						rnd := []*big.Int{g.below(q3), g.unit(N), g.below(mul(q3, kB.NTildei)), g.below(mul(q, kB.NTildei))}
						proveThenVerify(r, "alice", "alice_prove", []val.V{val.A(cn), val.I(N), cA, val.I(kB.NTildei), val.I(kB.H1i), val.I(kB.H2i), val.I(m), val.I(x), val.Ints(rnd)},
							"alice_verify", func(p val.V) []val.V {
								return []val.V{val.A(cn), val.I(N), val.I(kB.NTildei), val.I(kB.H1i), val.I(kB.H2i), cA, p}
							}, true)
						// Bob (multiplier b = m, mask y < q^5): c2 = c1^b * Enc(y; rB)
						y := g.below(mul(q3, mul(q, q)))
						rB := g.unit(N)
						cy, _ := vc.Exec("pai_encrypt", []val.V{val.I(N), val.I(y), val.I(rB)})
						c1b, _ := vc.Exec("pai_homo_mult", []val.V{val.I(N), val.I(m), cA})
						c2v, _ := vc.Exec("pai_homo_add", []val.V{val.I(N), val.AsList(c1b)[1], val.AsList(cy)[1]})
						c2 := val.AsList(c2v)[1]
						brnd := []*big.Int{g.below(q3), g.below(mul(q, kA.NTildei)), g.below(mul(q, kA.NTildei)), g.below(mul(q3, kA.NTildei)), g.below(mul(q3, kA.NTildei)), g.unit(N), g.below(q7)}
						proveThenVerify(r, "bob", "bob_prove", []val.V{val.A(cn), val.B(sess), val.I(N), val.I(kA.NTildei), val.I(kA.H1i), val.I(kA.H2i), cA, c2, val.I(m), val.I(y), val.I(rB), val.A("none"), val.Ints(brnd)},
							"bob_verify", func(p val.V) []val.V {
								return []val.V{val.A(cn), val.B(sess), val.I(N), val.I(kA.NTildei), val.I(kA.H1i), val.I(kA.H2i), cA, c2, val.AsList(p)[0]}
							}, true)
						if m.Sign() != 0 {
							Bv, _ := vc.Exec("ec_base_mul", []val.V{val.A(cn), val.I(m)})
							Bp := val.AsList(Bv)[1]
							proveThenVerify(r, "bobwc", "bob_prove", []val.V{val.A(cn), val.B(sess), val.I(N), val.I(kA.NTildei), val.I(kA.H1i), val.I(kA.H2i), cA, c2, val.I(m), val.I(y), val.I(rB), Bp, val.Ints(brnd)},
								"bobwc_verify", func(p val.V) []val.V {
									pl := val.AsList(p)
									return []val.V{val.A(cn), val.B(sess), val.I(N), val.I(kA.NTildei), val.I(kA.H1i), val.I(kA.H2i), cA, c2, pl[0], pl[1], Bp}
								}, true)
						}
					}
					// fac proof: A's modulus to B's parameters
					sq := new(big.Int).Sqrt(N)
					frnd := []*big.Int{g.below(mul(q3, sq)), g.below(mul(q3, sq)), g.below(mul(q, kB.NTildei)), g.below(mul(q, kB.NTildei)),
						g.below(mul(mul(q, kB.NTildei), N)), g.unit(mul(mul(q3, kB.NTildei), N)), g.below(mul(q3, kB.NTildei)), g.below(mul(q3, kB.NTildei))}
					proveThenVerify(r, "fac", "fac_prove", []val.V{val.A(cn), val.B(sess), val.I(N), val.I(kB.NTildei), val.I(kB.H1i), val.I(kB.H2i), val.I(kA.PaillierSK.P), val.I(kA.PaillierSK.Q), val.Ints(frnd)},
						"fac_verify", func(p val.V) []val.V {
							return []val.V{val.A(cn), val.B(sess), val.I(N), val.I(kB.NTildei), val.I(kB.H1i), val.I(kB.H2i), p}
						}, true)
				}
			}
		}
	}
	for ai := 0; ai < nk; ai++ {
		if c10Light && ai > 0 {
			break
		}
		kA := keys[ai]
		N := kA.PaillierSK.N
		sess := sessionsC10[(ai+2)%len(sessionsC10)]
		// mod proof: find a quadratic non-residue with Jacobi symbol -1
		var W *big.Int
		for {
			W = g.below(N)
			if W.Sign() > 0 && big.Jacobi(W, N) == -1 {
				break
			}
		}
		proveThenVerify(r, "mod", "mod_prove", []val.V{val.B(sess), val.I(N), val.I(kA.PaillierSK.P), val.I(kA.PaillierSK.Q), val.I(W)},
			"mod_verify", func(p val.V) []val.V { return []val.V{val.B(sess), val.I(N), p} }, true)
		// dln proofs in both directions (h2 = h1^alpha and h1 = h2^beta)
		pq := mul(kA.P, kA.Q)
		as := make([]*big.Int, 128)
		for i := range as {
			as[i] = g.below(pq)
		}
		proveThenVerify(r, "dln", "dln_prove", []val.V{val.I(kA.H1i), val.I(kA.H2i), val.I(kA.Alpha), val.I(kA.P), val.I(kA.Q), val.I(kA.NTildei), val.Ints(as)},
			"dln_verify", func(p val.V) []val.V {
				pl := val.AsList(p)
				return []val.V{val.I(kA.H1i), val.I(kA.H2i), val.I(kA.NTildei), pl[0], pl[1]}
			}, true)
		proveThenVerify(r, "dln", "dln_prove", []val.V{val.I(kA.H2i), val.I(kA.H1i), val.I(kA.Beta), val.I(kA.P), val.I(kA.Q), val.I(kA.NTildei), val.Ints(as)},
			"dln_verify", func(p val.V) []val.V {
				pl := val.AsList(p)
				return []val.V{val.I(kA.H2i), val.I(kA.H1i), val.I(kA.NTildei), pl[0], pl[1]}
			}, true)
		// Paillier key proof
		for _, kk := range []*big.Int{big.NewInt(0), big.NewInt(1), g.below(pow2(256))} {
			proveThenVerify(r, "pai", "pai_prove", []val.V{skV(kA.PaillierSK), val.I(kk), pointV(kA.ECDSAPub)},
				"pai_verify", func(p val.V) []val.V { return []val.V{val.I(N), val.I(kk), pointV(kA.ECDSAPub), p} }, false)
		}
	}
}
