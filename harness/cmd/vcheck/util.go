package main

import (
	"crypto/elliptic"
	"encoding/json"
	"github.com/bnb-chain/tss-lib/v2/crypto/paillier"
	"math/big"
	"sync"

	"github.com/bnb-chain/tss-lib/v2/crypto"
	"github.com/bnb-chain/tss-lib/v2/ecdsa/keygen"
	"github.com/bnb-chain/tss-lib/v2/tss"

	"verif/harness/internal/val"
)

func curveByName(n string) elliptic.Curve {
	switch n {
	case "secp256k1":
		return tss.S256()
	case "ed25519":
		return tss.Edwards()
	case "p256":
		return elliptic.P256()
	}
	panic("unknown curve " + n)
}

func curveName(ec elliptic.Curve) string {
	if tss.SameCurve(ec, tss.S256()) {
		return "secp256k1"
	}
	if ec == elliptic.P256() {
		return "p256"
	}
	return "ed25519"
}

// pointV renders a point as [x y].
func pointV(p *crypto.ECPoint) val.V {
	if p == nil {
		return val.A("nilpoint")
	}
	return val.L(val.I(p.X()), val.I(p.Y()))
}

// pointOf decodes [x y] through the library's checked constructor; nil when refused.
func pointOf(ec elliptic.Curve, v val.V) *crypto.ECPoint {
	l := val.AsList(v)
	p, err := crypto.NewECPoint(ec, val.AsInt(l[0]), val.AsInt(l[1]))
	if err != nil {
		return nil
	}
	return p
}

var (
	fixOnce sync.Once
	fixKeys []keygen.LocalPartySaveData
	fixPIDs tss.SortedPartyIDs
)

func fixtures() ([]keygen.LocalPartySaveData, tss.SortedPartyIDs) {
	fixOnce.Do(func() {
		var err error
		fixKeys, fixPIDs, err = keygen.LoadKeygenTestFixtures(5)
		if err != nil {
			panic(err)
		}
	})
	return fixKeys, fixPIDs
}

func bi(s string) *big.Int {
	x, ok := new(big.Int).SetString(s, 0)
	if !ok {
		panic("bad int " + s)
	}
	return x
}

func pow2(k uint) *big.Int { return new(big.Int).Lsh(big.NewInt(1), k) }

func add(a *big.Int, d int64) *big.Int { return new(big.Int).Add(a, big.NewInt(d)) }
func mul(a, b *big.Int) *big.Int       { return new(big.Int).Mul(a, b) }

// detRand is a deterministic byte stream (SHA-512 in counter mode over a seed).
type detRand struct {
	mu   sync.Mutex
	seed []byte
	ctr  uint64
	buf  []byte
}

func newDetRand(seed string) *detRand { return &detRand{seed: []byte(seed)} }

func (d *detRand) Read(p []byte) (int, error) {
	d.mu.Lock()
	defer d.mu.Unlock()
	for i := range p {
		if len(d.buf) == 0 {
			h := sha512sum(append(append([]byte{}, d.seed...), byte(d.ctr), byte(d.ctr>>8), byte(d.ctr>>16), byte(d.ctr>>24)))
			d.buf = h
			d.ctr++
		}
		p[i] = d.buf[0]
		d.buf = d.buf[1:]
	}
	return len(p), nil
}

// sessBuf hands the session string to the library inside ONE reused backing array, as a caller that keeps a scratch
// buffer for session identifiers would: code that retains or aliases the slice it is given shows up as a wrong verdict.
var sessScratch = make([]byte, 0, 4096)
var sessMu sync.Mutex

func sessBuf(v val.V) []byte {
	b := val.AsBytes(v)
	if len(b) > cap(sessScratch) {
		return b
	}
	sessMu.Lock()
	defer sessMu.Unlock()
	sessScratch = sessScratch[:len(b)]
	copy(sessScratch, b)
	return sessScratch
}

// Long-lived key objects. An application keeps one key variable and loads key files into it: json.Unmarshal into an
// existing struct re-populates the exported fields in place and leaves everything else on the object alone. Every op
// takes its Paillier keys through these two functions, so anything the library remembers on a key object from an earlier
// key (a memoised square, a cached decryption constant) shows up as a difference from the model, which knows only values.
var (
	sharedPaiPK paillier.PublicKey
	sharedPaiSK paillier.PrivateKey
)

func paiPKObj(N *big.Int) *paillier.PublicKey {
	bz, err := json.Marshal(&paillier.PublicKey{N: N})
	if err != nil {
		panic(err)
	}
	if err := json.Unmarshal(bz, &sharedPaiPK); err != nil {
		panic(err)
	}
	return &sharedPaiPK
}

func paiSKObj(k []*big.Int) *paillier.PrivateKey {
	bz, err := json.Marshal(&paillier.PrivateKey{PublicKey: paillier.PublicKey{N: k[0]}, LambdaN: k[1], PhiN: k[2], P: k[3], Q: k[4]})
	if err != nil {
		panic(err)
	}
	if err := json.Unmarshal(bz, &sharedPaiSK); err != nil {
		panic(err)
	}
	return &sharedPaiSK
}
