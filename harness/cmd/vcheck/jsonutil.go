package main

import "encoding/json"

func jsonMarshal(v interface{}) ([]byte, error)   { return json.Marshal(v) }
func jsonUnmarshal(b []byte, v interface{}) error { return json.Unmarshal(b, v) }
