package main

// Result oracles for finished runs (the C01-C04 predicates, stated independently of the model).

import (
	"github.com/bnb-chain/tss-lib/v2/common"
)

type commonSig = common.SignatureData
