package main

// Result oracles for finished runs (the C01-C04 predicates, stated independently of the model).

import (
	"verif/harness/internal/vc"
)

func checkEdDSAKeygenResult(r *vc.Run, rc *runCtx, cfg, schedName string)  {}
func checkEdDSASignResult(r *vc.Run, rc *runCtx, cfg, schedName string)    {}
func checkEdDSAReshareResult(r *vc.Run, rc *runCtx, cfg, schedName string) {}
func checkECDSASignResult(r *vc.Run, rc *runCtx, cfg, schedName string)    {}
func checkECDSAKeygenResult(r *vc.Run, rc *runCtx, cfg, schedName string)  {}
func checkECDSAReshareResult(r *vc.Run, rc *runCtx, cfg, schedName string) {}
