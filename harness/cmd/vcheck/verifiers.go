package main

// Implementation-side operations for every exported proof verifier / decoder.
// Arguments are explicit numbers and points so the same case line drives the model.

import (
	"fmt"

	"github.com/bnb-chain/tss-lib/v2/common"
	"math/big"

	"github.com/bnb-chain/tss-lib/v2/crypto"
	"github.com/bnb-chain/tss-lib/v2/crypto/dlnproof"
	"github.com/bnb-chain/tss-lib/v2/crypto/facproof"
	"github.com/bnb-chain/tss-lib/v2/crypto/modproof"
	"github.com/bnb-chain/tss-lib/v2/crypto/mta"
	"github.com/bnb-chain/tss-lib/v2/crypto/paillier"
	"github.com/bnb-chain/tss-lib/v2/crypto/schnorr"
	"github.com/bnb-chain/tss-lib/v2/crypto/vss"

	"verif/harness/internal/val"
	"verif/harness/internal/vc"
)

// verdict: [Ok true] / [Ok false]; a refused point decode is Err.
func okb(b bool) val.V { return val.Ok(val.Bool(b)) }

func init() {
	// vss_verify curve t id share [x0 y0 x1 y1 ...]
	vc.Register("vss_verify", func(a []val.V) val.V {
		ec := curveByName(val.AsAtom(a[0]))
		t := int(val.AsInt64(a[1]))
		flat := val.AsInts(a[4])
		vs, err := crypto.UnFlattenECPoints(ec, flat)
		if err != nil {
			return val.Err
		}
		sh := &vss.Share{Threshold: t, ID: val.AsInt(a[2]), Share: val.AsInt(a[3])}
		return okb(sh.Verify(ec, t, vs))
	})
	// schnorr_verify curve #session [X] [alpha] t
	vc.Register("schnorr_verify", func(a []val.V) val.V {
		ec := curveByName(val.AsAtom(a[0]))
		X, al := pointOf(ec, a[2]), pointOf(ec, a[3])
		if X == nil || al == nil {
			return val.Err
		}
		pf := &schnorr.ZKProof{Alpha: al, T: val.AsInt(a[4])}
		return okb(pf.Verify(sessBuf(a[1]), X))
	})
	// schnorrv_verify curve #session [V] [R] [alpha] t u
	vc.Register("schnorrv_verify", func(a []val.V) val.V {
		ec := curveByName(val.AsAtom(a[0]))
		V, R, al := pointOf(ec, a[2]), pointOf(ec, a[3]), pointOf(ec, a[4])
		if V == nil || R == nil || al == nil {
			return val.Err
		}
		pf := &schnorr.ZKVProof{Alpha: al, T: val.AsInt(a[5]), U: val.AsInt(a[6])}
		return okb(pf.Verify(sessBuf(a[1]), V, R))
	})
	// alice_verify curve N NTilde h1 h2 c [Z U W S S1 S2]
	vc.Register("alice_verify", func(a []val.V) val.V {
		ec := curveByName(val.AsAtom(a[0]))
		p := val.AsInts(a[6])
		pf := &mta.RangeProofAlice{Z: p[0], U: p[1], W: p[2], S: p[3], S1: p[4], S2: p[5]}
		pk := paiPKObj(val.AsInt(a[1]))
		return okb(pf.Verify(ec, pk, val.AsInt(a[2]), val.AsInt(a[3]), val.AsInt(a[4]), val.AsInt(a[5])))
	})
	bob := func(p []*big.Int) *mta.ProofBob {
		return &mta.ProofBob{Z: p[0], ZPrm: p[1], T: p[2], V: p[3], W: p[4], S: p[5], S1: p[6], S2: p[7], T1: p[8], T2: p[9]}
	}
	// bob_verify curve #session N NTilde h1 h2 c1 c2 [10]
	vc.Register("bob_verify", func(a []val.V) val.V {
		ec := curveByName(val.AsAtom(a[0]))
		pk := paiPKObj(val.AsInt(a[2]))
		pf := bob(val.AsInts(a[8]))
		return okb(pf.Verify(sessBuf(a[1]), ec, pk, val.AsInt(a[3]), val.AsInt(a[4]), val.AsInt(a[5]), val.AsInt(a[6]), val.AsInt(a[7])))
	})
	// bobwc_verify curve #session N NTilde h1 h2 c1 c2 [10] [U] [X]
	vc.Register("bobwc_verify", func(a []val.V) val.V {
		ec := curveByName(val.AsAtom(a[0]))
		pk := paiPKObj(val.AsInt(a[2]))
		U, X := pointOf(ec, a[9]), pointOf(ec, a[10])
		if U == nil || X == nil {
			return val.Err
		}
		pf := &mta.ProofBobWC{ProofBob: bob(val.AsInts(a[8])), U: U}
		return okb(pf.Verify(sessBuf(a[1]), ec, pk, val.AsInt(a[3]), val.AsInt(a[4]), val.AsInt(a[5]), val.AsInt(a[6]), val.AsInt(a[7]), X))
	})
	// *_frombytes: arity / emptiness handling of the decoders -> Ok n (number of parts read) or Err
	vc.Register("bobwc_frombytes", func(a []val.V) val.V {
		ec := curveByName(val.AsAtom(a[0]))
		pf, err := mta.ProofBobWCFromBytes(ec, val.AsBytesList(a[1]))
		if err != nil || pf == nil {
			return val.Err
		}
		return val.Ok(val.Ints([]*big.Int{pf.Z, pf.ZPrm, pf.T, pf.V, pf.W, pf.S, pf.S1, pf.S2, pf.T1, pf.T2, pf.U.X(), pf.U.Y()}))
	})
	vc.Register("bob_frombytes", func(a []val.V) val.V {
		pf, err := mta.ProofBobFromBytes(val.AsBytesList(a[0]))
		if err != nil || pf == nil {
			return val.Err
		}
		return val.Ok(val.Ints([]*big.Int{pf.Z, pf.ZPrm, pf.T, pf.V, pf.W, pf.S, pf.S1, pf.S2, pf.T1, pf.T2}))
	})
	vc.Register("alice_frombytes", func(a []val.V) val.V {
		pf, err := mta.RangeProofAliceFromBytes(val.AsBytesList(a[0]))
		if err != nil || pf == nil {
			return val.Err
		}
		return val.Ok(val.Ints([]*big.Int{pf.Z, pf.U, pf.W, pf.S, pf.S1, pf.S2}))
	})
	vc.Register("fac_frombytes", func(a []val.V) val.V {
		pf, err := facproof.NewProofFromBytes(val.AsBytesList(a[0]))
		if err != nil || pf == nil {
			return val.Err
		}
		return val.Ok(val.Ints([]*big.Int{pf.P, pf.Q, pf.A, pf.B, pf.T, pf.Sigma, pf.Z1, pf.Z2, pf.W1, pf.W2, pf.V}))
	})
	vc.Register("mod_frombytes", func(a []val.V) val.V {
		pf, err := modproof.NewProofFromBytes(val.AsBytesList(a[0]))
		if err != nil || pf == nil {
			return val.Err
		}
		out := []*big.Int{pf.W}
		out = append(out, pf.X[:]...)
		out = append(out, pf.A, pf.B)
		out = append(out, pf.Z[:]...)
		return val.Ok(val.Ints(out))
	})
	// non_empty_multi [parts] n|none : the wire-validation helper behind every ValidateBasic
	vc.Register("non_empty_multi", func(a []val.V) val.V {
		bzs := val.AsBytesList(a[0])
		if at, ok := a[1].(val.Atom); ok && string(at) == "none" {
			return val.A(fmt.Sprint(common.NonEmptyMultiBytes(bzs)))
		}
		return val.A(fmt.Sprint(common.NonEmptyMultiBytes(bzs, int(val.AsInt64(a[1])))))
	})
	// dln_unmarshal_verify [wire parts] h1 h2 N : decode, then verify when the decoder accepts
	vc.Register("dln_unmarshal_verify", func(a []val.V) val.V {
		pf, err := dlnproof.UnmarshalDLNProof(val.AsBytesList(a[0]))
		if err != nil || pf == nil {
			return val.Err
		}
		return val.Ok(okb(pf.Verify(val.AsInt(a[1]), val.AsInt(a[2]), val.AsInt(a[3]))))
	})
	vc.Register("dln_unmarshal", func(a []val.V) val.V {
		pf, err := dlnproof.UnmarshalDLNProof(val.AsBytesList(a[0]))
		if err != nil || pf == nil {
			return val.Err
		}
		return val.Ok(val.L(val.Ints(pf.Alpha[:]), val.Ints(pf.T[:])))
	})
	// mod_verify #session N [W X*80 A B Z*80]
	vc.Register("mod_verify", func(a []val.V) val.V {
		p := val.AsInts(a[2])
		if len(p) != 2*modproof.Iterations+3 {
			return val.A("BadCase")
		}
		pf := &modproof.ProofMod{W: p[0], A: p[modproof.Iterations+1], B: p[modproof.Iterations+2]}
		copy(pf.X[:], p[1:modproof.Iterations+1])
		copy(pf.Z[:], p[modproof.Iterations+3:])
		return okb(pf.Verify(sessBuf(a[0]), val.AsInt(a[1])))
	})
	// fac_verify curve #session N0 NCap s t [11]
	vc.Register("fac_verify", func(a []val.V) val.V {
		ec := curveByName(val.AsAtom(a[0]))
		p := val.AsInts(a[6])
		pf := &facproof.ProofFac{P: p[0], Q: p[1], A: p[2], B: p[3], T: p[4], Sigma: p[5], Z1: p[6], Z2: p[7], W1: p[8], W2: p[9], V: p[10]}
		return okb(pf.Verify(sessBuf(a[1]), ec, val.AsInt(a[2]), val.AsInt(a[3]), val.AsInt(a[4]), val.AsInt(a[5])))
	})
	// dln_verify h1 h2 N [alpha*128] [t*128]
	vc.Register("dln_verify", func(a []val.V) val.V {
		al, t := val.AsInts(a[3]), val.AsInts(a[4])
		if len(al) != dlnproof.Iterations || len(t) != dlnproof.Iterations {
			return val.A("BadCase")
		}
		pf := &dlnproof.Proof{}
		copy(pf.Alpha[:], al)
		copy(pf.T[:], t)
		return okb(pf.Verify(val.AsInt(a[0]), val.AsInt(a[1]), val.AsInt(a[2])))
	})
	// pai_verify N k [pub] [13]
	vc.Register("pai_verify", func(a []val.V) val.V {
		pub := pointOf(curveByName("secp256k1"), a[2])
		if pub == nil {
			return val.Err
		}
		p := val.AsInts(a[3])
		var pf paillier.Proof
		if len(p) != paillier.ProofIters {
			return val.A("BadCase")
		}
		copy(pf[:], p)
		ok, err := pf.Verify(val.AsInt(a[0]), val.AsInt(a[1]), pub)
		if err != nil {
			return val.Err
		}
		return okb(ok)
	})
	// vss_reconstruct curve [[t id share] ...]
	vc.Register("vss_reconstruct", func(a []val.V) val.V {
		ec := curveByName(val.AsAtom(a[0]))
		shares := make(vss.Shares, 0)
		for _, s := range val.AsList(a[1]) {
			l := val.AsList(s)
			shares = append(shares, &vss.Share{Threshold: int(val.AsInt64(l[0])), ID: val.AsInt(l[1]), Share: val.AsInt(l[2])})
		}
		sec, err := shares.ReConstruct(ec)
		if err != nil {
			return val.Err
		}
		return val.Ok(val.I(sec))
	})
}
