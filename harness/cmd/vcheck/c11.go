package main

import (
	"crypto/elliptic"
	"fmt"
	"github.com/bnb-chain/tss-lib/v2/common"
	"github.com/bnb-chain/tss-lib/v2/crypto/modproof"
	ecdsakeygen "github.com/bnb-chain/tss-lib/v2/ecdsa/keygen"
	"math/big"
	"math/rand"
	"strings"
	"verif/harness/internal/sched"

	"github.com/bnb-chain/tss-lib/v2/tss"

	"verif/harness/internal/val"
	"verif/harness/internal/vc"
)

func init() {
	gens["C11"] = genC11
	gens["C12"] = genC12
}

func accepted(o val.V) bool { return o.String() == okb(true).String() }

// proveBad runs a prover op on a false statement / out-of-range witness and feeds the result to the verifier.
func proveBad(r *vc.Run, family, proveOp string, proveArgs []val.V, verifyOp string, build func(proof val.V) []val.V) {
	obs := r.Case("prove-bad/"+family, true, proveOp, proveArgs...)
	l, ok := obs.(val.List)
	if !ok || len(l) != 2 || l[0].String() != "Ok" {
		return // the prover itself refused or failed: nothing to verify
	}
	vargs := build(l[1])
	v := r.Case("verify-bad/"+family, true, verifyOp, vargs...)
	if accepted(v) {
		r.Violate("false-statement-accepted|"+family, "the verifier accepts a proof produced for a statement outside the language: "+family, vc.Line(proveOp, proveArgs), vc.Line(verifyOp, vargs))
	}
}

func genC11(r *vc.Run) {
	r.Rule = "the library's own provers run on false statements and out-of-range witnesses (wrong discrete log, h2 outside <h1>, plaintext / multiplier / mask just beyond and far beyond q^3 / q^7, wrong public point, moduli that are prime, even, prime powers, products with a factor = 1 mod 4, moduli with a small factor), plus accepted transcripts with one response moved just outside its bound; every verdict is compared with the Coq verifier models and must be a rejection; Paillier operations at every domain bound; non-trivial = all cases"
	g := rng{r}
	keys, _ := fixtures()
	ec := tss.S256()
	q := ec.Params().N
	q3 := q3of(q)
	q7 := mul(mul(q3, q3), q)
	session := []byte("c11")
	// ---- wrong discrete log (both curves): prove with x but state X' = (x+d)*G
	for _, cn := range []string{"secp256k1", "ed25519"} {
		qq := curveByName(cn).Params().N
		for _, dlt := range []int64{1, 2, -1} {
			x := g.below(qq)
			a := add(g.below(add(qq, -2)), 1)
			Xw, _ := vc.Exec("ec_base_mul", []val.V{val.A(cn), val.I(new(big.Int).Mod(add(x, dlt), qq))})
			xl, ok := Xw.(val.List)
			if !ok || len(xl) != 2 {
				continue
			}
			proveBad(r, "schnorr-wrong-dlog/"+cn, "schnorr_prove", []val.V{val.A(cn), val.B(session), val.I(x), val.I(a)}, "schnorr_verify",
				func(p val.V) []val.V {
					pl := val.AsList(p)
					return []val.V{val.A(cn), val.B(session), xl[1], pl[0], pl[1]}
				})
		}
	}
	kA, kB := keys[0], keys[1]
	N := kA.PaillierSK.N
	// ---- Alice: plaintext beyond q^3
	for _, m := range []*big.Int{add(q3, 1), mul(q3, big.NewInt(2)), mul(q3, q), new(big.Int).Lsh(q3, 200)} {
		x := g.unit(N)
		cv, _ := vc.Exec("pai_encrypt", []val.V{val.I(N), val.I(m), val.I(x)})
		cl, ok := cv.(val.List)
		if !ok || len(cl) != 2 {
			continue
		}
		rnd := []*big.Int{g.below(q3), g.unit(N), g.below(mul(q3, kB.NTildei)), g.below(mul(q, kB.NTildei))}
		proveBad(r, "alice-plaintext-beyond-q3", "alice_prove", []val.V{val.A("secp256k1"), val.I(N), cl[1], val.I(kB.NTildei), val.I(kB.H1i), val.I(kB.H2i), val.I(m), val.I(x), val.Ints(rnd)},
			"alice_verify", func(p val.V) []val.V {
				return []val.V{val.A("secp256k1"), val.I(N), val.I(kB.NTildei), val.I(kB.H1i), val.I(kB.H2i), cl[1], p}
			})
	}
	// ---- Bob: multiplier beyond q^3, mask beyond q^7, inconsistent public point
	mk := func(bmul, y *big.Int, wrongPoint bool, family string) {
		mA := g.below(q)
		xA := g.unit(N)
		cAv, _ := vc.Exec("pai_encrypt", []val.V{val.I(N), val.I(mA), val.I(xA)})
		cA := val.AsList(cAv)[1]
		rB := g.unit(N)
		ym := new(big.Int).Mod(y, N)
		cy, _ := vc.Exec("pai_encrypt", []val.V{val.I(N), val.I(ym), val.I(rB)})
		c1b, _ := vc.Exec("pai_homo_mult", []val.V{val.I(N), val.I(new(big.Int).Mod(bmul, N)), cA})
		c2v, _ := vc.Exec("pai_homo_add", []val.V{val.I(N), val.AsList(c1b)[1], val.AsList(cy)[1]})
		c2 := val.AsList(c2v)[1]
		brnd := []*big.Int{g.below(q3), g.below(mul(q, kA.NTildei)), g.below(mul(q, kA.NTildei)), g.below(mul(q3, kA.NTildei)), g.below(mul(q3, kA.NTildei)), g.unit(N), g.below(q7)}
		if !wrongPoint {
			proveBad(r, family, "bob_prove", []val.V{val.A("secp256k1"), val.B(session), val.I(N), val.I(kA.NTildei), val.I(kA.H1i), val.I(kA.H2i), cA, c2, val.I(bmul), val.I(y), val.I(rB), val.A("none"), val.Ints(brnd)},
				"bob_verify", func(p val.V) []val.V {
					return []val.V{val.A("secp256k1"), val.B(session), val.I(N), val.I(kA.NTildei), val.I(kA.H1i), val.I(kA.H2i), cA, c2, val.AsList(p)[0]}
				})
			return
		}
		// prover uses the true point b*G (it has to: U = alpha*G), verifier is given (b+1)*G
		Bt, _ := vc.Exec("ec_base_mul", []val.V{val.A("secp256k1"), val.I(bmul)})
		Bw, _ := vc.Exec("ec_base_mul", []val.V{val.A("secp256k1"), val.I(add(bmul, 1))})
		proveBad(r, family, "bob_prove", []val.V{val.A("secp256k1"), val.B(session), val.I(N), val.I(kA.NTildei), val.I(kA.H1i), val.I(kA.H2i), cA, c2, val.I(bmul), val.I(y), val.I(rB), val.AsList(Bt)[1], val.Ints(brnd)},
			"bobwc_verify", func(p val.V) []val.V {
				pl := val.AsList(p)
				return []val.V{val.A("secp256k1"), val.B(session), val.I(N), val.I(kA.NTildei), val.I(kA.H1i), val.I(kA.H2i), cA, c2, pl[0], pl[1], val.AsList(Bw)[1]}
			})
	}
	q5 := mul(q3, mul(q, q))
	for _, b := range []*big.Int{add(q3, 1), mul(q3, big.NewInt(3)), mul(q3, q), mul(q3, mul(q, q)), mul(q3, q3)} {
		mk(b, g.below(q5), false, "bob-multiplier-beyond-q3")
	}
	for _, y := range []*big.Int{add(q7, 1), mul(q7, big.NewInt(2)), mul(q7, q)} {
		mk(g.below(q), y, false, "bob-mask-beyond-q7")
	}
	for i := 0; i < 3; i++ {
		mk(add(g.below(add(q, -3)), 1), g.below(q5), true, "bobwc-wrong-point")
	}
	// ---- DLN: h2 not the claimed power of h1
	{
		pq := mul(kA.P, kA.Q)
		as := make([]*big.Int, 128)
		for i := range as {
			as[i] = g.below(pq)
		}
		for _, h2 := range []*big.Int{new(big.Int).Mod(mul(kA.H2i, big.NewInt(2)), kA.NTildei), new(big.Int).Sub(kA.NTildei, kA.H2i), add(kA.H2i, 1)} {
			proveBad(r, "dln-h2-not-power", "dln_prove", []val.V{val.I(kA.H1i), val.I(h2), val.I(kA.Alpha), val.I(kA.P), val.I(kA.Q), val.I(kA.NTildei), val.Ints(as)},
				"dln_verify", func(p val.V) []val.V {
					pl := val.AsList(p)
					return []val.V{val.I(kA.H1i), val.I(h2), val.I(kA.NTildei), pl[0], pl[1]}
				})
		}
	}
	// ---- fac proof: modulus with a factor far below its square root (both orders of the factors)
	{
		small := bi("115792089237316195423570985008687907853269984665640564039457584007913129640233") // a 256-bit prime
		big1 := kA.PaillierSK.P
		// (N0 is kept below ~2180 bits: the sampler refuses draws above 5000 bits)
		big2 := mul(big1, new(big.Int).Rsh(kA.PaillierSK.Q, 300))
		for ui, unb := range [][2]*big.Int{{small, big2}, {big2, small}, {big.NewInt(65537), big2}, {small, big1}, {big1, small}} {
			N0 := mul(unb[0], unb[1])
			family := "fac-small-factor"
			if ui >= 3 {
				// factor only 2^384 below the square root: inside the proof's q^3 slack, acceptance is legitimate;
				// kept as a correspondence case (the model must agree), without the rejection oracle
				family = "fac-within-slack"
			}
			sq := new(big.Int).Sqrt(N0)
			frnd := []*big.Int{g.below(mul(q3, sq)), g.below(mul(q3, sq)), g.below(mul(q, kB.NTildei)), g.below(mul(q, kB.NTildei)),
				g.below(mul(mul(q, kB.NTildei), N0)), g.unit(mul(mul(q3, kB.NTildei), N0)), g.below(mul(q3, kB.NTildei)), g.below(mul(q3, kB.NTildei))}
			if family == "fac-within-slack" {
				o := r.Case("prove/"+family, true, "fac_prove", val.A("secp256k1"), val.B(session), val.I(N0), val.I(kB.NTildei), val.I(kB.H1i), val.I(kB.H2i), val.I(unb[0]), val.I(unb[1]), val.Ints(frnd))
				if ol, ok := o.(val.List); ok && len(ol) == 2 {
					r.Case("verify/"+family, true, "fac_verify", val.A("secp256k1"), val.B(session), val.I(N0), val.I(kB.NTildei), val.I(kB.H1i), val.I(kB.H2i), ol[1])
				}
				continue
			}
			proveBad(r, family, "fac_prove", []val.V{val.A("secp256k1"), val.B(session), val.I(N0), val.I(kB.NTildei), val.I(kB.H1i), val.I(kB.H2i), val.I(unb[0]), val.I(unb[1]), val.Ints(frnd)},
				"fac_verify", func(p val.V) []val.V {
					return []val.V{val.A("secp256k1"), val.B(session), val.I(N0), val.I(kB.NTildei), val.I(kB.H1i), val.I(kB.H2i), p}
				})
		}
	}
	// ---- mod proof on moduli that are not Paillier-Blum: the honest proof for a good N replayed against bad moduli,
	// and the prover run on (N = P*Q') with Q' = 1 mod 4
	for _, in := range honestInstances(r, "c11") {
		if in.op != "mod_verify" {
			continue
		}
		P := kA.PaillierSK.P
		bad := map[string]*big.Int{"prime": P, "even": mul(P, big.NewInt(2)), "prime-power": mul(P, P), "N+2": add(N, 2), "N*3": mul(N, big.NewInt(3))}
		for name, nb := range bad {
			args := substitute(in.args, leafPath{1}, val.I(nb))
			o := r.Case("verify-bad/mod-"+name, true, in.op, args...)
			if accepted(o) {
				r.Violate("false-statement-accepted|mod-"+name, "modproof accepts a modulus that is "+name, vc.Line(in.op, args))
			}
		}
	}
	{
		// Q' = smallest prime = 1 mod 4 above 2^1023 is expensive to find; use a known 1 mod 4 prime of moderate size with P
		Qp := bi("115792089237316195423570985008687907853269984665640564039457584007913129640233") // = 1 mod 8
		if new(big.Int).Mod(Qp, big.NewInt(4)).Int64() == 1 {
			Nb := mul(kA.PaillierSK.P, Qp)
			for tries := 0; tries < 3; tries++ {
				var W *big.Int
				for {
					W = g.below(Nb)
					if W.Sign() > 0 && big.Jacobi(W, Nb) == -1 {
						break
					}
				}
				proveBad(r, "mod-factor-1-mod-4", "mod_prove", []val.V{val.B(session), val.I(Nb), val.I(kA.PaillierSK.P), val.I(Qp), val.I(W)},
					"mod_verify", func(p val.V) []val.V { return []val.V{val.B(session), val.I(Nb), p} })
			}
		}
	}
	// ---- Paillier key proof: modulus divisible by a small prime / sharing a factor with phi is not accepted
	for _, in := range honestInstances(r, "c11p") {
		if in.op != "pai_verify" {
			continue
		}
		for _, nb := range []*big.Int{mul(N, big.NewInt(3)), mul(N, big.NewInt(997)), mul(kA.PaillierSK.P, big.NewInt(2)), add(N, 2)} {
			args := substitute(in.args, leafPath{0}, val.I(nb))
			o := r.Case("verify-bad/pai-modulus", true, in.op, args...)
			if accepted(o) {
				r.Violate("false-statement-accepted|pai-modulus", "the Paillier key proof of another modulus is accepted", vc.Line(in.op, args))
			}
		}
	}
	// ---- transcripts satisfying every equation but one bound: accepted instance with a response pushed over its bound
	for _, in := range honestInstances(r, "c11b") {
		type push struct {
			path  leafPath
			vals  []*big.Int
			label string
		}
		var ps []push
		switch in.op {
		case "alice_verify":
			ps = []push{{leafPath{6, 4}, []*big.Int{add(q3, 1), mul(q3, big.NewInt(2)), add(q, -1), big.NewInt(0)}, "S1"}, {leafPath{6, 5}, []*big.Int{add(q, -1), big.NewInt(0)}, "S2"}}
		case "bob_verify", "bobwc_verify":
			ps = []push{{leafPath{8, 6}, []*big.Int{add(q3, 1), mul(q3, q), add(q, -1)}, "S1"}, {leafPath{8, 8}, []*big.Int{add(q7, 1), mul(q7, q), add(q, -1)}, "T1"},
				{leafPath{8, 7}, []*big.Int{add(q, -1)}, "S2"}, {leafPath{8, 9}, []*big.Int{add(q, -1)}, "T2"}}
		case "fac_verify":
			b := mul(q3, new(big.Int).Sqrt(val.AsInt(in.args[2])))
			ps = []push{{leafPath{6, 6}, []*big.Int{b, add(b, 1), mul(b, big.NewInt(2)), big.NewInt(-1)}, "Z1"}, {leafPath{6, 7}, []*big.Int{b, add(b, 1), mul(b, big.NewInt(1<<20))}, "Z2"}}
		}
		for _, p := range ps {
			for _, v := range p.vals {
				args := substitute(in.args, p.path, val.I(v))
				o := r.Case("bound/"+in.label+"-"+p.label, true, in.op, args...)
				if accepted(o) {
					r.Violate(fmt.Sprintf("bound-not-enforced|%s|%s", in.op, p.label), fmt.Sprintf("%s accepts %s outside its bound", in.op, p.label), vc.Line(in.op, args))
				}
			}
		}
	}
	// a dishonest Bob written from the paper (wrong public point, s1 = 0 mod q, U chosen after the challenge, the mirrored claim)
	c13DishonestBob(r, rng{r})
	// every equation holds, one response just over its bound; secp256k1 first, then P-256
	c11OverBound(r, rng{r})
	// the Paillier key proof: prover and verifier against the model (its 13 challenges come from one indexed hash chain)
	{
		keys, _ := fixtures()
		for ki := 0; ki < 2; ki++ {
			kA := keys[ki]
			for _, kk := range []*big.Int{big.NewInt(1), big.NewInt(565), new(big.Int).Lsh(big.NewInt(1), 200)} {
				proveThenVerify(r, "pai", "pai_prove", []val.V{skV(kA.PaillierSK), val.I(kk), pointV(kA.ECDSAPub)},
					"pai_verify", func(p val.V) []val.V { return []val.V{val.I(kA.PaillierSK.N), val.I(kk), pointV(kA.ECDSAPub), p} }, false)
			}
		}
	}
}

// ---------------- C12 ----------------
func genC12(r *vc.Run) {
	r.Rule = "accepted proofs of every system under single transformations: every component (sampled indices of the 13/80/128-fold parts) replaced by +1, -1, a random value, its neighbour, zero; every session / statement component perturbed; the same proof offered under another prover's context (index appended to the session); commitment-response shift attacks (alpha + d*G with t + d); verdicts compared with the Coq verifier models; the session strings of key generation runs on two curves checked from the wire against their specification; key generation runs under each single compatibility option (SetNoProofFac only, SetNoProofMod only) with the still-wanted proof made undecodable in transit, which must be refused and attributed; any accepted transformed proof is a violation, except replacing a scalar response by a value congruent modulo the group order; non-trivial = all cases"
	g := rng{r}
	insts := honestInstances(r, "c12")
	q := tss.S256().Params().N
	for _, in := range insts {
		leaves := intLeaves(in.args, r.Pick(3, 12))
		for _, p := range leaves {
			orig := leafAt(in.args, p)
			if orig == nil {
				continue
			}
			role := argRole(in.op, p)
			cands := map[string]*big.Int{"+1": add(orig, 1), "-1": add(orig, -1), "zero": big.NewInt(0), "random": g.below(add(new(big.Int).Abs(orig), 7))}
			// negation in each group the value could live in: q - v, 2q - v (scalars), p - v (coordinates: the negated point), M - v for
			// every large modulus among the statement arguments (N, NTilde, ...): an x-only or square-only comparison accepts these
			proofArgs := map[string][]int{"schnorr_verify": {3, 4}, "schnorrv_verify": {4, 5, 6}, "alice_verify": {6}, "bob_verify": {8}, "bobwc_verify": {8, 9},
				"mod_verify": {2}, "fac_verify": {6}, "dln_verify": {3, 4}, "pai_verify": {3}, "vss_verify": {3}}[in.op]
			isProof := false
			for _, pa := range proofArgs {
				isProof = isProof || p[0] == pa
			}
			// the negations apply to proof components only (the verifier's own ring-Pedersen parameters are not part of any transcript, by
			// the protocol's design); the x_i of the modulus proof are fourth roots, and any of the four roots is the same response
			if in.op == "mod_verify" && len(p) == 2 && p[1] >= 1 && p[1] <= 80 {
				isProof = false
			}
			if cn, ok := in.args[0].(val.Atom); ok && isProof {
				if ec := curveByName(string(cn)); ec != nil {
					cq, cp := ec.Params().N, ec.Params().P
					if orig.Sign() > 0 && orig.Cmp(cq) < 0 {
						cands["neg-q"] = new(big.Int).Sub(cq, orig)
						cands["neg-2q"] = new(big.Int).Sub(new(big.Int).Lsh(cq, 1), orig)
					}
					if orig.Sign() > 0 && orig.Cmp(cp) < 0 {
						cands["neg-p"] = new(big.Int).Sub(cp, orig)
					}
				}
			}
			for ai, a := range in.args {
				if m, ok := a.(val.Int); ok && isProof && m.X != nil && m.X.BitLen() > 500 && orig.Sign() > 0 && orig.Cmp(m.X) < 0 && (len(p) != 1 || p[0] != ai) {
					cands[fmt.Sprintf("neg-arg%d", ai)] = new(big.Int).Sub(m.X, orig)
				}
			}
			// neighbour swap inside a list
			if len(p) >= 2 {
				if nb := leafAt(in.args, append(append(leafPath{}, p[:len(p)-1]...), p[len(p)-1]+1)); nb != nil {
					cands["neighbour"] = nb
				}
			}
			for name, v := range cands {
				if v.Cmp(orig) == 0 {
					continue
				}
				args := substitute(in.args, p, val.I(v))
				o := r.Case("transform/"+in.label+"/"+name, true, in.op, args...)
				if accepted(o) {
					// threshold argument t of vss_verify and congruent scalars are not violations
					r.Violate(fmt.Sprintf("malleable|%s|%s|%s", opSite(in.op), role, name), fmt.Sprintf("%s accepts a proof whose %s was replaced (%s)", opSite(in.op), role, name), vc.Line(in.op, args))
				}
			}
		}
		// session perturbations / replay in another prover's context
		for i, a := range in.args {
			if b, ok := a.(val.Bytes); ok {
				for name, nb := range map[string][]byte{"append-index": append(append([]byte{}, b...), 1), "truncate": b[:len(b)-1], "flip": append([]byte{b[0] ^ 1}, b[1:]...), "empty": {}} {
					args := append([]val.V{}, in.args...)
					args[i] = val.B(nb)
					o := r.Case("session/"+in.label+"/"+name, true, in.op, args...)
					if accepted(o) {
						r.Violate("replay-other-session|"+opSite(in.op), fmt.Sprintf("%s accepts a proof under a different session (%s)", opSite(in.op), name), vc.Line(in.op, args))
					}
				}
			}
		}
		// shift attack on Schnorr: (alpha + d*G, t + d)
		if in.op == "schnorr_verify" {
			cn := val.AsAtom(in.args[0])
			for _, dv := range []int64{1, 2, 12345} {
				dG, _ := vc.Exec("ec_base_mul", []val.V{val.A(cn), val.I64(dv)})
				na, _ := vc.Exec("ec_add", []val.V{val.A(cn), in.args[3], val.AsList(dG)[1]})
				nl, ok := na.(val.List)
				if !ok || len(nl) != 2 {
					continue
				}
				args := []val.V{in.args[0], in.args[1], in.args[2], nl[1], val.I(add(val.AsInt(in.args[4]), dv))}
				o := r.Case("shift/"+in.label, true, in.op, args...)
				if accepted(o) {
					r.Violate("shift-attack|"+cn, "a commitment/response shift of a Schnorr proof is accepted", vc.Line(in.op, args))
				}
				// congruent response: t + q must still verify (equivalent in the group)
				cargs := []val.V{in.args[0], in.args[1], in.args[2], in.args[3], val.I(new(big.Int).Add(val.AsInt(in.args[4]), curveByName(cn).Params().N))}
				co := r.Case("congruent/"+in.label, true, in.op, cargs...)
				if !accepted(co) {
					r.Note("%s: t + q rejected (%s)", in.label, co.String())
				}
			}
		}
	}
	_ = q
	c12Replays(r)
	c12Shifts(r, insts)
	c12Options(r)
	c12SessionStrings(r)
	// the challenge derivation itself: with the provers' randomness fixed, model and implementation must produce identical proofs
	// (a component missing from, or added to, the hashed transcript changes every response)
	c10Light = true
	c10Body(r)
	c10Light = false
}

// c12Replays: at protocol level, another participant's ring-Pedersen parameters with their (session-less) DLN proofs replayed as one's own,
// verbatim and with the two generators and their proofs exchanged, must be refused by every honest party.
func c12Replays(r *vc.Run) {
	for _, fr := range faultRunners() {
		if fr.proto != "ecdsa_keygen" {
			continue
		}
		for _, kind := range []string{"mirror-swap", "mirror"} {
			f := fault{fr.proto, "N2", "KGRound1Message", "*", 0, kind}
			res := runFault(fr, f, r.Seed+int64(len(kind)))
			r.Dist["replay/"+kind]++
			r.CountCase(f.String(), res.Applied > 0, fmt.Sprintf("%s => culprits=%v", f.String(), res.Culprits))
			refused := false
			for _, t := range res.ErrText {
				refused = refused || strings.Contains(t, "KGRound1Message")
			}
			if res.Applied > 0 && !refused {
				r.Violate("replay-accepted|"+fr.proto+"|KGRound1Message|"+kind, "another participant's parameters and DLN proofs were replayed by N2 and no honest party refused that message", f.String())
			}
		}
	}
}

// c12Shifts: re-simulation attacks. For a commitment a and response z linked by g^z = a * y^c, the pair (a*g^d, z+d) satisfies the
// verification equation under the SAME challenge c; it must be rejected because a is part of the hashed transcript.
func c12Shifts(r *vc.Run, insts []instance) {
	expm := func(b, e, m *big.Int) *big.Int { return new(big.Int).Exp(b, e, m) }
	mulm := func(a, b, m *big.Int) *big.Int { return new(big.Int).Mod(new(big.Int).Mul(a, b), m) }
	try := func(in instance, what string, args []val.V) {
		o := r.Case("shift/"+in.label+"/"+what, true, in.op, args...)
		if accepted(o) {
			r.Violate("shift-attack|"+opSite(in.op)+"|"+what, fmt.Sprintf("%s accepts a re-simulated commitment/response pair (%s): the commitment is not bound by the challenge", opSite(in.op), what), vc.Line(in.op, args))
		}
	}
	for _, in := range insts {
		switch in.op {
		case "dln_verify":
			h1, N := val.AsInt(in.args[0]), val.AsInt(in.args[2])
			al, ts := val.AsInts(in.args[3]), val.AsInts(in.args[4])
			for _, i := range []int{0, 1, 2, 63, 64, 126, 127} {
				for _, d := range []int64{1, 12345} {
					na, nt := append([]*big.Int{}, al...), append([]*big.Int{}, ts...)
					na[i] = mulm(al[i], expm(h1, big.NewInt(d), N), N)
					nt[i] = add(ts[i], d)
					try(in, fmt.Sprintf("alpha[%d]", i), []val.V{in.args[0], in.args[1], in.args[2], val.Ints(na), val.Ints(nt)})
				}
			}
		case "schnorrv_verify":
			cn := val.AsAtom(in.args[0])
			for _, dv := range []int64{1, 777} {
				// alpha + d*R with t + d ; alpha + d*G with u + d
				dR, _ := vc.Exec("ec_smul", []val.V{val.A(cn), in.args[3], val.I64(dv)})
				dG, _ := vc.Exec("ec_base_mul", []val.V{val.A(cn), val.I64(dv)})
				for k, sh := range []val.V{dR, dG} {
					na, _ := vc.Exec("ec_add", []val.V{val.A(cn), in.args[4], val.AsList(sh)[1]})
					nl, ok := na.(val.List)
					if !ok || len(nl) != 2 {
						continue
					}
					t, u := val.AsInt(in.args[5]), val.AsInt(in.args[6])
					if k == 0 {
						t = add(t, dv)
					} else {
						u = add(u, dv)
					}
					try(in, []string{"alpha+dR", "alpha+dG"}[k], []val.V{in.args[0], in.args[1], in.args[2], in.args[3], nl[1], val.I(t), val.I(u)})
				}
			}
		case "alice_verify":
			// [z u w s s1 s2]: w = h1^s1 h2^s2 z^-e mod NTilde ; u = Gamma^s1 s^N c^-e mod N^2
			N, nt, h2 := val.AsInt(in.args[1]), val.AsInt(in.args[2]), val.AsInt(in.args[4])
			p := val.AsInts(in.args[6])
			N2 := mul(N, N)
			for _, d := range []int64{1, 4242} {
				np := append([]*big.Int{}, p...)
				np[2] = mulm(p[2], expm(h2, big.NewInt(d), nt), nt)
				np[5] = add(p[5], d)
				try(in, "w", append(append([]val.V{}, in.args[:6]...), val.Ints(np)))
				np = append([]*big.Int{}, p...)
				x := big.NewInt(d + 1)
				np[1] = mulm(p[1], expm(x, N, N2), N2)
				np[3] = mulm(p[3], x, N)
				try(in, "u", append(append([]val.V{}, in.args[:6]...), val.Ints(np)))
			}
		case "bob_verify", "bobwc_verify":
			// [z z' t v w s s1 s2 t1 t2]: z' z^e = h1^s1 h2^s2 ; w t^e = h1^t1 h2^t2 (mod NTilde) ; c1^s1 s^N Gamma^t1 = c2^e v (mod N^2)
			N, nt, h2 := val.AsInt(in.args[2]), val.AsInt(in.args[3]), val.AsInt(in.args[5])
			p := val.AsInts(in.args[8])
			N2 := mul(N, N)
			rebuild := func(np []*big.Int) []val.V {
				a := append([]val.V{}, in.args...)
				a[8] = val.Ints(np)
				return a
			}
			for _, d := range []int64{1, 4242} {
				np := append([]*big.Int{}, p...)
				np[1] = mulm(p[1], expm(h2, big.NewInt(d), nt), nt)
				np[7] = add(p[7], d)
				try(in, "zprm", rebuild(np))
				np = append([]*big.Int{}, p...)
				np[4] = mulm(p[4], expm(h2, big.NewInt(d), nt), nt)
				np[9] = add(p[9], d)
				try(in, "w", rebuild(np))
				np = append([]*big.Int{}, p...)
				x := big.NewInt(d + 1)
				np[3] = mulm(p[3], expm(x, N, N2), N2)
				np[5] = mulm(p[5], x, N)
				try(in, "v", rebuild(np))
			}
		case "fac_verify":
			// [P Q A B T sigma z1 z2 w1 w2 v]: s^z1 t^w1 = A P^e ; s^z2 t^w2 = B Q^e ; Q^z1 t^v = T R^e   (s = h1, t = h2 of the verifier, mod NTilde)
			nt, h2 := val.AsInt(in.args[3]), val.AsInt(in.args[5])
			p := val.AsInts(in.args[6])
			for _, d := range []int64{1, 4242} {
				for _, pr := range [][3]interface{}{{2, 8, "A"}, {3, 9, "B"}, {4, 10, "T"}} {
					ci, ri := pr[0].(int), pr[1].(int)
					np := append([]*big.Int{}, p...)
					np[ci] = mulm(p[ci], expm(h2, big.NewInt(d), nt), nt)
					np[ri] = add(p[ri], d)
					try(in, pr[2].(string), append(append([]val.V{}, in.args[:6]...), val.Ints(np)))
				}
			}
		}
	}
}

func leafAt(args []val.V, p leafPath) *big.Int {
	var v val.V = val.List(args)
	for _, i := range p {
		l, ok := v.(val.List)
		if !ok || i >= len(l) {
			return nil
		}
		v = l[i]
	}
	if x, ok := v.(val.Int); ok {
		return x.X
	}
	return nil
}

// c12Options: the two compatibility options of tss.Parameters are separate: a committee that waives the factorisation
// proofs (SetNoProofFac) still wants the modulus proofs, and the other way round. Under each single option the proof that
// is still wanted is made undecodable in transit (emptied, one part dropped, one part emptied): the receiver must refuse it
// and name the sender.
func c12Options(r *vc.Run) {
	type oc struct {
		name          string
		mod, fac      bool
		typ, field    string
		mustBeRefused bool
	}
	cases := []oc{
		{"NoProofFac-only", false, true, "KGRound2Message2", "modProof", true},
		{"NoProofMod-only", true, false, "KGRound2Message1", "facProof", true},
	}
	for ci, c := range cases {
		fr := faultRunner{proto: "ecdsa_keygen", cost: 400,
			build: func(seed int64) *runCtx {
				return buildECDSAKeygen(2, 1, kgOpts{seed: fmt.Sprintf("c12o-%d", seed), noProofMod: c.mod, noProofFac: c.fac})
			},
			judge: func(rc *runCtx, honest []*sched.Node) string { return judgeKeygen(rc, honest, "secp256k1", 1) }}
		faults := []fault{{"ecdsa_keygen", "N1", c.typ, c.field, -1, "empty"}, {"ecdsa_keygen", "N1", c.typ, c.field, 0, "drop-last"}}
		if r.Thorough() {
			faults = append(faults, fault{"ecdsa_keygen", "N1", c.typ, c.field, 1, "empty"}, fault{"ecdsa_keygen", "N1", c.typ, c.field, 0, "append"})
		}
		for fi, f := range faults {
			res := runFault(fr, f, r.Seed+int64(100*ci+fi))
			desc := fmt.Sprintf("%s under %s", f.String(), c.name)
			r.Dist["options/"+c.name+"/"+f.Kind]++
			r.CountCase(desc, res.Applied > 0, fmt.Sprintf("%s => finished=%v culprits=%v", desc, res.Finished, res.Culprits))
			r.Note("%s: applied=%d finished=%v culprits=%v", desc, res.Applied, res.Finished, res.Culprits)
			if res.Applied == 0 {
				continue
			}
			if len(res.Finished) > 0 || res.BadOutput != "" {
				r.Violate("undecodable-proof-accepted|"+c.field+"|"+c.name, fmt.Sprintf("key generation completed although the %s of one participant could not be decoded and only the other kind of proof was waived (%s): finished=%v", c.field, c.name, res.Finished), desc)
				continue
			}
			named := false
			for _, cs := range res.Culprits {
				for _, x := range cs {
					named = named || x == "N1"
				}
			}
			if !named {
				r.Violate("undecodable-proof-not-attributed|"+c.field+"|"+c.name, fmt.Sprintf("nobody names the sender of an undecodable %s (%s): culprits=%v errors=%v", c.field, c.name, res.Culprits, res.ErrText), desc)
			}
		}
	}
}

// c12SessionStrings: the session string of a key generation is the specified function of the run's own context
// (Model/TranscriptSpec.v: parameters of the curve given to tss.NewParameters, the committee's keys, round number 1, nonce 0).
// The modulus proofs on the wire are verified under the session string the harness computes from that specification, with the
// prover's index appended; they must verify, and must not verify under the session string of the same committee on another
// curve. Runs: NIST P-256, and secp256k1 twice in a row (the scheduler sets the process-wide default curve to the other
// registered curve on every second run, so one of the two has a default that differs from the run's curve).
func c12SessionStrings(r *vc.Run) {
	ssidOf := func(ec elliptic.Curve, keys []*big.Int) []byte {
		l := []*big.Int{ec.Params().P, ec.Params().N, ec.Params().Gx, ec.Params().Gy}
		l = append(l, keys...)
		l = append(l, big.NewInt(1), big.NewInt(0))
		return common.SHA512_256i(l...).Bytes()
	}
	for ri, cn := range []string{"p256", "secp256k1", "secp256k1"} {
		ec := curveByName(cn)
		other := tss.S256()
		if cn == "secp256k1" {
			other = elliptic.P256()
		}
		rc := buildECDSAKeygen(2, 1, kgOpts{seed: fmt.Sprintf("c12s-%d-%d", r.Seed, ri), ec: ec})
		rc.net.Rng = rand.New(rand.NewSource(r.Seed + int64(ri)))
		paiN := map[int]*big.Int{}
		proofs := map[int]*modproof.ProofMod{}
		var keys []*big.Int
		for _, n := range rc.net.New {
			keys = append(keys, n.PID.KeyInt())
		}
		rc.net.Tamper = func(c *sched.Copy) {
			msg, err := tss.ParseWireMessage(c.Wire, c.From.PID, c.Bcast)
			if err != nil {
				return
			}
			switch m := msg.Content().(type) {
			case *ecdsakeygen.KGRound1Message:
				paiN[c.From.Idx] = m.UnmarshalPaillierPK().N
			case *ecdsakeygen.KGRound2Message2:
				if pf, err := m.UnmarshalModProof(); err == nil {
					proofs[c.From.Idx] = pf
				}
			}
		}
		rc.net.Run(sched.FIFO, 100000)
		desc := fmt.Sprintf("ecdsa keygen n=2 t=1 on %s (run %d of the session-string check)", cn, ri)
		r.Dist["session-string/"+cn]++
		r.CountCase(desc, len(proofs) == 2, fmt.Sprintf("%s: %d modulus proofs seen", desc, len(proofs)))
		for j, pf := range proofs {
			if paiN[j] == nil {
				continue
			}
			ctx := common.AppendBigIntToBytesSlice(ssidOf(ec, keys), big.NewInt(int64(j)))
			if !pf.Verify(ctx, paiN[j]) {
				r.Violate("tie|session-string-not-as-specified|ecdsa_keygen|"+cn, fmt.Sprintf("the modulus proof of party %d does not verify under the session string made of the run's own curve (%s), the committee, round 1 and nonce 0: the parties derived their session string from something else", j, cn), desc)
			}
			ctx2 := common.AppendBigIntToBytesSlice(ssidOf(other, keys), big.NewInt(int64(j)))
			if pf.Verify(ctx2, paiN[j]) {
				r.Violate("session-string-ignores-curve|ecdsa_keygen|"+cn, fmt.Sprintf("the modulus proof of party %d made in a run on %s verifies under the session string of the same committee on another curve", j, cn), desc)
			}
		}
	}
}
