// vcheck: the implementation side of the correspondence checks.
//
//	vcheck gen <PROP> --tier quick|thorough --seed N --out DIR
//	    generate cases for the property, run each on /repo's code, apply the
//	    property's direct oracles; writes DIR/cases.txt, DIR/impl.txt, DIR/summary.json
//	vcheck exec            read "id op args..." lines on stdin, print "id obs"
//	vcheck oracle          hash oracle server for the model driver
package main

import (
	"bufio"
	"flag"
	"fmt"
	"os"
	"path/filepath"
	"strings"
	"verif/harness/internal/sched"

	"verif/harness/internal/val"
	"verif/harness/internal/vc"
)

var gens = map[string]func(r *vc.Run){}

func main() {
	if len(os.Args) < 2 {
		fmt.Fprintln(os.Stderr, "usage: vcheck gen|exec|oracle ...")
		os.Exit(2)
	}
	switch os.Args[1] {
	case "gen":
		fs := flag.NewFlagSet("gen", flag.ExitOnError)
		tier := fs.String("tier", "quick", "")
		seed := fs.Int64("seed", 1, "")
		out := fs.String("out", ".", "")
		prop := os.Args[2]
		_ = fs.Parse(os.Args[3:])
		g, ok := gens[prop]
		if !ok {
			fmt.Fprintln(os.Stderr, "no generator for", prop)
			os.Exit(2)
		}
		r := vc.NewRun(prop, *tier, *seed, *out)
		nrun := 0
		sched.Inflight = func(desc string) {
			nrun++
			_ = os.WriteFile(filepath.Join(*out, "inflight.txt"), []byte(fmt.Sprintf("run #%d of %s --tier %s --seed %d: %s\n", nrun, prop, *tier, *seed, desc)), 0o644)
		}
		g(r)
		_ = os.Remove(filepath.Join(*out, "inflight.txt"))
		r.Finish()
	case "exec":
		sc := bufio.NewScanner(os.Stdin)
		sc.Buffer(make([]byte, 1<<20), 1<<28)
		w := bufio.NewWriter(os.Stdout)
		defer w.Flush()
		for sc.Scan() {
			line := strings.TrimSpace(sc.Text())
			if line == "" {
				continue
			}
			sp := strings.SplitN(line, " ", 3)
			if len(sp) < 2 {
				continue
			}
			rest := ""
			if len(sp) == 3 {
				rest = sp[2]
			}
			args, err := val.ParseAll(rest)
			if err != nil {
				fmt.Fprintf(w, "%s BadCase(%v)\n", sp[0], err)
				continue
			}
			obs, detail := vc.Exec(sp[1], args)
			fmt.Fprintf(w, "%s %s\n", sp[0], obs.String())
			if detail != "" && os.Getenv("VERIF_DETAIL") != "" {
				fmt.Fprintf(os.Stderr, "%s: %s\n", sp[0], detail)
			}
		}
	case "faults":
		faultsChild(os.Args[2:])
	case "oracle":
		oracleServer()
	default:
		fmt.Fprintln(os.Stderr, "unknown command", os.Args[1])
		os.Exit(2)
	}
}
