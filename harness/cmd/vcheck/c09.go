package main

import (
	"bytes"
	"fmt"
	"github.com/bnb-chain/tss-lib/v2/common"
	"math/big"
	"math/rand"
	"reflect"
	"runtime"
	"sort"
	"strings"
	"sync"
	"sync/atomic"
	"time"

	"github.com/bnb-chain/tss-lib/v2/tss"

	"verif/harness/internal/sched"
	"verif/harness/internal/val"
	"verif/harness/internal/vc"
)

func init() { gens["C09"] = genC09 }

// runConcurrent drives one protocol run with every Start and every delivery in its own goroutine
// (seeded jitter), while pollers call WaitingFor on every party.
func runConcurrent(rc *runCtx, seed int64, pollers int, noise bool, timeout time.Duration) (delivered map[string][]string, timedOut bool) {
	net := rc.net
	rng := rand.New(rand.NewSource(seed))
	var rmu sync.Mutex
	jitter := func() {
		rmu.Lock()
		k := rng.Intn(4)
		rmu.Unlock()
		for i := 0; i < k; i++ {
			runtime.Gosched()
		}
		if k == 3 {
			time.Sleep(time.Duration(50) * time.Microsecond)
		}
	}
	delivered = map[string][]string{}
	var dmu sync.Mutex
	var inflight int64
	var stop int32
	nodes := net.Nodes()
	tyIdx := func(name string) int {
		for i, t := range net.Types {
			if t == name {
				return i
			}
		}
		return -1
	}
	find := func(pid *tss.PartyID, comm byte) *sched.Node {
		list := net.New
		if comm == 'O' {
			list = net.Old
		}
		for _, n := range list {
			if n.PID.KeyInt().Cmp(pid.KeyInt()) == 0 {
				return n
			}
		}
		return nil
	}
	var wg sync.WaitGroup
	// routers
	for _, n := range nodes {
		n := n
		wg.Add(1)
		go func() {
			defer wg.Done()
			for atomic.LoadInt32(&stop) == 0 {
				select {
				case m := <-n.Out:
					pm := m.(tss.ParsedMessage)
					tname := reflect.TypeOf(pm.Content()).Elem().Name()
					wire, _, err := m.WireBytes()
					if err != nil {
						continue
					}
					var dests []*sched.Node
					to := m.GetTo()
					if len(net.Old) == 0 {
						if to == nil {
							for _, d := range net.New {
								if d != n {
									dests = append(dests, d)
								}
							}
						} else {
							for _, pid := range to {
								if d := find(pid, 'N'); d != nil {
									dests = append(dests, d)
								}
							}
						}
					} else {
						if m.IsToOldCommittee() || m.IsToOldAndNewCommittees() {
							for _, pid := range to {
								if d := find(pid, 'O'); d != nil && d != n {
									dests = append(dests, d)
								}
							}
						}
						if !m.IsToOldCommittee() || m.IsToOldAndNewCommittees() {
							for _, pid := range to {
								if d := find(pid, 'N'); d != nil && d != n {
									dests = append(dests, d)
								}
							}
						}
					}
					for _, d := range dests {
						d := d
						atomic.AddInt64(&inflight, 1)
						go func() {
							defer atomic.AddInt64(&inflight, -1)
							jitter()
							_, uerr := d.Party.UpdateFromBytes(wire, n.PID, m.IsBroadcast())
							dmu.Lock()
							delivered[d.Name] = append(delivered[d.Name], fmt.Sprintf("[%d %d %v]", tyIdx(tname), n.Idx, m.IsBroadcast()))
							if uerr != nil {
								d.Errs = append(d.Errs, uerr.Error())
							}
							dmu.Unlock()
						}()
					}
				case <-time.After(2 * time.Millisecond):
				}
			}
		}()
	}
	// pollers
	for p := 0; p < pollers; p++ {
		for _, n := range nodes {
			n := n
			wg.Add(1)
			go func() {
				defer wg.Done()
				for atomic.LoadInt32(&stop) == 0 {
					// the property names Update, UpdateFromBytes and WaitingFor (String / Running read the round without the lock)
					_ = n.Party.WaitingFor()
					runtime.Gosched()
				}
			}()
		}
	}
	// noise: unparsable wire bytes and a sender that fails validation, offered through the same entry point while the run proceeds;
	// they must be refused without touching party state unsynchronised
	if noise {
		for _, n := range nodes {
			n := n
			wg.Add(1)
			go func() {
				defer wg.Done()
				bad := &tss.PartyID{MessageWrapper_PartyID: &tss.MessageWrapper_PartyID{Id: "x", Moniker: "x", Key: nil}, Index: -1}
				for k := 0; atomic.LoadInt32(&stop) == 0; k++ {
					if k%2 == 0 {
						_, _ = n.Party.UpdateFromBytes([]byte{0xff, 0x01, 0x02, byte(k)}, n.PID, true)
					} else {
						_, _ = n.Party.UpdateFromBytes([]byte{}, bad, false)
					}
					runtime.Gosched()
					time.Sleep(20 * time.Microsecond)
				}
			}()
		}
	}
	// starts
	for _, n := range nodes {
		n := n
		atomic.AddInt64(&inflight, 1)
		go func() {
			defer atomic.AddInt64(&inflight, -1)
			jitter()
			if err := n.Party.Start(); err != nil {
				dmu.Lock()
				n.Errs = append(n.Errs, "Start: "+err.Error())
				dmu.Unlock()
			}
		}()
	}
	deadline := time.Now().Add(timeout)
	for {
		done := true
		for _, n := range nodes {
			if n.Results() < 1 {
				done = false
			}
		}
		if done && atomic.LoadInt64(&inflight) == 0 {
			// let late deliveries settle, then stop
			time.Sleep(5 * time.Millisecond)
			if atomic.LoadInt64(&inflight) == 0 {
				break
			}
		}
		if time.Now().After(deadline) {
			timedOut = true
			break
		}
		time.Sleep(time.Millisecond)
	}
	atomic.StoreInt32(&stop, 1)
	wg.Wait()
	return delivered, timedOut
}

// c09Aliasing: helpers that build a per-peer byte string from a shared one (ssid || j) are called from concurrent goroutines;
// they must return fresh memory also when the shared slice has spare capacity (as a protobuf-decoded field has)
func c09Aliasing(r *vc.Run) {
	for _, spare := range []int{0, 1, 8, 64} {
		for _, n := range []int{0, 1, 31, 32} {
			base := make([]byte, n, n+spare)
			for i := range base {
				base[i] = byte(0xa0 + i%16)
			}
			a := common.AppendBigIntToBytesSlice(base, big.NewInt(1))
			a1 := append([]byte{}, a...)
			b := common.AppendBigIntToBytesSlice(base, big.NewInt(2))
			r.Dist["helper-aliasing"]++
			r.CountCase(fmt.Sprintf("AppendBigIntToBytesSlice len=%d spare=%d", n, spare), true, fmt.Sprintf("AppendBigIntToBytesSlice(base[len %d, cap %d], 1) then (base, 2)", n, n+spare))
			wantA := append(append([]byte{}, base...), 1)
			wantB := append(append([]byte{}, base...), 2)
			if !bytes.Equal(a, a1) || !bytes.Equal(a1, wantA) || !bytes.Equal(b, wantB) {
				r.Violate("helper-aliases-input|AppendBigIntToBytesSlice", fmt.Sprintf("AppendBigIntToBytesSlice writes into the spare capacity of its input: the first result changed from %x to %x when a second value was appended to the same base (len %d, cap %d)", a1, a, n, n+spare), fmt.Sprintf("AppendBigIntToBytesSlice on a base slice with len %d cap %d, values 1 then 2", n, n+spare))
			}
		}
	}
}

// c09FaultedRun: the goroutines a round starts to examine its peers also run when the peers' proofs FAIL, and that is when they
// write their verdicts. One ECDSA resharing (under the race detector like everything in this check) in which both DLN proofs of
// every new member's round-2 broadcast are altered: every new member sees several peers failing two checks each.
func c09FaultedRun(r *vc.Run) {
	var fr faultRunner
	for _, x := range faultRunners() {
		if x.proto == "ecdsa_resharing" {
			fr = x
		}
	}
	rc := fr.build(r.Seed + 77)
	rc.net.Rng = rand.New(rand.NewSource(r.Seed))
	rng := rand.New(rand.NewSource(r.Seed + 5))
	altered := 0
	rc.net.Tamper = func(c *sched.Copy) {
		if c.Type != "DGRound2Message1" {
			return
		}
		w := c.Wire
		for _, fld := range []string{"dlnproof_1", "dlnproof_2"} {
			if nw, ok := alterField(w, fld, 1, "+1", rng, nil); ok {
				w = nw
				altered++
			}
		}
		c.Wire = w
	}
	rc.net.Label = "ecdsa_resharing with both DLN proofs of every new member altered (race detector)"
	rc.net.Run(sched.FIFO, 200000)
	blamed := 0
	for _, n := range rc.net.New {
		if len(n.Culprits) > 0 {
			blamed++
		}
	}
	desc := "ecdsa_resharing 3 old -> 3 new, dlnproof_1[1] and dlnproof_2[1] of every DGRound2Message1 altered by +1"
	r.Dist["faulted-run-under-race-detector"]++
	r.CountCase(desc, altered > 0, fmt.Sprintf("%s => %d fields altered, %d new members reported culprits", desc, altered, blamed))
	if altered > 0 && blamed == 0 {
		r.Violate("faulted-run-not-refused|ecdsa_resharing", "every new member's DLN proofs were altered and no new member objected", desc)
	}
}

func genC09(r *vc.Run) {
	c09Aliasing(r)
	c09FaultedRun(r)
	r.Rule = "every Start and every UpdateFromBytes in its own goroutine with seeded jitter, plus pollers calling WaitingFor on every party, for the six protocols, built with the Go race detector; per party the set of delivered messages is replayed on the engine model (by the confluence theorem any order gives the same final state): final round and result count must agree; oracles: each party's result exactly once, result predicates of C01-C04, no 'DATA RACE' report, no timeout; non-trivial = all runs"
	runs := protoRuns(r)
	// ECDSA signing on a curve the application registered itself (NIST P-256), three signers: the per-peer verification
	// goroutines of the rounds go through whatever the library keeps per curve
	runs = append(runs, protoRun{proto: "ecdsa_signing", cfg: "p256 key (3,1), signers=3", heavy: true,
		build: func() *runCtx {
			ks, pids, t := ecKeysByRef("p256:kg:3:1")
			return buildECDSASign(ks, pids, t, signOpts{msg: big.NewInt(31337), seed: fmt.Sprintf("c09-p256-%d", r.Seed), ec: curveByName("p256")})
		}})
	reps := r.Pick(4, 30)
	for _, pr := range runs {
		n := reps
		if pr.heavy {
			n = r.Pick(1, 4)
		}
		for k := 0; k < n; k++ {
			rc := pr.build()
			seed := r.Seed*100 + int64(k)
			delivered, to := runConcurrent(rc, seed, 1+k%3, k%2 == 1, 120*time.Second)
			replay := fmt.Sprintf("concurrent run %s %s seed=%d", pr.proto, pr.cfg, seed)
			if to {
				r.Violate("concurrent-timeout|"+pr.proto, fmt.Sprintf("%s %s: concurrent delivery did not complete within the time limit (deadlock or lost result)", pr.proto, pr.cfg), replay)
			}
			for _, nd := range rc.net.Nodes() {
				if c := nd.Results(); c != 1 && !to {
					r.Violate("concurrent-results!=1|"+pr.proto, fmt.Sprintf("%s %s: party %s produced %d results under concurrent updates", pr.proto, pr.cfg, nd.Name, c), replay)
				}
				if len(nd.Errs) > 0 {
					r.Violate("concurrent-error|"+pr.proto, fmt.Sprintf("%s %s: party %s reported %s under concurrent updates of an honest run", pr.proto, pr.cfg, nd.Name, nd.Errs[0]), replay)
				}
				// model: start, then the delivered set in canonical order; compare the final observation
				evs := append([]string{}, delivered[nd.Name]...)
				sort.Strings(evs)
				cfg := fmt.Sprintf("[%v %v %d %d %d]", nd.Comm == 'O', nd.Comm == 'N', nd.Idx, len(rc.net.Old), len(rc.net.New))
				args, err := val.ParseAll(rc.net.Proto + " " + cfg + " [s " + strings.Join(evs, " ") + "]")
				if err != nil {
					panic(err)
				}
				obs, _ := val.ParseAll(fmt.Sprintf("[%d %d]", sched.RoundOf(nd.Party), nd.Results()))
				r.Record(pr.proto+"/concurrent", true, "engine_final", args, obs[0])
			}
			if pr.check != nil && !to {
				pr.check(r, rc, pr.cfg, fmt.Sprintf("concurrent seed=%d", seed))
			}
		}
	}
}
