package main

// Builders for deterministic runs of the six protocols on the scheduler.

import (
	"bufio"
	"crypto/elliptic"
	"fmt"
	"io"
	"math/big"
	"os"
	"path/filepath"
	"strings"
	"sync"

	"github.com/bnb-chain/tss-lib/v2/common"
	ecdsakeygen "github.com/bnb-chain/tss-lib/v2/ecdsa/keygen"
	ecdsareshare "github.com/bnb-chain/tss-lib/v2/ecdsa/resharing"
	ecdsasign "github.com/bnb-chain/tss-lib/v2/ecdsa/signing"
	eddsakeygen "github.com/bnb-chain/tss-lib/v2/eddsa/keygen"
	eddsareshare "github.com/bnb-chain/tss-lib/v2/eddsa/resharing"
	eddsasign "github.com/bnb-chain/tss-lib/v2/eddsa/signing"
	"github.com/bnb-chain/tss-lib/v2/tss"

	"verif/harness/internal/sched"
)

var (
	tablesOnce sync.Once
	tableTypes map[string][]string
)

// typesOf returns the message type names of a protocol in table order (from the translator's tables.txt).
func typesOf(proto string) []string {
	tablesOnce.Do(func() {
		tableTypes = map[string][]string{}
		root := os.Getenv("VERIF_ROOT")
		if root == "" {
			root = "/verif"
		}
		f, err := os.Open(filepath.Join(root, "build", "tables.txt"))
		if err != nil {
			panic(err)
		}
		defer f.Close()
		sc := bufio.NewScanner(f)
		sc.Buffer(make([]byte, 1<<20), 1<<24)
		for sc.Scan() {
			line := sc.Text()
			sp := strings.SplitN(line, " ", 2)
			if len(sp) != 2 {
				continue
			}
			// first list: [[Name ...] [Name ...]]
			rest := sp[1]
			depth := 0
			var names []string
			for i := 0; i < len(rest); i++ {
				switch rest[i] {
				case '[':
					depth++
					if depth == 2 {
						j := i + 1
						for j < len(rest) && rest[j] != ' ' {
							j++
						}
						names = append(names, rest[i+1:j])
					}
				case ']':
					depth--
					if depth == 0 {
						i = len(rest)
					}
				}
			}
			tableTypes[sp[0]] = names
		}
	})
	return tableTypes[proto]
}

// prefixReader returns fixed bytes first and a deterministic stream afterwards.
type prefixReader struct {
	mu     sync.Mutex // rounds read their Rand() from several goroutines
	prefix []byte
	rest   io.Reader
	Read_  int
}

func (p *prefixReader) Read(b []byte) (int, error) {
	p.mu.Lock()
	defer p.mu.Unlock()
	n := 0
	for n < len(b) && len(p.prefix) > 0 {
		b[n] = p.prefix[0]
		p.prefix = p.prefix[1:]
		n++
	}
	if n < len(b) {
		m, err := p.rest.Read(b[n:])
		n += m
		if err != nil {
			return n, err
		}
	}
	p.Read_ += n
	return n, nil
}

// be32 encodes v as the 32 bytes that make GetRandomPositiveInt(rand, q) return v for a 256-bit q.
func beN(v *big.Int, n int) []byte {
	b := v.Bytes()
	out := make([]byte, n)
	copy(out[n-len(b):], b)
	return out
}

type runCtx struct {
	net     *sched.Net
	results map[string][]interface{}
	mu      sync.Mutex
}

func newNode(name string, comm byte, idx int, pid *tss.PartyID) (*sched.Node, chan tss.Message) {
	out := make(chan tss.Message, 4096)
	return &sched.Node{Name: name, Comm: comm, Idx: idx, PID: pid, Out: out}, out
}

func (rc *runCtx) resultsFn(name string, drain func() []interface{}) func() int {
	return func() int {
		rc.mu.Lock()
		defer rc.mu.Unlock()
		rc.results[name] = append(rc.results[name], drain()...)
		return len(rc.results[name])
	}
}

func mkPIDs(keys []*big.Int) tss.SortedPartyIDs {
	us := make(tss.UnSortedPartyIDs, len(keys))
	for i, k := range keys {
		us[i] = tss.NewPartyID(fmt.Sprintf("%d", i+1), fmt.Sprintf("P[%d]", i+1), k)
	}
	return tss.SortPartyIDs(us)
}

func defaultKeys(n int, base int64) []*big.Int {
	ks := make([]*big.Int, n)
	for i := range ks {
		ks[i] = big.NewInt(base + int64(i))
	}
	return ks
}

// ---------- EdDSA keygen ----------
type kgOpts struct {
	keys  []*big.Int   // party keys (ids); nil = 1..n
	ui    []*big.Int   // chosen partial secrets u_i (by sorted index); nil = deterministic random
	coefs [][]*big.Int // chosen polynomial coefficients a_1..a_t per party
	seed  string
	ec    elliptic.Curve // ECDSA only; nil = secp256k1
	// ECDSA only: the two compatibility options of tss.Parameters (a party so configured sends no such proof and tolerates its absence)
	noProofMod, noProofFac bool
}

func curveOr(ec elliptic.Curve) elliptic.Curve {
	if ec == nil {
		return tss.S256()
	}
	return ec
}

func buildEdDSAKeygen(n, t int, o kgOpts) *runCtx {
	keys := o.keys
	if keys == nil {
		keys = defaultKeys(n, 1)
	}
	pids := mkPIDs(keys)
	ctx := tss.NewPeerContext(pids)
	rc := &runCtx{results: map[string][]interface{}{}}
	net := &sched.Net{Proto: "eddsa_keygen", Types: typesOf("eddsa_keygen")}
	for i, pid := range pids {
		node, out := newNode(fmt.Sprintf("N%d", i), 'N', i, pid)
		end := make(chan *eddsakeygen.LocalPartySaveData, 8)
		params := tss.NewParameters(tss.Edwards(), ctx, ownID(pid), n, t+cfgDelta(fmt.Sprintf("N%d", i)))
		var pk, pr []byte
		if o.ui != nil {
			pk = beN(o.ui[i], 32)
		}
		if o.coefs != nil {
			for _, c := range o.coefs[i] {
				pr = append(pr, beN(c, 32)...)
			}
		}
		params.SetPartialKeyRand(&prefixReader{prefix: pk, rest: newDetRand(fmt.Sprintf("%s-pk-%d", o.seed, i))})
		params.SetRand(&prefixReader{prefix: pr, rest: newDetRand(fmt.Sprintf("%s-r-%d", o.seed, i))})
		node.Party = eddsakeygen.NewLocalParty(params, out, end)
		node.Results = rc.resultsFn(node.Name, func() []interface{} {
			var rs []interface{}
			for {
				select {
				case v := <-end:
					rs = append(rs, v)
				default:
					return rs
				}
			}
		})
		net.New = append(net.New, node)
	}
	rc.net = net
	return rc
}

// ---------- ECDSA keygen (vendored pre-parameters) ----------
func buildECDSAKeygen(n, t int, o kgOpts) *runCtx {
	fx, _ := fixtures()
	keys := o.keys
	if keys == nil {
		keys = defaultKeys(n, 1)
	}
	pids := mkPIDs(keys)
	ctx := tss.NewPeerContext(pids)
	rc := &runCtx{results: map[string][]interface{}{}}
	net := &sched.Net{Proto: "ecdsa_keygen", Types: typesOf("ecdsa_keygen")}
	for i, pid := range pids {
		node, out := newNode(fmt.Sprintf("N%d", i), 'N', i, pid)
		end := make(chan *ecdsakeygen.LocalPartySaveData, 8)
		params := tss.NewParameters(curveOr(o.ec), ctx, ownID(pid), n, t+cfgDelta(fmt.Sprintf("N%d", i)))
		if cfgConcurrency > 0 {
			params.SetConcurrency(cfgConcurrency)
		}
		if o.noProofMod {
			params.SetNoProofMod()
		}
		if o.noProofFac {
			params.SetNoProofFac()
		}
		var pk, pr []byte
		if o.ui != nil {
			pk = beN(o.ui[i], 32)
		}
		if o.coefs != nil {
			for _, c := range o.coefs[i] {
				pr = append(pr, beN(c, 32)...)
			}
		}
		params.SetPartialKeyRand(&prefixReader{prefix: pk, rest: newDetRand(fmt.Sprintf("%s-pk-%d", o.seed, i))})
		params.SetRand(&prefixReader{prefix: pr, rest: newDetRand(fmt.Sprintf("%s-r-%d", o.seed, i))})
		node.Party = ecdsakeygen.NewLocalParty(params, out, end, fx[i].LocalPreParams)
		node.Results = rc.resultsFn(node.Name, func() []interface{} {
			var rs []interface{}
			for {
				select {
				case v := <-end:
					rs = append(rs, v)
				default:
					return rs
				}
			}
		})
		net.New = append(net.New, node)
	}
	rc.net = net
	return rc
}

// ---------- signing ----------
type signOpts struct {
	msg      *big.Int
	fullLen  int          // 0 = absent
	first    [][]*big.Int // per signer: values for the first draws of Rand() (k_i, gamma_i / r_i), 32 bytes each
	seed     string
	kdd      *big.Int       // key derivation delta (ECDSA)
	realRand bool           // leave the library's default entropy source (crypto/rand) in place
	ec       elliptic.Curve // ECDSA only; nil = secp256k1
}

func sigDrain(end chan *common.SignatureData) func() []interface{} {
	return func() []interface{} {
		var rs []interface{}
		for {
			select {
			case v := <-end:
				rs = append(rs, v)
			default:
				return rs
			}
		}
	}
}

// buildECDSASign: keys are the save data of the signers (already in sorted-id order), pids their ids.
func buildECDSASign(keys []ecdsakeygen.LocalPartySaveData, pids tss.SortedPartyIDs, t int, o signOpts) *runCtx {
	ctx := tss.NewPeerContext(pids)
	rc := &runCtx{results: map[string][]interface{}{}}
	net := &sched.Net{Proto: "ecdsa_signing", Types: typesOf("ecdsa_signing")}
	for i, pid := range pids {
		node, out := newNode(fmt.Sprintf("N%d", i), 'N', i, pid)
		end := make(chan *common.SignatureData, 8)
		params := tss.NewParameters(curveOr(o.ec), ctx, ownID(pid), len(pids), t)
		var pr []byte
		if o.first != nil {
			for _, c := range o.first[i] {
				pr = append(pr, beN(c, 32)...)
			}
		}
		if !o.realRand {
			params.SetRand(&prefixReader{prefix: pr, rest: newDetRand(fmt.Sprintf("%s-r-%d", o.seed, i))})
		}
		if o.fullLen > 0 {
			node.Party = ecdsasign.NewLocalPartyWithKDD(o.msg, params, keys[i], o.kdd, out, end, o.fullLen)
		} else {
			node.Party = ecdsasign.NewLocalPartyWithKDD(o.msg, params, keys[i], o.kdd, out, end)
		}
		node.Results = rc.resultsFn(node.Name, sigDrain(end))
		net.New = append(net.New, node)
	}
	rc.net = net
	return rc
}

func buildEdDSASign(keys []eddsakeygen.LocalPartySaveData, pids tss.SortedPartyIDs, t int, o signOpts) *runCtx {
	ctx := tss.NewPeerContext(pids)
	rc := &runCtx{results: map[string][]interface{}{}}
	net := &sched.Net{Proto: "eddsa_signing", Types: typesOf("eddsa_signing")}
	for i, pid := range pids {
		node, out := newNode(fmt.Sprintf("N%d", i), 'N', i, pid)
		end := make(chan *common.SignatureData, 8)
		params := tss.NewParameters(tss.Edwards(), ctx, ownID(pid), len(pids), t)
		var pr []byte
		if o.first != nil {
			for _, c := range o.first[i] {
				pr = append(pr, beN(c, 32)...)
			}
		}
		if !o.realRand {
			params.SetRand(&prefixReader{prefix: pr, rest: newDetRand(fmt.Sprintf("%s-r-%d", o.seed, i))})
		}
		if o.fullLen > 0 {
			node.Party = eddsasign.NewLocalParty(o.msg, params, keys[i], out, end, o.fullLen)
		} else {
			node.Party = eddsasign.NewLocalParty(o.msg, params, keys[i], out, end)
		}
		node.Results = rc.resultsFn(node.Name, sigDrain(end))
		net.New = append(net.New, node)
	}
	rc.net = net
	return rc
}

// ---------- resharing ----------
type reshareOpts struct {
	newKeys  []*big.Int
	newT     int
	seed     string
	coefs    [][]*big.Int // per old member: chosen coefficients of its dealing polynomial
	noProofs bool
	ec       elliptic.Curve // ECDSA only; nil = secp256k1
}

func buildEdDSAReshare(oldKeys []eddsakeygen.LocalPartySaveData, oldPIDs tss.SortedPartyIDs, keyN, oldT int, o reshareOpts) *runCtx {
	return buildEdDSAReshareOpt(oldKeys, oldPIDs, keyN, oldT, o, true)
}

func buildEdDSAReshareOpt(oldKeys []eddsakeygen.LocalPartySaveData, oldPIDs tss.SortedPartyIDs, keyN, oldT int, o reshareOpts, cloneXi bool) *runCtx {
	newPIDs := mkPIDs(o.newKeys)
	oldCtx, newCtx := tss.NewPeerContext(oldPIDs), tss.NewPeerContext(newPIDs)
	rc := &runCtx{results: map[string][]interface{}{}}
	net := &sched.Net{Proto: "eddsa_resharing", Types: typesOf("eddsa_resharing")}
	drain := func(end chan *eddsakeygen.LocalPartySaveData) func() []interface{} {
		return func() []interface{} {
			var rs []interface{}
			for {
				select {
				case v := <-end:
					rs = append(rs, v)
				default:
					return rs
				}
			}
		}
	}
	for i, pid := range oldPIDs {
		node, out := newNode(fmt.Sprintf("O%d", i), 'O', i, pid)
		end := make(chan *eddsakeygen.LocalPartySaveData, 8)
		params := tss.NewReSharingParameters(tss.Edwards(), oldCtx, newCtx, ownID(pid), keyN, oldT, len(newPIDs), o.newT+cfgDelta(fmt.Sprintf("O%d", i)))
		var pr []byte
		if o.coefs != nil {
			for _, c := range o.coefs[i] {
				pr = append(pr, beN(c, 32)...)
			}
		}
		params.SetRand(&prefixReader{prefix: pr, rest: newDetRand(fmt.Sprintf("%s-o-%d", o.seed, i))})
		ok := oldKeys[i]
		if cloneXi {
			ok.Xi = new(big.Int).Set(ok.Xi) // resharing erases the old share through this pointer
		}
		node.Party = eddsareshare.NewLocalParty(params, ok, out, end)
		node.Results = rc.resultsFn(node.Name, drain(end))
		net.Old = append(net.Old, node)
	}
	for i, pid := range newPIDs {
		node, out := newNode(fmt.Sprintf("N%d", i), 'N', i, pid)
		end := make(chan *eddsakeygen.LocalPartySaveData, 8)
		params := tss.NewReSharingParameters(tss.Edwards(), oldCtx, newCtx, ownID(pid), keyN, oldT, len(newPIDs), o.newT+cfgDelta(fmt.Sprintf("N%d", i)))
		params.SetRand(newDetRand(fmt.Sprintf("%s-n-%d", o.seed, i)))
		save := eddsakeygen.NewLocalPartySaveData(len(newPIDs))
		node.Party = eddsareshare.NewLocalParty(params, save, out, end)
		node.Results = rc.resultsFn(node.Name, drain(end))
		net.New = append(net.New, node)
	}
	rc.net = net
	return rc
}

func buildECDSAReshare(oldKeys []ecdsakeygen.LocalPartySaveData, oldPIDs tss.SortedPartyIDs, keyN, oldT int, o reshareOpts) *runCtx {
	return buildECDSAReshareOpt(oldKeys, oldPIDs, keyN, oldT, o, true)
}

func buildECDSAReshareOpt(oldKeys []ecdsakeygen.LocalPartySaveData, oldPIDs tss.SortedPartyIDs, keyN, oldT int, o reshareOpts, cloneXi bool) *runCtx {
	fx, _ := fixtures()
	newPIDs := mkPIDs(o.newKeys)
	oldCtx, newCtx := tss.NewPeerContext(oldPIDs), tss.NewPeerContext(newPIDs)
	rc := &runCtx{results: map[string][]interface{}{}}
	net := &sched.Net{Proto: "ecdsa_resharing", Types: typesOf("ecdsa_resharing")}
	drain := func(end chan *ecdsakeygen.LocalPartySaveData) func() []interface{} {
		return func() []interface{} {
			var rs []interface{}
			for {
				select {
				case v := <-end:
					rs = append(rs, v)
				default:
					return rs
				}
			}
		}
	}
	for i, pid := range oldPIDs {
		node, out := newNode(fmt.Sprintf("O%d", i), 'O', i, pid)
		end := make(chan *ecdsakeygen.LocalPartySaveData, 8)
		params := tss.NewReSharingParameters(curveOr(o.ec), oldCtx, newCtx, ownID(pid), keyN, oldT, len(newPIDs), o.newT+cfgDelta(fmt.Sprintf("O%d", i)))
		if cfgConcurrency > 0 {
			params.SetConcurrency(cfgConcurrency)
		}
		if o.noProofs {
			params.SetNoProofMod()
			params.SetNoProofFac()
		}
		var pr []byte
		if o.coefs != nil {
			for _, c := range o.coefs[i] {
				pr = append(pr, beN(c, 32)...)
			}
		}
		params.SetRand(&prefixReader{prefix: pr, rest: newDetRand(fmt.Sprintf("%s-o-%d", o.seed, i))})
		ok := oldKeys[i]
		if cloneXi {
			ok.Xi = new(big.Int).Set(ok.Xi) // resharing erases the old share through this pointer
		}
		node.Party = ecdsareshare.NewLocalParty(params, ok, out, end)
		node.Results = rc.resultsFn(node.Name, drain(end))
		net.Old = append(net.Old, node)
	}
	for i, pid := range newPIDs {
		node, out := newNode(fmt.Sprintf("N%d", i), 'N', i, pid)
		end := make(chan *ecdsakeygen.LocalPartySaveData, 8)
		params := tss.NewReSharingParameters(curveOr(o.ec), oldCtx, newCtx, ownID(pid), keyN, oldT, len(newPIDs), o.newT+cfgDelta(fmt.Sprintf("N%d", i)))
		if cfgConcurrency > 0 {
			params.SetConcurrency(cfgConcurrency)
		}
		if o.noProofs {
			params.SetNoProofMod()
			params.SetNoProofFac()
		}
		params.SetRand(newDetRand(fmt.Sprintf("%s-n-%d", o.seed, i)))
		save := ecdsakeygen.NewLocalPartySaveData(len(newPIDs))
		// re-use vendored pre-parameters for the new members (fresh safe primes take minutes)
		save.LocalPreParams = fx[i%len(fx)].LocalPreParams
		node.Party = ecdsareshare.NewLocalParty(params, save, out, end)
		node.Results = rc.resultsFn(node.Name, drain(end))
		net.New = append(net.New, node)
	}
	rc.net = net
	return rc
}

// a deviating party that is an honest implementation started with a different threshold (set per fault by runFault)
var cfgDeviator string
var cfgThresholdDelta int

// cfgConcurrency > 0: every party of the next ECDSA keygen / resharing build is configured with tss.Parameters.SetConcurrency
// (the number of proof verifications a party runs at a time; the library default is the number of CPUs)
var cfgConcurrency int

func cfgDelta(name string) int {
	if name == cfgDeviator {
		return cfgThresholdDelta
	}
	return 0
}


// ownID: a node builds its own identity itself (from its configuration or a stored file): an object equal to, but distinct from,
// the entry of the committee list it was given. Every party of every run is configured this way.
func ownID(p *tss.PartyID) *tss.PartyID {
	q := tss.NewPartyID(p.Id, p.Moniker, p.KeyInt())
	q.Index = p.Index
	return q
}
