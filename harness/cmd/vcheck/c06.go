package main

import (
	"fmt"
	"math/big"
	"strings"

	"github.com/bnb-chain/tss-lib/v2/common"
	"github.com/bnb-chain/tss-lib/v2/crypto"
	"github.com/bnb-chain/tss-lib/v2/crypto/dlnproof"
	"github.com/bnb-chain/tss-lib/v2/crypto/facproof"
	"github.com/bnb-chain/tss-lib/v2/crypto/modproof"
	"github.com/bnb-chain/tss-lib/v2/crypto/mta"
	"github.com/bnb-chain/tss-lib/v2/crypto/schnorr"
	"github.com/bnb-chain/tss-lib/v2/crypto/vss"
	"github.com/bnb-chain/tss-lib/v2/tss"

	"verif/harness/internal/val"
	"verif/harness/internal/vc"
)

func init() { gens["C06"] = genC06 }

// honest instances shared by C06 / C10 / C11 / C12
type instance struct {
	op    string
	args  []val.V
	label string
}

func intsV(xs ...*big.Int) val.V { return val.Ints(xs) }

func honestInstances(r *vc.Run, seedTag string) []instance {
	keys, _ := fixtures()
	var out []instance
	rnd := newDetRand(fmt.Sprintf("honest-%s-%d", seedTag, r.Seed))
	session := []byte("session-" + seedTag)
	for _, cn := range []string{"secp256k1", "ed25519"} {
		ec := curveByName(cn)
		q := ec.Params().N
		// schnorr
		x := common.GetRandomPositiveInt(rnd, q)
		X := crypto.ScalarBaseMult(ec, x)
		pf, _ := schnorr.NewZKProof(session, x, X, rnd)
		out = append(out, instance{"schnorr_verify", []val.V{val.A(cn), val.B(session), pointV(X), pointV(pf.Alpha), val.I(pf.T)}, "schnorr/" + cn})
		// schnorr V
		s, l := common.GetRandomPositiveInt(rnd, q), common.GetRandomPositiveInt(rnd, q)
		R := crypto.ScalarBaseMult(ec, common.GetRandomPositiveInt(rnd, q))
		V, _ := R.ScalarMult(s).Add(crypto.ScalarBaseMult(ec, l))
		pv, _ := schnorr.NewZKVProof(session, V, R, s, l, rnd)
		out = append(out, instance{"schnorrv_verify", []val.V{val.A(cn), val.B(session), pointV(V), pointV(R), pointV(pv.Alpha), val.I(pv.T), val.I(pv.U)}, "schnorrv/" + cn})
		// vss
		ids := []*big.Int{big.NewInt(1), big.NewInt(2), big.NewInt(3), big.NewInt(4)}
		vs, shares, err := vss.Create(ec, 2, common.GetRandomPositiveInt(rnd, q), ids, rnd)
		if err != nil {
			panic(err)
		}
		flat, _ := crypto.FlattenECPoints(vs)
		out = append(out, instance{"vss_verify", []val.V{val.A(cn), val.I64(2), val.I(shares[1].ID), val.I(shares[1].Share), val.Ints(flat)}, "vss/" + cn})
	}
	ec := tss.S256()
	q := ec.Params().N
	kA, kB := keys[0], keys[1]
	pkA := &kA.PaillierSK.PublicKey
	// Alice range proof: encrypt m under A's key, prove to B's ring-Pedersen parameters
	m := common.GetRandomPositiveInt(rnd, q)
	cA, rA, _ := pkA.EncryptAndReturnRandomness(rnd, m)
	pa, _ := mta.ProveRangeAlice(ec, pkA, cA, kB.NTildei, kB.H1i, kB.H2i, m, rA, rnd)
	out = append(out, instance{"alice_verify", []val.V{val.A("secp256k1"), val.I(pkA.N), val.I(kB.NTildei), val.I(kB.H1i), val.I(kB.H2i), val.I(cA),
		intsV(pa.Z, pa.U, pa.W, pa.S, pa.S1, pa.S2)}, "alice"})
	// Bob
	b := common.GetRandomPositiveInt(rnd, q)
	_, cB, _, pb, err := mta.BobMid(session, ec, pkA, pa, b, cA, kA.NTildei, kA.H1i, kA.H2i, kB.NTildei, kB.H1i, kB.H2i, rnd)
	if err != nil {
		panic(err)
	}
	bobInts := func(p *mta.ProofBob) val.V { return intsV(p.Z, p.ZPrm, p.T, p.V, p.W, p.S, p.S1, p.S2, p.T1, p.T2) }
	out = append(out, instance{"bob_verify", []val.V{val.A("secp256k1"), val.B(session), val.I(pkA.N), val.I(kA.NTildei), val.I(kA.H1i), val.I(kA.H2i), val.I(cA), val.I(cB), bobInts(pb)}, "bob"})
	Bpt := crypto.ScalarBaseMult(ec, b)
	_, cB2, _, pbw, err := mta.BobMidWC(session, ec, pkA, pa, b, cA, kA.NTildei, kA.H1i, kA.H2i, kB.NTildei, kB.H1i, kB.H2i, Bpt, rnd)
	if err != nil {
		panic(err)
	}
	out = append(out, instance{"bobwc_verify", []val.V{val.A("secp256k1"), val.B(session), val.I(pkA.N), val.I(kA.NTildei), val.I(kA.H1i), val.I(kA.H2i), val.I(cA), val.I(cB2),
		bobInts(pbw.ProofBob), pointV(pbw.U), pointV(Bpt)}, "bobwc"})
	// mod proof for A's Paillier modulus
	pm, _ := modproof.NewProof(session, pkA.N, kA.PaillierSK.P, kA.PaillierSK.Q, rnd)
	mi := []*big.Int{pm.W}
	mi = append(mi, pm.X[:]...)
	mi = append(mi, pm.A, pm.B)
	mi = append(mi, pm.Z[:]...)
	out = append(out, instance{"mod_verify", []val.V{val.B(session), val.I(pkA.N), val.Ints(mi)}, "mod"})
	// fac proof: A proves N0 = P*Q to B's parameters
	pfc, _ := facproof.NewProof(session, ec, pkA.N, kB.NTildei, kB.H1i, kB.H2i, kA.PaillierSK.P, kA.PaillierSK.Q, rnd)
	out = append(out, instance{"fac_verify", []val.V{val.A("secp256k1"), val.B(session), val.I(pkA.N), val.I(kB.NTildei), val.I(kB.H1i), val.I(kB.H2i),
		intsV(pfc.P, pfc.Q, pfc.A, pfc.B, pfc.T, pfc.Sigma, pfc.Z1, pfc.Z2, pfc.W1, pfc.W2, pfc.V)}, "fac"})
	// dln proof
	pd := dlnproof.NewDLNProof(kA.H1i, kA.H2i, kA.Alpha, kA.P, kA.Q, kA.NTildei, rnd)
	out = append(out, instance{"dln_verify", []val.V{val.I(kA.H1i), val.I(kA.H2i), val.I(kA.NTildei), val.Ints(pd.Alpha[:]), val.Ints(pd.T[:])}, "dln"})
	// paillier key proof
	kk := big.NewInt(12345)
	pp := kA.PaillierSK.Proof(kk, kA.ECDSAPub)
	out = append(out, instance{"pai_verify", []val.V{val.I(pkA.N), val.I(kk), pointV(kA.ECDSAPub), val.Ints(pp[:])}, "pai"})
	return out
}

type leafPath []int

// intLeaves lists paths to every Int leaf of the argument tree, sampling long lists.
func intLeaves(args []val.V, sampleLong int) []leafPath {
	var out []leafPath
	var rec func(v val.V, p leafPath)
	rec = func(v val.V, p leafPath) {
		switch x := v.(type) {
		case val.Int:
			out = append(out, append(leafPath{}, p...))
		case val.List:
			idx := make([]int, 0, len(x))
			if len(x) > 24 {
				set := map[int]bool{0: true, 1: true, len(x) / 2: true, len(x) - 2: true, len(x) - 1: true}
				for k := 0; k < sampleLong; k++ {
					set[(k*37+5)%len(x)] = true
				}
				for i := range x {
					if set[i] {
						idx = append(idx, i)
					}
				}
			} else {
				for i := range x {
					idx = append(idx, i)
				}
			}
			for _, i := range idx {
				rec(x[i], append(p, i))
			}
		}
	}
	for i, a := range args {
		rec(a, leafPath{i})
	}
	return out
}

func substitute(args []val.V, p leafPath, nv val.V) []val.V {
	var rec func(v val.V, p leafPath) val.V
	rec = func(v val.V, p leafPath) val.V {
		if len(p) == 0 {
			return nv
		}
		l := v.(val.List)
		c := make(val.List, len(l))
		copy(c, l)
		c[p[0]] = rec(l[p[0]], p[1:])
		return c
	}
	out := make([]val.V, len(args))
	copy(out, args)
	out[p[0]] = rec(args[p[0]], p[1:])
	return out
}

func boundaryValues(thorough bool) map[string]*big.Int {
	keys, _ := fixtures()
	q := tss.S256().Params().N
	l := tss.Edwards().Params().N
	N := keys[0].PaillierSK.N
	NT := keys[0].NTildei
	NT1 := keys[1].NTildei
	q3 := mul(q, mul(q, q))
	m := map[string]*big.Int{
		"0": big.NewInt(0), "1": big.NewInt(1), "2": big.NewInt(2),
		"q-1": add(q, -1), "q": q, "q+1": add(q, 1), "2q": mul(q, big.NewInt(2)),
		"L": l, "2L": mul(l, big.NewInt(2)),
		"N-1": add(N, -1), "N": N, "N+1": add(N, 1), "N^2": mul(N, N),
		"NT": NT, "NTb": NT1, "2^256": pow2(256), "2^4096-1": add(pow2(4096), -1),
		"q^3": q3, "q^3+1": add(q3, 1), "-1": big.NewInt(-1),
	}
	if thorough {
		m["3q"] = mul(q, big.NewInt(3))
		m["N^2+1"] = add(mul(N, N), 1)
		m["N^2-1"] = add(mul(N, N), -1)
		m["NT-1"] = add(NT, -1)
		m["NT+1"] = add(NT, 1)
		m["2^255"] = pow2(255)
		m["2^2048"] = pow2(2048)
		m["q^7+1"] = add(mul(q3, mul(q3, q)), 1)
		m["-q"] = new(big.Int).Neg(q)
		m["P"] = keys[0].PaillierSK.P
		m["even"] = mul(keys[0].PaillierSK.P, big.NewInt(2))
	}
	return m
}

func opSite(op string) string {
	return map[string]string{
		"vss_verify": "vss.Share.Verify", "schnorr_verify": "schnorr.ZKProof.Verify", "schnorrv_verify": "schnorr.ZKVProof.Verify",
		"alice_verify": "mta.RangeProofAlice.Verify", "bob_verify": "mta.ProofBob.Verify", "bobwc_verify": "mta.ProofBobWC.Verify",
		"mod_verify": "modproof.ProofMod.Verify", "fac_verify": "facproof.ProofFac.Verify", "dln_verify": "dlnproof.Proof.Verify",
		"pai_verify": "paillier.Proof.Verify", "vss_reconstruct": "vss.Shares.ReConstruct",
		"bobwc_frombytes": "mta.ProofBobWCFromBytes", "bob_frombytes": "mta.ProofBobFromBytes", "alice_frombytes": "mta.RangeProofAliceFromBytes",
		"fac_frombytes": "facproof.NewProofFromBytes", "mod_frombytes": "modproof.NewProofFromBytes", "dln_unmarshal": "dlnproof.UnmarshalDLNProof",
		"bparse": "commitments.ParseSecrets", "new_ec_point": "crypto.NewECPoint", "unflatten": "crypto.UnFlattenECPoints",
	}[op]
}

// argRole names the role of a top-level argument position for the violation key (stable across runs).
func argRole(op string, p leafPath) string {
	roles := map[string][]string{
		"vss_verify":      {"curve", "t", "id", "share", "vs"},
		"schnorr_verify":  {"curve", "session", "X", "alpha", "T"},
		"schnorrv_verify": {"curve", "session", "V", "R", "alpha", "T", "U"},
		"alice_verify":    {"curve", "N", "NTilde", "h1", "h2", "c", "pf"},
		"bob_verify":      {"curve", "session", "N", "NTilde", "h1", "h2", "c1", "c2", "pf"},
		"bobwc_verify":    {"curve", "session", "N", "NTilde", "h1", "h2", "c1", "c2", "pf", "U", "X"},
		"mod_verify":      {"session", "N", "pf"},
		"fac_verify":      {"curve", "session", "N0", "NCap", "s", "t", "pf"},
		"dln_verify":      {"h1", "h2", "N", "alpha", "t"},
		"pai_verify":      {"N", "k", "pub", "pf"},
	}
	rs := roles[op]
	role := "arg"
	if p[0] < len(rs) {
		role = rs[p[0]]
	}
	if role == "pf" && len(p) > 1 {
		names := map[string][]string{
			"alice_verify": {"Z", "U", "W", "S", "S1", "S2"},
			"bob_verify":   {"Z", "ZPrm", "T", "V", "W", "S", "S1", "S2", "T1", "T2"},
			"bobwc_verify": {"Z", "ZPrm", "T", "V", "W", "S", "S1", "S2", "T1", "T2"},
			"fac_verify":   {"P", "Q", "A", "B", "T", "Sigma", "Z1", "Z2", "W1", "W2", "V"},
		}
		if ns, ok := names[op]; ok && p[1] < len(ns) {
			role = ns[p[1]]
		}
	}
	return role
}

func classOfValue(name string) string {
	// coarse class used in violation keys so that one finding = one site x role x class
	switch {
	case name == "0" || name == "q" || name == "2q" || name == "3q" || name == "L" || name == "2L":
		return "zero-mod-order"
	case strings.HasPrefix(name, "-"):
		return "negative"
	}
	return "boundary"
}

func genC06(r *vc.Run) {
	r.Rule = "every exported verifier/decoder on an honest instance with one integer leaf replaced by a boundary value (0,1,2,q-1,q,q+1,2q,L,N-1,N,N+1,N^2,NTilde,2^k,q^3,-1,...), point arguments replaced by identity/small-order/generator points, decoders on short/long/empty part lists; non-trivial = the substituted instance differs from the honest one; the direct oracle is the property itself: the call returned (no recovered panic, no timeout)"
	insts := honestInstances(r, "c06")
	bv := boundaryValues(r.Thorough())
	names := make([]string, 0, len(bv))
	for k := range bv {
		names = append(names, k)
	}
	sortStrings(names)
	for _, in := range insts {
		// the honest instance itself must verify (sanity of the generator; also a C10 case)
		o := r.Case("honest/"+in.label, false, in.op, in.args...)
		if o.String() != okb(true).String() {
			r.Violate("honest-rejected|"+in.op+"|"+in.label, "an honest "+in.label+" proof is rejected: "+o.String(), vc.Line(in.op, in.args))
		}
		leaves := intLeaves(in.args, r.Pick(2, 10))
		for _, p := range leaves {
			for _, n := range names {
				args := substitute(in.args, p, val.I(bv[n]))
				o := r.Case("boundary/"+in.label, true, in.op, args...)
				s := o.String()
				if s == "Panic" || s == "Diverge" {
					r.Violate(fmt.Sprintf("crash|%s|%s|%s|%s", opSite(in.op), argRole(in.op, p), classOfValue(n), strings.SplitN(in.label, "/", 2)[len(strings.SplitN(in.label, "/", 2))-1]),
						fmt.Sprintf("%s %s when %s = %s", opSite(in.op), s, argRole(in.op, p), n), vc.Line(in.op, args))
				}
			}
		}
	}
	genC06Decoders(r)
	genC06Points(r, insts)
	// round level: boundary encodings injected into real protocol runs (child processes)
	genFaults(r, "C06")
}

func sortStrings(s []string) {
	for i := 1; i < len(s); i++ {
		for j := i; j > 0 && s[j] < s[j-1]; j-- {
			s[j], s[j-1] = s[j-1], s[j]
		}
	}
}

// decoders: part lists too short / long / empty / with empty parts
func genC06Decoders(r *vc.Run) {
	mk := func(n int, empty int) val.V {
		l := make([][]byte, n)
		for i := range l {
			l[i] = []byte{byte(i + 1), 7}
			if i == empty {
				l[i] = []byte{}
			}
		}
		return val.BytesList(l)
	}
	type dec struct {
		op    string
		curve bool
		want  []int
	}
	decs := []dec{{"bob_frombytes", false, []int{10, 12}}, {"bobwc_frombytes", true, []int{12}}, {"alice_frombytes", false, []int{6}},
		{"fac_frombytes", false, []int{11}}, {"mod_frombytes", false, []int{163}}, {"dln_unmarshal", false, []int{258}}}
	for _, d := range decs {
		lens := map[int]bool{0: true, 1: true, 2: true, 5: true, 6: true, 7: true, 9: true, 10: true, 11: true, 12: true, 13: true, 162: true, 163: true, 164: true, 257: true, 258: true, 259: true}
		for n := range lens {
			for _, empty := range []int{-1, 0, n - 1} {
				if empty >= n {
					continue
				}
				args := []val.V{mk(n, empty)}
				if d.curve {
					args = append([]val.V{val.A("secp256k1")}, args...)
				}
				o := r.Case("decoder/"+d.op, true, d.op, args...)
				if s := o.String(); s == "Panic" || s == "Diverge" {
					r.Violate(fmt.Sprintf("crash|%s|parts=%d", opSite(d.op), n), fmt.Sprintf("%s %s on %d parts", opSite(d.op), s, n), vc.Line(d.op, args))
				}
			}
		}
	}
	// the helper behind every ValidateBasic: part counts n-1, n, n+1 around the counts the protocols use, empty parts at each end
	for _, n := range []int{1, 2, 3, 5, 6, 10, 11, 12, 13, 163, 258} {
		for _, have := range []int{0, n - 1, n, n + 1} {
			if have < 0 {
				continue
			}
			for _, emptyAt := range []int{-1, 0, have - 1} {
				if emptyAt >= have {
					continue
				}
				parts := make([]val.V, have)
				for i := range parts {
					parts[i] = val.B([]byte{byte(i + 1)})
					if i == emptyAt {
						parts[i] = val.B([]byte{})
					}
				}
				r.Case("validate/non_empty_multi", true, "non_empty_multi", val.List(parts), val.I64(int64(n)))
				r.Case("validate/non_empty_multi", true, "non_empty_multi", val.List(parts), val.A("none"))
			}
		}
	}
	// length-prefixed wire forms re-cut: the same 258 entries of an honest DLN proof with the two length prefixes moved
	// (129/127, 127/129, 130/126, 256/0, ...), decoded and, when accepted, verified
	{
		keys, _ := fixtures()
		kA := keys[0]
		pd := dlnproof.NewDLNProof(kA.H1i, kA.H2i, kA.Alpha, kA.P, kA.Q, kA.NTildei, newDetRand("c06-dln-recut"))
		bzs, err := pd.Serialize()
		if err == nil && len(bzs) == 258 {
			for _, cut := range [][2]int{{128, 128}, {129, 127}, {127, 129}, {130, 126}, {126, 130}, {255, 1}, {1, 255}, {256, 0}, {0, 256}, {128, 127}, {128, 129}, {127, 127}} {
				var w [][]byte
				rest := append(append([][]byte{}, bzs[1:129]...), bzs[130:258]...) // the 256 values
				take := func(n int) [][]byte {
					if n > len(rest) {
						n = len(rest)
					}
					o := rest[:n]
					rest = rest[n:]
					return o
				}
				w = append(w, big.NewInt(int64(cut[0])).Bytes())
				if cut[0] == 0 {
					w[len(w)-1] = []byte{0}
				}
				w = append(w, take(cut[0])...)
				w = append(w, big.NewInt(int64(cut[1])).Bytes())
				if cut[1] == 0 {
					w[len(w)-1] = []byte{0}
				}
				w = append(w, take(cut[1])...)
				wv := make([]val.V, len(w))
				for i, b := range w {
					wv[i] = val.B(b)
				}
				args := []val.V{val.List(wv), val.I(kA.H1i), val.I(kA.H2i), val.I(kA.NTildei)}
				o := r.Case(fmt.Sprintf("decoder/dln-recut/%d-%d", cut[0], cut[1]), true, "dln_unmarshal_verify", args...)
				if s := o.String(); s == "Panic" || s == "Diverge" {
					r.Violate(fmt.Sprintf("crash|dlnproof.UnmarshalDLNProof+Verify|recut=%d/%d", cut[0], cut[1]), fmt.Sprintf("a DLN proof whose two length prefixes were re-cut to %d/%d makes decode+verify %s", cut[0], cut[1], s), vc.Line("dln_unmarshal_verify", args))
				}
			}
		}
	}
	// vss reconstruct with odd share sets
	for _, cn := range []string{"secp256k1", "ed25519"} {
		sh := func(t, id, s int64) val.V { return val.L(val.I64(t), val.I64(id), val.I64(s)) }
		cases := [][]val.V{{}, {sh(1, 1, 5)}, {sh(1, 1, 5), sh(1, 1, 6)}, {sh(3, 1, 5), sh(3, 2, 6)}, {sh(1, 0, 5), sh(1, 2, 6)}}
		for _, c := range cases {
			args := []val.V{val.A(cn), val.List(c)}
			o := r.Case("decoder/vss_reconstruct", true, "vss_reconstruct", args...)
			if s := o.String(); s == "Panic" || s == "Diverge" {
				r.Violate(fmt.Sprintf("crash|vss.Shares.ReConstruct|shares=%d", len(c)), "vss.Shares.ReConstruct "+s, vc.Line("vss_reconstruct", args))
			}
		}
	}
}

// point arguments replaced by special points
func genC06Points(r *vc.Run, insts []instance) {
	special := map[string][]val.V{
		"secp256k1": {
			val.L(val.I(tss.S256().Params().Gx), val.I(tss.S256().Params().Gy)),
			val.L(val.I(tss.S256().Params().Gx), val.I(new(big.Int).Sub(tss.S256().Params().P, tss.S256().Params().Gy))),
			val.L(val.I64(0), val.I64(0)),
		},
		"ed25519": {
			val.L(val.I64(0), val.I64(1)),                               // identity
			val.L(val.I64(0), val.I(add(tss.Edwards().Params().P, -1))), // order 2
			val.L(val.I(tss.Edwards().Params().Gx), val.I(tss.Edwards().Params().Gy)),
		},
	}
	// order-4 and order-8 points on ed25519
	special["ed25519"] = append(special["ed25519"], edTorsion()...)
	for _, in := range insts {
		cn := "secp256k1"
		if len(in.args) > 0 {
			if a, ok := in.args[0].(val.Atom); ok && (string(a) == "ed25519") {
				cn = "ed25519"
			}
		}
		for i, a := range in.args {
			l, ok := a.(val.List)
			if !ok || len(l) != 2 {
				continue
			}
			if _, isInt := l[0].(val.Int); !isInt {
				continue
			}
			for k, sp := range special[cn] {
				args := make([]val.V, len(in.args))
				copy(args, in.args)
				args[i] = sp
				o := r.Case("points/"+in.label, true, in.op, args...)
				if s := o.String(); s == "Panic" || s == "Diverge" {
					r.Violate(fmt.Sprintf("crash|%s|%s|special-point-%d|%s", opSite(in.op), argRole(in.op, leafPath{i}), k, cn),
						fmt.Sprintf("%s %s with %s replaced by special point #%d", opSite(in.op), s, argRole(in.op, leafPath{i}), k), vc.Line(in.op, args))
				}
			}
		}
	}
}

// edTorsion returns the small-order points of edwards25519 other than (0,1),(0,-1),
// computed as multiples of a point of order 8 obtained by clearing the prime-order part.
func edTorsion() []val.V {
	ec := tss.Edwards()
	P := ec.Params().P
	L := ec.Params().N
	var out []val.V
	// find a point of order 8: take y = 2,3,... decompress, multiply by L
	d := bi("37095705934669439343138083508754565189542113879843219016388785533085940283555")
	for y := int64(2); y < 200 && len(out) == 0; y++ {
		Y := big.NewInt(y)
		y2 := new(big.Int).Mul(Y, Y)
		num := new(big.Int).Sub(y2, big.NewInt(1))
		den := new(big.Int).Add(new(big.Int).Mul(d, y2), big.NewInt(1))
		den.Mod(den, P)
		x2 := new(big.Int).Mul(num, new(big.Int).ModInverse(den, P))
		x2.Mod(x2, P)
		X := new(big.Int).ModSqrt(x2, P)
		if X == nil {
			continue
		}
		if !ec.IsOnCurve(X, Y) {
			continue
		}
		tx, ty := ec.ScalarMult(X, Y, L.Bytes())
		// order of (tx,ty) divides 8; want exactly 8
		x4, y4 := ec.ScalarMult(tx, ty, []byte{4})
		if x4.Sign() == 0 && y4.Cmp(big.NewInt(1)) == 0 {
			continue
		}
		for k := int64(1); k < 8; k++ {
			kx, ky := ec.ScalarMult(tx, ty, []byte{byte(k)})
			if kx.Sign() == 0 {
				continue // (0,1) and (0,-1) already listed
			}
			out = append(out, val.L(val.I(kx), val.I(ky)))
		}
	}
	return out
}
