package main

import (
	"bytes"
	"context"
	cryptorand "crypto/rand"
	"errors"
	"fmt"
	"io"
	"math/big"
	"runtime"
	"sync"
	"time"

	"github.com/bnb-chain/tss-lib/v2/common"
	"github.com/bnb-chain/tss-lib/v2/crypto"
	ecdsakeygen "github.com/bnb-chain/tss-lib/v2/ecdsa/keygen"

	"verif/harness/internal/val"
	"verif/harness/internal/vc"
)

// recReader hands out the bytes of src and keeps them.
type recReader struct {
	mu  sync.Mutex
	src io.Reader
	got []byte
	by  map[int][]byte // per read size, concatenated
}

func (r *recReader) Read(p []byte) (int, error) {
	r.mu.Lock()
	defer r.mu.Unlock()
	n, err := r.src.Read(p)
	r.got = append(r.got, p[:n]...)
	if r.by != nil {
		r.by[len(p)] = append(r.by[len(p)], p[:n]...)
	}
	return n, err
}

// entropyFailReader serves k bytes of src and then fails.
type entropyFailReader struct {
	mu   sync.Mutex
	src  io.Reader
	left int
}

var errEntropy = errors.New("entropy source failed")

func (r *entropyFailReader) Read(p []byte) (int, error) {
	r.mu.Lock()
	defer r.mu.Unlock()
	if r.left <= 0 {
		return 0, errEntropy
	}
	if len(p) > r.left {
		p = p[:r.left]
	}
	n, err := r.src.Read(p)
	r.left -= n
	return n, err
}

type lockedReader struct {
	mu sync.Mutex
	r  io.Reader
}

func (l *lockedReader) Read(p []byte) (int, error) {
	l.mu.Lock()
	defer l.mu.Unlock()
	return l.r.Read(p)
}

func consumedV(v val.V, s []byte, rd *bytes.Reader) val.V {
	return val.Ok(val.L(v, val.I64(int64(len(s)-rd.Len()))))
}
func optV(x *big.Int) val.V {
	if x == nil {
		return val.A("None")
	}
	return val.L(val.A("Some"), val.I(x))
}

func init() {
	gens["C19"] = genC19
	vc.Register("rand_int", func(a []val.V) val.V {
		s := val.AsBytes(a[0])
		rd := bytes.NewReader(s)
		n, err := cryptorand.Int(rd, val.AsInt(a[1]))
		if err != nil {
			return val.Err
		}
		return consumedV(val.I(n), s, rd)
	})
	vc.Register("must_rand_int", func(a []val.V) val.V {
		s := val.AsBytes(a[0])
		rd := bytes.NewReader(s)
		n := common.MustGetRandomInt(rd, int(val.AsInt64(a[1])))
		return consumedV(val.I(n), s, rd)
	})
	vc.Register("rand_positive", func(a []val.V) val.V {
		s := val.AsBytes(a[0])
		rd := bytes.NewReader(s)
		return consumedV(optV(common.GetRandomPositiveInt(rd, val.AsInt(a[1]))), s, rd)
	})
	vc.Register("rand_relprime", func(a []val.V) val.V {
		s := val.AsBytes(a[0])
		rd := bytes.NewReader(s)
		return consumedV(optV(common.GetRandomPositiveRelativelyPrimeInt(rd, val.AsInt(a[1]))), s, rd)
	})
	vc.Register("rand_qr_gen", func(a []val.V) val.V {
		s := val.AsBytes(a[0])
		rd := bytes.NewReader(s)
		return consumedV(val.I(common.GetRandomGeneratorOfTheQuadraticResidue(rd, val.AsInt(a[1]))), s, rd)
	})
	vc.Register("rand_qnr", func(a []val.V) val.V {
		s := val.AsBytes(a[0])
		rd := bytes.NewReader(s)
		return consumedV(val.I(common.GetRandomQuadraticNonResidue(rd, val.AsInt(a[1]))), s, rd)
	})
	vc.Register("safe_primes", func(a []val.V) val.V {
		s := val.AsBytes(a[0])
		var rd io.Reader = &lockedReader{r: bytes.NewReader(s)}
		if len(a) > 3 && val.AsAtom(a[3]) == "tail" {
			rd = &lockedReader{r: io.MultiReader(bytes.NewReader(s), newDetRand("c19-tail"))}
		}
		ps, err := common.GetRandomSafePrimesConcurrent(context.Background(), int(val.AsInt64(a[1])), int(val.AsInt64(a[2])), 1, rd)
		if err != nil {
			return val.Err
		}
		return val.Ok(sgpsV(ps))
	})
	vc.Register("preparams_draw", func(a []val.V) val.V { return val.A("ObservedDuringGeneration") })
	vc.Register("gen_ntildei", func(a []val.V) val.V {
		s := val.AsBytes(a[0])
		rd := bytes.NewReader(s)
		nt, h1, h2, err := crypto.GenerateNTildei(rd, [2]*big.Int{val.AsInt(a[1]), val.AsInt(a[2])})
		if err != nil {
			return val.Err
		}
		return val.Ok(val.L(val.I(nt), val.I(h1), val.I(h2), val.I64(int64(len(s)-rd.Len()))))
	})
	vc.Register("mask_q", func(a []val.V) val.V { return val.A("ModelOnly") })
}

func sgpsV(ps []*common.GermainSafePrime) val.V {
	out := make([]val.V, len(ps))
	for i, p := range ps {
		out[i] = val.L(val.I(p.Prime()), val.I(p.SafePrime()))
	}
	return val.L(out...)
}

func settleGoroutines(base int) int {
	n := runtime.NumGoroutine()
	for i := 0; i < 100 && n > base; i++ {
		time.Sleep(10 * time.Millisecond)
		n = runtime.NumGoroutine()
	}
	return n
}

// isPrimeExact: trial division for small numbers, 64 rounds otherwise (an oracle independent of the generator's own tests)
func isPrimeExact(n *big.Int) bool {
	if n.BitLen() <= 40 {
		v := n.Uint64()
		if v < 2 {
			return false
		}
		for d := uint64(2); d*d <= v; d++ {
			if v%d == 0 {
				return false
			}
		}
		return true
	}
	return n.ProbablyPrime(64)
}

func checkSGPs(r *vc.Run, ps []*common.GermainSafePrime, bitLen, num int, replay string) {
	if len(ps) != num {
		r.Violate("safe-prime-count", fmt.Sprintf("asked for %d pairs, got %d", num, len(ps)), replay)
	}
	for _, sp := range ps {
		q, p := sp.Prime(), sp.SafePrime()
		if new(big.Int).Add(new(big.Int).Lsh(q, 1), big.NewInt(1)).Cmp(p) != 0 {
			r.Violate("safe-prime-not-2q+1", "p != 2q+1", replay)
		}
		if !isPrimeExact(q) || !isPrimeExact(p) {
			r.Violate("safe-prime-composite", fmt.Sprintf("q=%s or p=%s is not prime", q, p), replay)
		}
		if p.BitLen() != bitLen {
			r.Violate("safe-prime-bitlen", fmt.Sprintf("p has %d bits, %d requested", p.BitLen(), bitLen), replay)
		} else if p.Bit(bitLen-2) != 1 {
			r.Violate("safe-prime-top-bits", "the second most significant bit of p is not set", replay)
		}
	}
}

func genC19(r *vc.Run) {
	r.Rule = "samplers and crypto/rand.Int on finite byte streams against the byte-level Coq model (bounds 1..40 exhaustively, prime powers, 2^k and 2^k+-1, 2048-bit moduli; streams random / all-ones (forcing rejections) / too short), plus range and coprimality oracles with the real entropy source; the safe-prime generator with one worker on a recorded stream against the Coq worker model (sieve, stale state, Pocklington, final validation; ProbablyPrime an oracle) for 6..128 bits, and with 1..16 workers for 6..1024 bits against direct oracles (count, p=2q+1, primality by trial division / 64 rounds, exact bit length, top two bits, no goroutine left); cancellation at several instants and entropy failure after k bytes (prompt error, no goroutine left); real pre-parameter generation checked against the relations (distinct safe primes, 2048-bit moduli, coprime moduli, squares, h2=h1^alpha, h1=h2^beta, beta=alpha^-1 mod pq) and against the Coq derivation on the recorded draws; non-trivial = calls that return a value"
	g := rng{r}
	c19Samplers(r, g)
	c19SafePrimes(r, g)
	c19Lifecycle(r, g)
	c19PreParams(r, g)
}

func randBytes(r *vc.Run, n int) []byte {
	b := make([]byte, n)
	r.Rng.Read(b)
	return b
}

func c19Streams(r *vc.Run, k int) [][]byte {
	ones := bytes.Repeat([]byte{0xff}, 3*k)
	out := [][]byte{randBytes(r, 4*k+3), randBytes(r, 8*k), append(append([]byte{}, ones...), randBytes(r, 4*k)...), randBytes(r, k), {}, bytes.Repeat([]byte{0}, 2*k)}
	if k > 1 {
		out = append(out, randBytes(r, k-1))
	}
	return out
}

func c19Samplers(r *vc.Run, g rng) {
	var bounds []*big.Int
	for i := int64(-2); i <= 40; i++ {
		bounds = append(bounds, big.NewInt(i))
	}
	for _, b := range []int64{49, 64, 81, 121, 125, 127, 128, 129, 243, 255, 256, 257, 625, 65535, 65536, 65537} {
		bounds = append(bounds, big.NewInt(b))
	}
	for _, k := range []uint{63, 64, 65, 255, 256, 1023} {
		bounds = append(bounds, pow2(k), add(pow2(k), -1), add(pow2(k), 1))
	}
	keys, _ := fixtures()
	rsa := []*big.Int{keys[0].NTildei, keys[1].PaillierSK.N, new(big.Int).Mul(keys[0].P, keys[0].Q), new(big.Int).Mul(keys[0].NTildei, keys[0].NTildei)}
	bounds = append(bounds, rsa...)
	reps := r.Pick(1, 4)
	for _, b := range bounds {
		k := (b.BitLen() + 7) / 8
		if k == 0 {
			k = 1
		}
		cls := "tiny"
		if b.BitLen() > 6 {
			cls = "small"
		}
		if b.BitLen() > 32 {
			cls = "large"
		}
		for rep := 0; rep < reps; rep++ {
			for si, s := range c19Streams(r, k) {
				if b.BitLen() > 600 && si > 3 && rep > 0 {
					continue
				}
				sv := val.B(s)
				// crypto/rand.Int itself (max > 0 only: it panics otherwise, which the model states too)
				o := r.Case("rand_int/"+cls, true, "rand_int", sv, val.I(b))
				if v, ok := okPair(o); ok && (v.Sign() < 0 || v.Cmp(b) >= 0) {
					r.Violate("rand-int-out-of-range", fmt.Sprintf("crypto/rand.Int returned %s for max %s", v, b), vc.Line("rand_int", []val.V{sv, val.I(b)}))
				}
				o = r.Case("rand_positive/"+cls, true, "rand_positive", sv, val.I(b))
				if v, ok := okPair(o); ok && (v.Sign() < 0 || v.Cmp(b) >= 0) {
					r.Violate("sampler-out-of-range", fmt.Sprintf("GetRandomPositiveInt returned %s for bound %s", v, b), vc.Line("rand_positive", []val.V{sv, val.I(b)}))
				}
				if b.Cmp(big.NewInt(1)) == 0 {
					continue // the unit group of Z/1Z has no representative in [1,1): these calls do not return (the model says Diverge for every stream)
				}
				o = r.Case("rand_relprime/"+cls, true, "rand_relprime", sv, val.I(b))
				if v, ok := okPair(o); ok && (v.Sign() <= 0 || v.Cmp(b) >= 0 || new(big.Int).GCD(nil, nil, v, b).Cmp(big.NewInt(1)) != 0) {
					r.Violate("sampler-not-coprime", fmt.Sprintf("GetRandomPositiveRelativelyPrimeInt returned %s for n=%s", v, b), vc.Line("rand_relprime", []val.V{sv, val.I(b)}))
				}
				if b.Sign() > 0 {
					o = r.Case("rand_qr_gen/"+cls, true, "rand_qr_gen", sv, val.I(b))
					if v, ok := okPair(o); ok && (v.Sign() < 0 || v.Cmp(b) >= 0 || new(big.Int).GCD(nil, nil, v, b).Cmp(big.NewInt(1)) != 0) {
						r.Violate("sampler-qr-gen-out-of-range", fmt.Sprintf("GetRandomGeneratorOfTheQuadraticResidue returned %s for n=%s", v, b), vc.Line("rand_qr_gen", []val.V{sv, val.I(b)}))
					}
				}
				if b.Sign() > 0 && b.BitLen() < 600 || si < 2 && b.Sign() > 0 {
					o = r.Case("rand_qnr/"+cls, true, "rand_qnr", sv, val.I(b))
					if v, ok := okPair(o); ok && (v.Sign() < 0 || v.Cmp(b) >= 0 || big.Jacobi(v, b) != -1) {
						r.Violate("sampler-qnr-wrong", fmt.Sprintf("GetRandomQuadraticNonResidue returned %s for n=%s", v, b), vc.Line("rand_qnr", []val.V{sv, val.I(b)}))
					}
				}
			}
		}
	}
	for _, bits := range []int64{-1, 0, 1, 2, 3, 7, 8, 9, 15, 16, 17, 255, 256, 257, 2048, 5000, 5001} {
		k := int((bits + 7) / 8)
		if k < 1 {
			k = 1
		}
		for _, s := range c19Streams(r, k) {
			o := r.Case("must_rand_int", true, "must_rand_int", val.B(s), val.I64(bits))
			if v, ok := okPair(o); ok && (v.Sign() < 0 || v.BitLen() > int(bits)) {
				r.Violate("sampler-out-of-range", fmt.Sprintf("MustGetRandomInt(%d) returned %s", bits, v), vc.Line("must_rand_int", []val.V{val.B(s), val.I64(bits)}))
			}
		}
	}
	// GenerateNTildei on known safe primes and on non-primes
	P0, Q0 := add(new(big.Int).Lsh(keys[0].P, 1), 1), add(new(big.Int).Lsh(keys[0].Q, 1), 1)
	for _, pq := range [][2]*big.Int{{P0, Q0}, {big.NewInt(23), big.NewInt(47)}, {big.NewInt(23), big.NewInt(45)}, {big.NewInt(59), big.NewInt(107)}, {big.NewInt(1), big.NewInt(7)}} {
		for _, s := range c19Streams(r, (pq[0].BitLen()+pq[1].BitLen()+7)/8) {
			o := r.Case("gen_ntildei", true, "gen_ntildei", val.B(s), val.I(pq[0]), val.I(pq[1]))
			if ol, ok := o.(val.List); ok && len(ol) == 2 {
				l := val.AsList(ol[1])
				nt, h1, h2 := val.AsInt(l[0]), val.AsInt(l[1]), val.AsInt(l[2])
				if nt.Cmp(new(big.Int).Mul(pq[0], pq[1])) != 0 || h1.Sign() <= 0 || h1.Cmp(nt) >= 0 || h2.Sign() <= 0 || h2.Cmp(nt) >= 0 ||
					big.Jacobi(h1, pq[0]) != 1 || big.Jacobi(h1, pq[1]) != 1 || big.Jacobi(h2, pq[0]) != 1 || big.Jacobi(h2, pq[1]) != 1 {
					r.Violate("ntildei-not-squares", "GenerateNTildei returned h1/h2 that are not squares modulo both primes", vc.Line("gen_ntildei", []val.V{val.B(s), val.I(pq[0]), val.I(pq[1])}))
				}
			}
		}
	}
	// the real entropy source: ranges and coprimality, many draws per bound
	for _, b := range bounds {
		if b.Sign() <= 0 {
			if common.GetRandomPositiveInt(cryptorand.Reader, b) != nil || common.GetRandomPositiveRelativelyPrimeInt(cryptorand.Reader, b) != nil {
				r.Violate("sampler-nonpositive-bound", fmt.Sprintf("a sampler returned a value for the bound %s", b), fmt.Sprintf("GetRandomPositiveInt / RelativelyPrimeInt with bound %s", b))
			}
			continue
		}
		n := r.Pick(40, 400)
		if b.BitLen() > 600 {
			n = r.Pick(4, 40)
		}
		for i := 0; i < n; i++ {
			v := common.GetRandomPositiveInt(cryptorand.Reader, b)
			if v == nil || v.Sign() < 0 || v.Cmp(b) >= 0 {
				r.Violate("sampler-out-of-range", fmt.Sprintf("GetRandomPositiveInt returned %v for bound %s", v, b), fmt.Sprintf("GetRandomPositiveInt(crypto/rand, %s)", b))
				break
			}
			if b.Cmp(big.NewInt(1)) > 0 {
				u := common.GetRandomPositiveRelativelyPrimeInt(cryptorand.Reader, b)
				if u == nil || u.Sign() <= 0 || u.Cmp(b) >= 0 || new(big.Int).GCD(nil, nil, u, b).Cmp(big.NewInt(1)) != 0 {
					r.Violate("sampler-not-coprime", fmt.Sprintf("GetRandomPositiveRelativelyPrimeInt returned %v for n=%s", u, b), fmt.Sprintf("GetRandomPositiveRelativelyPrimeInt(crypto/rand, %s)", b))
					break
				}
			}
		}
		r.Dist["samplers/real-entropy"] += n
	}
}

// okPair extracts v from [Ok [v consumed]] / [Ok [[Some v] consumed]].
func okPair(o val.V) (*big.Int, bool) {
	ol, ok := o.(val.List)
	if !ok || len(ol) != 2 {
		return nil, false
	}
	l, ok := ol[1].(val.List)
	if !ok || len(l) < 1 {
		return nil, false
	}
	switch x := l[0].(type) {
	case val.Int:
		return x.X, true
	case val.List:
		if len(x) == 2 {
			if i, ok := x[1].(val.Int); ok {
				return i.X, true
			}
		}
	}
	return nil, false
}

func c19SafePrimes(r *vc.Run, g rng) {
	base := runtime.NumGoroutine()
	// (a) one worker on a recorded stream: the Coq worker model predicts the exact pairs
	sizes := []int{6, 7, 8, 9, 10, 11, 12, 13, 15, 16, 17, 18, 24, 25, 31, 32, 33, 40, 48, 64}
	if r.Thorough() {
		sizes = append(sizes, 14, 19, 20, 23, 41, 56, 57, 63, 65, 72, 80, 96, 128)
	}
	for _, bl := range sizes {
		for rep := 0; rep < r.Pick(2, 6); rep++ {
			num := 1 + (rep+bl)%3
			rec := &recReader{src: newDetRand(fmt.Sprintf("c19-%d-%d-%d", r.Seed, bl, rep))}
			ps, err := common.GetRandomSafePrimesConcurrent(context.Background(), bl, num, 1, rec)
			replay := fmt.Sprintf("GetRandomSafePrimesConcurrent(bitLen=%d, num=%d, workers=1, seed c19-%d-%d-%d)", bl, num, r.Seed, bl, rep)
			if err != nil {
				r.Violate("safe-prime-error", "the generator failed with a healthy entropy source: "+err.Error(), replay)
				continue
			}
			checkSGPs(r, ps, bl, num, replay)
			rec.mu.Lock()
			stream := append([]byte{}, rec.got...)
			rec.mu.Unlock()
			if len(stream) <= 200000 {
				r.Record(fmt.Sprintf("safe_primes/%dbit", bl), true, "safe_primes", []val.V{val.B(stream), val.I64(int64(bl)), val.I64(int64(num)), val.A("tail")}, val.Ok(sgpsV(ps)))
			}
		}
	}
	// (a') candidates at the very top of the range: the sieve's q += delta walk crosses the power of two, and such q must not be accepted
	for _, bl := range sizes {
		k := (bl - 1 + 7) / 8
		for v, last := range []byte{0xff, 0xfd, 0xf1, 0xc1} {
			pre := bytes.Repeat([]byte{0xff}, k)
			pre[k-1] = last
			if v%2 == 1 {
				pre = append(append([]byte{}, pre...), pre...)
			}
			rec := &recReader{src: io.MultiReader(bytes.NewReader(pre), newDetRand(fmt.Sprintf("c19top-%d-%d-%d", r.Seed, bl, v)))}
			ps, err := common.GetRandomSafePrimesConcurrent(context.Background(), bl, 1, 1, rec)
			replay := fmt.Sprintf("GetRandomSafePrimesConcurrent(bitLen=%d, num=1, workers=1) on a stream starting with %x", bl, pre)
			if err != nil {
				r.Violate("safe-prime-error", "the generator failed with a healthy entropy source: "+err.Error(), replay)
				continue
			}
			checkSGPs(r, ps, bl, 1, replay)
			rec.mu.Lock()
			stream := append([]byte{}, rec.got...)
			rec.mu.Unlock()
			if len(stream) <= 200000 {
				r.Record(fmt.Sprintf("safe_primes/top-of-range/%dbit", bl), true, "safe_primes", []val.V{val.B(stream), val.I64(int64(bl)), val.I64(1), val.A("tail")}, val.Ok(sgpsV(ps)))
			}
		}
	}
	// refused sizes and counts; streams that end before a pair is found
	for _, c := range [][2]int{{5, 1}, {0, 1}, {-3, 1}, {6, 0}, {16, -1}} {
		r.Case("safe_primes/refused", true, "safe_primes", val.B(randBytes(r, 64)), val.I64(int64(c[0])), val.I64(int64(c[1])), val.A("finite"))
	}
	for _, n := range []int{0, 1, 7, 8, 15, 16, 17} {
		s := bytes.Repeat([]byte{0x81}, n) // candidates 0x8181..81 | top bits: never a Sophie Germain prime of 64 bits here, and too short anyway
		r.Case("safe_primes/short-stream", true, "safe_primes", val.B(s), val.I64(64), val.I64(1), val.A("finite"))
	}
	// (b) several workers, real entropy, direct oracles
	type cfg struct{ bl, num, conc int }
	cfgs := []cfg{{6, 1, 16}, {6, 3, 2}, {7, 2, 4}, {8, 5, 16}, {16, 2, 3}, {32, 4, 8}, {64, 2, 16}, {128, 3, 4}, {256, 2, 16}, {512, 2, 16}, {1024, 2, 16}}
	if r.Thorough() {
		for bl := 6; bl <= 40; bl++ {
			for _, conc := range []int{1, 2, 5, 16} {
				cfgs = append(cfgs, cfg{bl, 1 + bl%4, conc})
			}
		}
		cfgs = append(cfgs, cfg{1024, 2, 8}, cfg{1024, 1, 16}, cfg{768, 2, 16})
	}
	for _, c := range cfgs {
		reps := r.Pick(2, 5)
		if c.bl >= 512 {
			reps = 1
		}
		for rep := 0; rep < reps; rep++ {
			replay := fmt.Sprintf("GetRandomSafePrimesConcurrent(bitLen=%d, num=%d, workers=%d, crypto/rand)", c.bl, c.num, c.conc)
			done := make(chan struct{})
			var ps []*common.GermainSafePrime
			var err error
			go func() {
				ps, err = common.GetRandomSafePrimesConcurrent(context.Background(), c.bl, c.num, c.conc, cryptorand.Reader)
				close(done)
			}()
			select {
			case <-done:
			case <-time.After(120 * time.Second):
				r.Violate("safe-prime-hang", "the generator did not return within 120 s", replay)
				return
			}
			r.Dist[fmt.Sprintf("safe_primes/concurrent/%dbit", c.bl)]++
			r.CountCase(fmt.Sprintf("%s #%d", replay, rep), true, replay)
			if err != nil {
				r.Violate("safe-prime-error", "the generator failed with a healthy entropy source: "+err.Error(), replay)
				continue
			}
			checkSGPs(r, ps, c.bl, c.num, replay)
			if n := settleGoroutines(base); n > base {
				r.Violate("safe-prime-goroutine-leak", fmt.Sprintf("%d goroutine(s) left behind after the call returned", n-base), replay)
				base = n
			}
		}
	}
}

// c19Lifecycle: cancellation instants and entropy failures.
func c19Lifecycle(r *vc.Run, g rng) {
	base := runtime.NumGoroutine()
	instants := []time.Duration{-1, 0, 200 * time.Microsecond, time.Millisecond, 5 * time.Millisecond, 30 * time.Millisecond}
	if r.Thorough() {
		instants = append(instants, 2*time.Millisecond, 10*time.Millisecond, 100*time.Millisecond, 300*time.Millisecond)
	}
	for _, at := range instants {
		for _, conc := range []int{1, 4, 16} {
			ctx, cancel := context.WithCancel(context.Background())
			if at < 0 {
				cancel()
			} else {
				time.AfterFunc(at, cancel)
			}
			replay := fmt.Sprintf("GetRandomSafePrimesConcurrent(bitLen=2048, num=8, workers=%d) cancelled after %v", conc, at)
			t0 := time.Now()
			done := make(chan struct{})
			var ps []*common.GermainSafePrime
			var err error
			go func() {
				ps, err = common.GetRandomSafePrimesConcurrent(ctx, 2048, 8, conc, cryptorand.Reader)
				close(done)
			}()
			select {
			case <-done:
			case <-time.After(20 * time.Second):
				r.Violate("safe-prime-cancel-ignored", "the generator did not stop within 20 s of cancellation", replay)
				cancel()
				return
			}
			cancel()
			el := time.Since(t0)
			r.Dist["safe_primes/cancelled"]++
			r.CountCase(replay, true, replay)
			if err == nil {
				checkSGPs(r, ps, 2048, 8, replay)
			} else if !errors.Is(err, common.ErrGeneratorCancelled) {
				r.Violate("safe-prime-cancel-error", "cancellation is reported as a different error: "+err.Error(), replay)
			}
			if err != nil && ps != nil {
				r.Violate("safe-prime-cancel-result", "a cancelled call returns primes together with the error", replay)
			}
			if at >= 0 && el > at+5*time.Second {
				r.Violate("safe-prime-cancel-slow", fmt.Sprintf("the call returned %v after cancellation", el-at), replay)
			}
			if n := settleGoroutines(base); n > base {
				r.Violate("safe-prime-goroutine-leak", fmt.Sprintf("%d goroutine(s) left behind after a cancelled call", n-base), replay)
				base = n
			}
		}
	}
	// entropy failure after k bytes
	for _, k := range []int{0, 1, 63, 64, 200, 1000, 5000} {
		for _, conc := range []int{1, 3, 16} {
			fr := &entropyFailReader{src: cryptorand.Reader, left: k}
			replay := fmt.Sprintf("GetRandomSafePrimesConcurrent(bitLen=512, num=2, workers=%d) with an entropy source failing after %d bytes", conc, k)
			done := make(chan struct{})
			var ps []*common.GermainSafePrime
			var err error
			go func() {
				ps, err = common.GetRandomSafePrimesConcurrent(context.Background(), 512, 2, conc, fr)
				close(done)
			}()
			select {
			case <-done:
			case <-time.After(20 * time.Second):
				r.Violate("safe-prime-entropy-hang", "the generator did not return within 20 s of its entropy source failing", replay)
				return
			}
			r.Dist["safe_primes/entropy-failure"]++
			r.CountCase(replay, true, replay)
			if err == nil {
				checkSGPs(r, ps, 512, 2, replay) // legitimately found before the failure (only plausible for large k)
				if k < 128 {
					r.Violate("safe-prime-entropy-ignored", "the generator returned primes although its entropy source gave fewer bytes than one candidate needs", replay)
				}
			} else if !errors.Is(err, errEntropy) && !errors.Is(err, io.ErrUnexpectedEOF) {
				r.Violate("safe-prime-entropy-error", "the entropy failure is reported as a different error: "+err.Error(), replay)
			}
			if n := settleGoroutines(base); n > base {
				r.Violate("safe-prime-goroutine-leak", fmt.Sprintf("%d goroutine(s) left behind after an entropy failure", n-base), replay)
				base = n
			}
		}
	}
}

func c19PreParams(r *vc.Run, g rng) {
	base := runtime.NumGoroutine()
	one := big.NewInt(1)
	for rep := 0; rep < r.Pick(1, 4); rep++ {
		rec := &recReader{src: cryptorand.Reader, by: map[int][]byte{}}
		replay := fmt.Sprintf("GeneratePreParamsWithContextAndRandom #%d (crypto/rand through a recording reader)", rep)
		ctx, cancel := context.WithTimeout(context.Background(), 10*time.Minute)
		pp, err := ecdsakeygen.GeneratePreParamsWithContextAndRandom(ctx, rec, 16)
		cancel()
		r.Dist["preparams/generated"]++
		if err != nil || pp == nil {
			r.Violate("preparams-failed", fmt.Sprintf("pre-parameter generation failed: %v", err), replay)
			continue
		}
		bad := func(key, what string) { r.Violate(key, what, replay) }
		sk := pp.PaillierSK
		if sk == nil || sk.N.BitLen() != 2048 || new(big.Int).Mul(sk.P, sk.Q).Cmp(sk.N) != 0 {
			bad("preparams-paillier-modulus", "the Paillier modulus is not a 2048-bit product of its two primes")
			continue
		}
		half := func(x *big.Int) *big.Int { return new(big.Int).Rsh(new(big.Int).Sub(x, one), 1) }
		if sk.P.Cmp(sk.Q) == 0 || !isPrimeExact(sk.P) || !isPrimeExact(sk.Q) || !isPrimeExact(half(sk.P)) || !isPrimeExact(half(sk.Q)) {
			bad("preparams-paillier-primes", "the Paillier primes are not two distinct safe primes")
		}
		if new(big.Int).Sub(sk.P, sk.Q).BitLen() < 1024-3 {
			bad("preparams-paillier-primes-close", "the Paillier primes are closer than the documented minimum distance")
		}
		phi := new(big.Int).Mul(new(big.Int).Sub(sk.P, one), new(big.Int).Sub(sk.Q, one))
		lcm := new(big.Int).Div(phi, new(big.Int).GCD(nil, nil, new(big.Int).Sub(sk.P, one), new(big.Int).Sub(sk.Q, one)))
		if sk.PhiN.Cmp(phi) != 0 || sk.LambdaN.Cmp(lcm) != 0 {
			bad("preparams-paillier-lambda", "PhiN / LambdaN are not (P-1)(Q-1) and its lcm form")
		}
		P, Q := add(new(big.Int).Lsh(pp.P, 1), 1), add(new(big.Int).Lsh(pp.Q, 1), 1)
		if !isPrimeExact(pp.P) || !isPrimeExact(pp.Q) || !isPrimeExact(P) || !isPrimeExact(Q) || pp.P.Cmp(pp.Q) == 0 {
			bad("preparams-ntilde-primes", "NTilde is not built from two distinct safe primes 2p+1, 2q+1")
		}
		if pp.NTildei.Cmp(new(big.Int).Mul(P, Q)) != 0 || pp.NTildei.BitLen() != 2048 {
			bad("preparams-ntilde", "NTilde is not the 2048-bit product (2p+1)(2q+1)")
		}
		if new(big.Int).GCD(nil, nil, pp.NTildei, sk.N).Cmp(one) != 0 {
			bad("preparams-moduli-not-independent", "the Paillier modulus and NTilde share a factor")
		}
		nt := pp.NTildei
		if big.Jacobi(pp.H1i, P) != 1 || big.Jacobi(pp.H1i, Q) != 1 || big.Jacobi(pp.H2i, P) != 1 || big.Jacobi(pp.H2i, Q) != 1 {
			bad("preparams-h-not-square", "h1 or h2 is not a square modulo NTilde")
		}
		if new(big.Int).Exp(pp.H1i, pp.Alpha, nt).Cmp(pp.H2i) != 0 {
			bad("preparams-h2", "h2 != h1^alpha mod NTilde")
		}
		if pp.Beta == nil || new(big.Int).Exp(pp.H2i, pp.Beta, nt).Cmp(pp.H1i) != 0 {
			bad("preparams-h1", "h1 != h2^beta mod NTilde")
		}
		pq := new(big.Int).Mul(pp.P, pp.Q)
		if pp.Beta != nil && new(big.Int).Mod(new(big.Int).Mul(pp.Alpha, pp.Beta), pq).Cmp(one) != 0 {
			bad("preparams-beta", "alpha*beta != 1 mod pq")
		}
		if pp.H1i.Cmp(one) == 0 || pp.H2i.Cmp(one) == 0 || pp.H1i.Cmp(pp.H2i) == 0 ||
			new(big.Int).Exp(pp.H1i, pp.P, nt).Cmp(one) == 0 || new(big.Int).Exp(pp.H1i, pp.Q, nt).Cmp(one) == 0 {
			bad("preparams-h-degenerate", "h1 does not generate the squares (degenerate order)")
		}
		if !pp.Validate() || !pp.ValidateWithProof() {
			bad("preparams-validate", "the generated pre-parameters do not pass their own Validate")
		}
		// the recorded 256-byte reads are exactly the draws of f1 and alpha: the Coq derivation must give the same parameters
		rec.mu.Lock()
		draws := append([]byte{}, rec.by[256]...)
		rec.mu.Unlock()
		obs := val.Ok(val.L(val.A("Some"), val.L(val.I(pp.NTildei), val.I(pp.H1i), val.I(pp.H2i), val.I(pp.Alpha), val.I(pp.Beta))))
		r.Record("preparams_draw", true, "preparams_draw", []val.V{val.B(draws), val.I(pp.P), val.I(pp.Q)}, obs)
		if n := settleGoroutines(base); n > base {
			bad("preparams-goroutine-leak", fmt.Sprintf("%d goroutine(s) left behind after pre-parameter generation", n-base))
			base = n
		}
	}
	// the deadline falls BETWEEN the two generators: an entropy source that answers every 128-byte draw with one fixed Sophie
	// Germain prime lets the two safe primes of NTilde be found at once, while the Paillier generator (which insists on two
	// different primes far apart) keeps retrying until the deadline. The call must then report the failure; what it must never
	// do is return without an error and without a Paillier key.
	{
		fx, _ := fixtures()
		sg := fx[0].LocalPreParams.P.Bytes()
		for _, conc := range []int{3, 12} {
			ctx, cancel := context.WithTimeout(context.Background(), 2*time.Second)
			t0 := time.Now()
			pp, err := ecdsakeygen.GeneratePreParamsWithContextAndRandom(ctx, &fixedPrimeReader{prime: sg, rest: newDetRand(fmt.Sprintf("c19-between-%d", conc))}, conc)
			cancel()
			replay := fmt.Sprintf("GeneratePreParamsWithContextAndRandom(2 s deadline, workers=%d) with an entropy source that answers every 128-byte draw with the same Sophie Germain prime (safe primes found at once, Paillier primes never)", conc)
			r.Dist["preparams/deadline-between-generators"]++
			r.CountCase(replay, true, replay)
			if err == nil && (pp == nil || pp.PaillierSK == nil || pp.NTildei == nil || pp.H1i == nil || pp.H2i == nil) {
				r.Violate("preparams-incomplete-without-error", "pre-parameter generation returned no error although the Paillier key was not generated before the deadline (incomplete pre-parameters)", replay)
			}
			if err != nil && pp != nil {
				r.Violate("preparams-cancel-result", "an error is returned together with pre-parameters", replay)
			}
			if time.Since(t0) > 15*time.Second {
				r.Violate("preparams-cancel-slow", fmt.Sprintf("the call returned %v after its deadline", time.Since(t0)-2*time.Second), replay)
			}
			if n := settleGoroutines(base); n > base {
				r.Violate("preparams-goroutine-leak", fmt.Sprintf("%d goroutine(s) left behind after a generation that missed its deadline", n-base), replay)
				base = n
			}
		}
	}
	// cancelled pre-parameter generation: an error, promptly, nothing left running
	for _, at := range []time.Duration{0, 3 * time.Millisecond, 50 * time.Millisecond} {
		ctx, cancel := context.WithTimeout(context.Background(), at)
		t0 := time.Now()
		pp, err := ecdsakeygen.GeneratePreParamsWithContext(ctx, 16)
		cancel()
		replay := fmt.Sprintf("GeneratePreParamsWithContext with a %v deadline", at)
		r.Dist["preparams/cancelled"]++
		r.CountCase(replay, true, replay)
		if err == nil && pp != nil && !pp.ValidateWithProof() {
			r.Violate("preparams-validate", "pre-parameters returned under a deadline do not validate", replay)
		}
		if err != nil && pp != nil {
			r.Violate("preparams-cancel-result", "an error is returned together with pre-parameters", replay)
		}
		if time.Since(t0) > at+10*time.Second {
			r.Violate("preparams-cancel-slow", fmt.Sprintf("the call returned %v after its deadline", time.Since(t0)-at), replay)
		}
		if n := settleGoroutines(base); n > base {
			r.Violate("preparams-goroutine-leak", fmt.Sprintf("%d goroutine(s) left behind after a cancelled generation", n-base), replay)
			base = n
		}
	}
}

// fixedPrimeReader answers every read of exactly len(prime) bytes with prime, every other read from rest.
type fixedPrimeReader struct {
	prime []byte
	rest  io.Reader
}

func (f *fixedPrimeReader) Read(p []byte) (int, error) {
	if len(p) == len(f.prime) {
		copy(p, f.prime)
		return len(p), nil
	}
	return f.rest.Read(p)
}
