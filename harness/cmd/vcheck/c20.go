package main

import (
	"bytes"
	"crypto/ecdsa"
	"crypto/ed25519"
	"crypto/sha256"
	"encoding/hex"
	"fmt"
	"math/big"
	"math/rand"
	"time"

	"github.com/bnb-chain/tss-lib/v2/crypto"
	ecdsakeygen "github.com/bnb-chain/tss-lib/v2/ecdsa/keygen"
	ecdsasign "github.com/bnb-chain/tss-lib/v2/ecdsa/signing"
	eddsakeygen "github.com/bnb-chain/tss-lib/v2/eddsa/keygen"
	"github.com/bnb-chain/tss-lib/v2/tss"

	"verif/harness/internal/sched"
	"verif/harness/internal/val"
	"verif/harness/internal/vc"
)

func init() { gens["C20"] = genC20 }

func reloadEdKeys(keys []eddsakeygen.LocalPartySaveData) []eddsakeygen.LocalPartySaveData {
	out := make([]eddsakeygen.LocalPartySaveData, len(keys))
	for i, k := range keys {
		bz, err := jsonMarshal(k)
		if err != nil {
			panic(err)
		}
		if err := jsonUnmarshal(bz, &out[i]); err != nil {
			panic(err)
		}
		for _, b := range out[i].BigXj {
			b.SetCurve(tss.Edwards())
		}
		out[i].EDDSAPub.SetCurve(tss.Edwards())
	}
	return out
}

func snapJSON(vs ...interface{}) string {
	h := sha256.New()
	for _, v := range vs {
		bz, err := jsonMarshal(v)
		if err != nil {
			panic(err)
		}
		h.Write(bz)
	}
	return hex.EncodeToString(h.Sum(nil))
}
func snapEC(keys []ecdsakeygen.LocalPartySaveData) string {
	vs := make([]interface{}, len(keys))
	for i := range keys {
		vs[i] = keys[i]
	}
	return snapJSON(vs...)
}
func snapED(keys []eddsakeygen.LocalPartySaveData) string {
	vs := make([]interface{}, len(keys))
	for i := range keys {
		vs[i] = keys[i]
	}
	return snapJSON(vs...)
}

// firstDiffEC names the first field of the first party whose value changed (for the violation text).
func firstDiffEC(a, b []ecdsakeygen.LocalPartySaveData) string {
	for i := range a {
		if snapJSON(a[i]) == snapJSON(b[i]) {
			continue
		}
		switch {
		case a[i].Xi.Cmp(b[i].Xi) != 0:
			return fmt.Sprintf("party %d: Xi", i)
		case snapJSON(a[i].BigXj) != snapJSON(b[i].BigXj):
			return fmt.Sprintf("party %d: BigXj", i)
		case snapJSON(a[i].ECDSAPub) != snapJSON(b[i].ECDSAPub):
			return fmt.Sprintf("party %d: ECDSAPub", i)
		case snapJSON(a[i].Ks) != snapJSON(b[i].Ks):
			return fmt.Sprintf("party %d: Ks", i)
		case snapJSON(a[i].LocalPreParams) != snapJSON(b[i].LocalPreParams):
			return fmt.Sprintf("party %d: LocalPreParams", i)
		default:
			return fmt.Sprintf("party %d: peer parameters", i)
		}
	}
	return ""
}

type sessSpec struct {
	signers []int // indexes into the saved parties, in any order
	mode    string
	kdd     *big.Int
	m       *big.Int
}

func (s sessSpec) String() string {
	d := "-"
	if s.kdd != nil {
		d = s.kdd.String()
	}
	return fmt.Sprintf("%s signers=%v delta=%s m=%s", s.mode, s.signers, d, s.m)
}

func collectSigs(rc *runCtx) *signRun {
	sr := &signRun{net: rc.net}
	for _, n := range rc.net.New {
		n.Results()
		for _, x := range rc.results[n.Name] {
			sr.sigs = append(sr.sigs, x.(*commonSig))
		}
		sr.errs = append(sr.errs, n.Errs...)
		sr.emitted += len(n.Emitted)
	}
	return sr
}

// runMode drives one session: ok (to completion), silence (one signer never speaks), tamper (one wire is corrupted), cut (stopped after k events).
func runMode(rc *runCtx, mode string, rg *rand.Rand) {
	rc.net.Rng = rand.New(rand.NewSource(rg.Int63()))
	switch mode {
	case "silence":
		rc.net.New[rg.Intn(len(rc.net.New))].Silent = true
		rc.net.Run(sched.FIFO, 200000)
	case "tamper":
		target := 1 + rg.Intn(12)
		count := 0
		rc.net.Tamper = func(c *sched.Copy) {
			count++
			if count == target && len(c.Wire) > 8 {
				w := append([]byte{}, c.Wire...)
				w[len(w)/2] ^= 0x5a
				w[len(w)-3] ^= 0x81
				c.Wire = w
			}
		}
		rc.net.Run(sched.FIFO, 200000)
	case "cut":
		rc.net.Run(sched.Random, 1+rg.Intn(14))
	default:
		rc.net.Run([]sched.Strategy{sched.FIFO, sched.LIFO, sched.Random}[rg.Intn(3)], 200000)
	}
}

func genC20(r *vc.Run) {
	r.Rule = "histories of operations on ONE loaded key (the same in-memory LocalPartySaveData handed to every session, so aliasing shows): ops drawn from {serialise+reload through JSON, sign with a subset in any order, sign with a derivation offset, aborted signing: a silenced peer / a corrupted wire / stopped after k events}; after every op the key data is compared deeply (all fields through JSON) with its state before the history, and every completed session's SignatureData is compared with the Coq closed form computed from the ORIGINAL shares with the nonce shares fixed through the reader; both curves; keys from the vendored files, from in-harness key generation and from resharing, in memory vs reloaded from JSON must sign identically for every subset/order tried; all completed sessions of a history (and sessions run with crypto/rand and with differently seeded sources on the same message and signers) are compared pairwise for R reuse; non-trivial = completed sessions + reload steps"
	g := rng{r}
	c20HistoriesECDSA(r, g)
	c20HistoriesEdDSA(r, g)
	c20Stores(r, g)
	c20Fresh(r, g)
}

// ---- histories: a list of ops executed on ONE loaded key; the same executor serves the generator and the replayable op ----
type hop struct {
	kind    string // reload | sign | signhd | signed | abort
	signers []int
	nonces  []*big.Int // k_i (ECDSA) or r_i (EdDSA), sorted-signer order
	gammas  []*big.Int
	m       *big.Int
	delta   *big.Int
	mode    string // abort flavour: silence | tamper | cut
	seed    int64
}

func idxInts(xs []int) val.V {
	out := make([]*big.Int, len(xs))
	for i, x := range xs {
		out[i] = big.NewInt(int64(x))
	}
	return val.Ints(out)
}

func (o hop) V() val.V {
	switch o.kind {
	case "reload":
		return val.L(val.A("reload"))
	case "sign":
		return val.L(val.A("sign"), idxInts(o.signers), val.Ints(o.nonces), val.I(o.m), val.Ints(o.gammas), val.I64(o.seed))
	case "signhd":
		return val.L(val.A("signhd"), idxInts(o.signers), val.Ints(o.nonces), val.I(o.m), val.I(o.delta), val.Ints(o.gammas), val.I64(o.seed))
	case "signed":
		return val.L(val.A("signed"), idxInts(o.signers), val.Ints(o.nonces), val.I(o.m), val.I64(o.seed))
	default:
		return val.L(val.A("abort"), idxInts(o.signers), val.A(o.mode), val.I64(o.seed), val.I(o.m))
	}
}

func hopOf(v val.V) hop {
	l := val.AsList(v)
	o := hop{kind: val.AsAtom(l[0])}
	switch o.kind {
	case "sign":
		o.signers, o.nonces, o.m, o.gammas, o.seed = intsToIdx(val.AsInts(l[1])), val.AsInts(l[2]), val.AsInt(l[3]), val.AsInts(l[4]), val.AsInt64(l[5])
	case "signhd":
		o.signers, o.nonces, o.m, o.delta, o.gammas, o.seed = intsToIdx(val.AsInts(l[1])), val.AsInts(l[2]), val.AsInt(l[3]), val.AsInt(l[4]), val.AsInts(l[5]), val.AsInt64(l[6])
	case "signed":
		o.signers, o.nonces, o.m, o.seed = intsToIdx(val.AsInts(l[1])), val.AsInts(l[2]), val.AsInt(l[3]), val.AsInt64(l[4])
	case "abort":
		o.signers, o.mode, o.seed, o.m = intsToIdx(val.AsInts(l[1])), val.AsAtom(l[2]), val.AsInt64(l[3]), val.AsInt(l[4])
	}
	return o
}

type histResult struct {
	final val.V
	outs  []val.V
	viol  [][3]string // key, what, op index
	rs    []string    // hex R of completed sessions
}

func ecStoreV(keys []ecdsakeygen.LocalPartySaveData, pids tss.SortedPartyIDs) val.V {
	out := []*big.Int{keys[0].ECDSAPub.X(), keys[0].ECDSAPub.Y()}
	for i, k := range keys {
		out = append(out, pids[i].KeyInt(), k.Xi, k.BigXj[i].X(), k.BigXj[i].Y())
	}
	return val.Ints(out)
}
func edStoreV(keys []eddsakeygen.LocalPartySaveData, pids tss.SortedPartyIDs) val.V {
	out := []*big.Int{keys[0].EDDSAPub.X(), keys[0].EDDSAPub.Y()}
	for i, k := range keys {
		out = append(out, pids[i].KeyInt(), k.Xi, k.BigXj[i].X(), k.BigXj[i].Y())
	}
	return val.Ints(out)
}

// runECHistory executes ops on one loaded copy of keys; t is the threshold.
func runECHistory(keys []ecdsakeygen.LocalPartySaveData, pids tss.SortedPartyIDs, t int, ops []hop) histResult {
	var res histResult
	ec := keys[0].ECDSAPub.Curve()
	q := ec.Params().N
	pristine := reloadKeys(keys)
	cur := reloadKeys(keys)
	before := snapEC(cur)
	for i, o := range ops {
		at := fmt.Sprint(i)
		if o.kind == "reload" {
			cur = reloadKeys(cur)
			res.outs = append(res.outs, val.A("reloaded"))
		} else {
			sk, sp := pickKeys(cur, pids, o.signers)
			handed := sk
			if o.kind == "signhd" {
				handed = reloadKeys(sk)
				gd := crypto.ScalarBaseMult(ec, new(big.Int).Mod(o.delta, q))
				child, err := sk[0].ECDSAPub.Add(gd)
				if err == nil {
					err = ecdsasign.UpdatePublicKeyAndAdjustBigXj(o.delta, handed, &ecdsa.PublicKey{Curve: ec, X: child.X(), Y: child.Y()}, ec)
				}
				if err != nil {
					res.outs = append(res.outs, val.Err)
					continue
				}
			}
			handedBefore := snapEC(handed)
			so := signOpts{msg: o.m, seed: fmt.Sprintf("c20-%d", o.seed), kdd: o.delta, ec: ec}
			if o.kind != "abort" {
				so.first = make([][]*big.Int, len(sp))
				for j := range sp {
					so.first[j] = []*big.Int{o.nonces[j], o.gammas[j]}
				}
			}
			rc := buildECDSASign(handed, sp, t, so)
			mode := "ok"
			if o.kind == "abort" {
				mode = o.mode
			}
			runMode(rc, mode, rand.New(rand.NewSource(o.seed)))
			sr := collectSigs(rc)
			if snapEC(handed) != handedBefore {
				res.viol = append(res.viol, [3]string{"session-modified-key-data", "a signing session modified the key data it was handed (" + firstDiffEC(reloadKeys(sk), handed) + ")", at})
			}
			switch {
			case o.kind == "abort":
				res.outs = append(res.outs, val.A("aborted"))
				if o.mode == "silence" && len(sr.sigs) > 0 {
					res.viol = append(res.viol, [3]string{"silenced-session-completed", "a session with a silenced signer produced a signature", at})
				}
			case len(sr.sigs) == 0:
				res.outs = append(res.outs, val.Err)
			default:
				res.outs = append(res.outs, sigV(sr.sigs[0]))
				res.rs = append(res.rs, hex.EncodeToString(sr.sigs[0].R))
				for _, s := range sr.sigs[1:] {
					if !bytes.Equal(s.Signature, sr.sigs[0].Signature) {
						res.viol = append(res.viol, [3]string{"ecdsa-signers-differ", "two signers output different signatures", at})
					}
				}
				if len(sr.sigs) != len(sp) {
					res.viol = append(res.viol, [3]string{"ecdsa-sign-incomplete", fmt.Sprintf("only %d of %d signers produced a signature: %v", len(sr.sigs), len(sp), sr.errs), at})
				}
			}
		}
		if after := snapEC(cur); after != before {
			res.viol = append(res.viol, [3]string{"stored-key-data-changed", "the stored key data changed during a history of sessions (" + firstDiffEC(pristine, cur) + ")", at})
			break
		}
	}
	res.final = ecStoreV(cur, pids)
	return res
}

func runEdHistory(keys []eddsakeygen.LocalPartySaveData, pids tss.SortedPartyIDs, t int, ops []hop, viaDisk bool) histResult {
	var res histResult
	cur := keys
	if viaDisk {
		cur = reloadEdKeys(keys)
	}
	before := snapED(cur)
	for i, o := range ops {
		at := fmt.Sprint(i)
		if o.kind == "reload" {
			cur = reloadEdKeys(cur)
			res.outs = append(res.outs, val.A("reloaded"))
		} else {
			sk, sp := pickEdKeys(cur, pids, o.signers)
			so := signOpts{msg: o.m, seed: fmt.Sprintf("c20e-%d", o.seed)}
			if o.kind != "abort" {
				so.first = make([][]*big.Int, len(sp))
				for j := range sp {
					so.first[j] = []*big.Int{o.nonces[j]}
				}
			}
			rc := buildEdDSASign(sk, sp, t, so)
			mode := "ok"
			if o.kind == "abort" {
				mode = o.mode
			}
			runMode(rc, mode, rand.New(rand.NewSource(o.seed)))
			sr := collectSigs(rc)
			switch {
			case o.kind == "abort":
				res.outs = append(res.outs, val.A("aborted"))
			case len(sr.sigs) == 0:
				res.outs = append(res.outs, val.Err)
			default:
				res.outs = append(res.outs, sigV(sr.sigs[0]))
				res.rs = append(res.rs, hex.EncodeToString(sr.sigs[0].R))
				if len(sr.sigs) != len(sp) {
					res.viol = append(res.viol, [3]string{"eddsa-sign-incomplete", fmt.Sprintf("only %d of %d signers produced a signature: %v", len(sr.sigs), len(sp), sr.errs), at})
				}
			}
		}
		if after := snapED(cur); after != before {
			res.viol = append(res.viol, [3]string{"stored-key-data-changed", "the stored EdDSA key data changed during a history of sessions", at})
			break
		}
	}
	res.final = edStoreV(cur, pids)
	return res
}

func init() {
	vc.OpTimeout["key_history"] = 300 * time.Second
	// key_history curve keyref t [store numbers] [ops] -> [[final store numbers] [outs]]
	vc.Register("key_history", func(a []val.V) val.V {
		var ops []hop
		for _, v := range val.AsList(a[4]) {
			ops = append(ops, hopOf(v))
		}
		t := int(val.AsInt64(a[2]))
		var res histResult
		if val.AsAtom(a[0]) == "secp256k1" || val.AsAtom(a[0]) == "p256" {
			keys, pids, _ := ecKeysByRef(val.AsAtom(a[1]))
			res = runECHistory(keys, pids, t, ops)
		} else {
			keys, pids, _ := edKeysByRef(val.AsAtom(a[1]))
			res = runEdHistory(keys, pids, t, ops, true)
		}
		return val.L(res.final, val.L(res.outs...))
	})
}

func randSubset(rg *rand.Rand, n, k int) []int {
	p := rg.Perm(n)
	return p[:k]
}

func reportHist(r *vc.Run, res histResult, line string) {
	for _, v := range res.viol {
		r.Violate(v[0], v[1]+" (op "+v[2]+" of the history)", line)
	}
	seen := map[string]bool{}
	for _, x := range res.rs {
		if seen[x] {
			r.Violate("nonce-reused", "two completed sessions of one history have the same R", line)
		}
		seen[x] = true
	}
}

func c20HistoriesECDSA(r *vc.Run, g rng) {
	keys, pids := fixtures() // (5,2)
	c20HistoriesOn(r, g, "secp256k1", "fixture", keys, pids, 2, r.Pick(2, 8))
	// a key on a curve the application brings itself (NIST P-256): (3,1), generated in the harness
	pk, pp, pt := ecKeysByRef("p256:kg:3:1")
	c20HistoriesOn(r, g, "p256", "p256:kg:3:1", pk, pp, pt, r.Pick(1, 3))
}

func c20HistoriesOn(r *vc.Run, g rng, cn, keyref string, keys []ecdsakeygen.LocalPartySaveData, pids tss.SortedPartyIDs, t, count int) {
	ec := curveByName(cn)
	q := ec.Params().N
	n := len(keys)
	for h := 0; h < count; h++ {
		var ops []hop
		for op := 0; op < r.Pick(5, 9); op++ {
			kind := []string{"sign", "sign", "signhd", "reload", "abort", "abort", "sign", "signhd"}[r.Rng.Intn(8)]
			if op == 0 {
				kind = "sign"
			}
			if op == 1 {
				kind = "signhd"
			}
			o := hop{kind: kind, signers: randSubset(r.Rng, n, t+1+r.Rng.Intn(n-t)), m: g.below(q), seed: r.Rng.Int63n(1 << 40)}
			if (h%2 == 1 || cn != "secp256k1") && op >= 2 && op%2 == 0 {
				o.m, o.signers = big.NewInt(424242), []int{0, 1, 2}[:t+1] // the same message and signers again
			}
			switch kind {
			case "abort":
				o.mode = []string{"silence", "tamper", "cut"}[r.Rng.Intn(3)]
			case "signhd":
				o.delta = add(g.below(add(q, -1)), 1)
			}
			for range o.signers {
				o.nonces = append(o.nonces, add(g.below(add(q, -1)), 1))
				o.gammas = append(o.gammas, add(g.below(add(q, -1)), 1))
			}
			ops = append(ops, o)
			r.Dist["history/ecdsa/"+cn+"/"+kind+o.mode]++
		}
		res := runECHistory(keys, pids, t, ops)
		opsV := make([]val.V, len(ops))
		for i, o := range ops {
			opsV[i] = o.V()
		}
		args := []val.V{val.A(cn), val.A(keyref), val.I64(int64(t)), ecStoreV(reloadKeys(keys), pids), val.L(opsV...)}
		r.Record("history/ecdsa/"+cn, true, "key_history", args, val.L(res.final, val.L(res.outs...)))
		reportHist(r, res, vc.Line("key_history", args))
		// direct oracle on every completed session: standard verification under the right key, not under the parent
		for i, o := range ops {
			if (o.kind == "sign" || o.kind == "signhd") && i < len(res.outs) {
				if ol, ok := res.outs[i].(val.List); ok && len(ol) == 2 {
					sl := val.AsList(ol[1])
					rr, ss := new(big.Int).SetBytes(val.AsBytes(sl[0])), new(big.Int).SetBytes(val.AsBytes(sl[1]))
					pub := toECDSAPub(keys[0])
					digest := make([]byte, 32)
					o.m.FillBytes(digest)
					if o.kind == "signhd" {
						gd := crypto.ScalarBaseMult(ec, o.delta)
						ch, _ := keys[0].ECDSAPub.Add(gd)
						if ecdsa.Verify(pub, digest, rr, ss) {
							r.Violate("hd-verifies-under-parent", "a signature made with a derivation offset verifies under the parent key", vc.Line("key_history", args))
						}
						pub = &ecdsa.PublicKey{Curve: ec, X: ch.X(), Y: ch.Y()}
					}
					if !ecdsa.Verify(pub, digest, rr, ss) {
						r.Violate("ecdsa-invalid-signature", fmt.Sprintf("crypto/ecdsa rejects the signature of op %d of a history", i), vc.Line("key_history", args))
					}
				} else {
					r.Violate("ecdsa-sign-incomplete", fmt.Sprintf("op %d (%s) of a history did not produce a signature", i, o.kind), vc.Line("key_history", args))
				}
			}
		}
	}
}

// sortedIdx lists the chosen fixture indexes in sorted-id order (the order in which nonce shares are listed).
func sortedIdx(signers []int, pids tss.SortedPartyIDs) []*big.Int {
	us := make(tss.UnSortedPartyIDs, len(signers))
	back := map[string]int{}
	for i, j := range signers {
		us[i] = tss.NewPartyID(pids[j].Id, pids[j].Moniker, pids[j].KeyInt())
		back[pids[j].KeyInt().String()] = j
	}
	sp := tss.SortPartyIDs(us)
	out := make([]*big.Int, len(sp))
	for i, p := range sp {
		out[i] = big.NewInt(int64(back[p.KeyInt().String()]))
	}
	return out
}

func pickEdKeys(keys []eddsakeygen.LocalPartySaveData, pids tss.SortedPartyIDs, idx []int) ([]eddsakeygen.LocalPartySaveData, tss.SortedPartyIDs) {
	us := make(tss.UnSortedPartyIDs, len(idx))
	byKey := map[string]eddsakeygen.LocalPartySaveData{}
	for i, j := range idx {
		us[i] = tss.NewPartyID(pids[j].Id, pids[j].Moniker, pids[j].KeyInt())
		byKey[pids[j].KeyInt().String()] = keys[j]
	}
	sp := tss.SortPartyIDs(us)
	ks := make([]eddsakeygen.LocalPartySaveData, len(sp))
	for i, p := range sp {
		ks[i] = byKey[p.KeyInt().String()]
	}
	return ks, sp
}

func c20HistoriesEdDSA(r *vc.Run, g rng) {
	q := tss.Edwards().Params().N
	for h := 0; h < r.Pick(2, 8); h++ {
		ref := []string{"kg:4:2", "kg:3:1", "kg:5:2"}[h%3]
		var n, t int
		fmt.Sscanf(ref, "kg:%d:%d", &n, &t)
		keys, pids, _ := edKeysByRef(ref)
		var ops []hop
		for op := 0; op < r.Pick(5, 9); op++ {
			kind := []string{"signed", "signed", "reload", "abort", "abort", "signed"}[r.Rng.Intn(6)]
			if op == 0 {
				kind = "signed"
			}
			o := hop{kind: kind, signers: randSubset(r.Rng, n, t+1+r.Rng.Intn(n-t)), m: g.below(pow2(256)), seed: r.Rng.Int63n(1 << 40)}
			if op >= 2 && op%2 == 0 {
				o.m = big.NewInt(77)
			}
			if kind == "abort" {
				o.mode = []string{"silence", "tamper", "cut"}[r.Rng.Intn(3)]
			}
			for range o.signers {
				o.nonces = append(o.nonces, add(g.below(add(q, -1)), 1))
			}
			ops = append(ops, o)
			r.Dist["history/eddsa/"+kind+o.mode]++
		}
		res := runEdHistory(keys, pids, t, ops, h%2 == 1)
		opsV := make([]val.V, len(ops))
		for i, o := range ops {
			opsV[i] = o.V()
		}
		args := []val.V{val.A("ed25519"), val.A(ref), val.I64(int64(t)), edStoreV(reloadEdKeys(keys), pids), val.L(opsV...)}
		r.Record("history/eddsa", true, "key_history", args, val.L(res.final, val.L(res.outs...)))
		reportHist(r, res, vc.Line("key_history", args))
		for i, o := range ops {
			if o.kind == "signed" && i < len(res.outs) {
				if ol, ok := res.outs[i].(val.List); ok && len(ol) == 2 {
					sl := val.AsList(ol[1])
					if !edVerifyStd(keys[0].EDDSAPub.X(), keys[0].EDDSAPub.Y(), val.AsBytes(sl[4]), val.AsBytes(sl[2])) {
						r.Violate("eddsa-invalid-signature", fmt.Sprintf("crypto/ed25519 rejects the signature of op %d of a history", i), vc.Line("key_history", args))
					}
				} else {
					r.Violate("eddsa-sign-incomplete", fmt.Sprintf("op %d of an EdDSA history did not produce a signature", i), vc.Line("key_history", args))
				}
			}
		}
	}
}

// c20Stores: key data from key generation and from resharing signs identically from memory and after a JSON round trip, for subsets in any order.
func c20Stores(r *vc.Run, g rng) {
	q := tss.S256().Params().N
	// ECDSA: in-harness key generation (3,1)
	mem, pids := ecKeys(3, 1, nil)
	disk := reloadKeys(mem)
	if snapEC(mem) != snapEC(disk) {
		r.Violate("json-roundtrip-changes-key", "ECDSA key data changes across JSON save/load ("+firstDiffEC(mem, disk)+")", "ecdsa keygen (3,1) output -> json -> load")
	}
	for _, signers := range [][]int{{0, 1}, {2, 0}, {1, 2}, {2, 1, 0}} {
		m := g.below(q)
		var sigs [2]*commonSig
		var kis, gs []*big.Int
		var sp tss.SortedPartyIDs
		for side, src := range [][]ecdsakeygen.LocalPartySaveData{mem, disk} {
			var sk []ecdsakeygen.LocalPartySaveData
			sk, sp = pickKeys(src, pids, signers)
			if side == 0 {
				kis, gs = make([]*big.Int, len(sp)), make([]*big.Int, len(sp))
				for i := range sp {
					kis[i], gs[i] = add(g.below(add(q, -1)), 1), add(g.below(add(q, -1)), 1)
				}
			}
			first := make([][]*big.Int, len(sp))
			for i := range sp {
				first[i] = []*big.Int{kis[i], gs[i]}
			}
			rc := buildECDSASign(sk, sp, 1, signOpts{msg: m, first: first, seed: "c20-store"})
			runMode(rc, "ok", r.Rng)
			sr := collectSigs(rc)
			replay := fmt.Sprintf("ecdsa keygen (3,1) output, side=%d (0 memory, 1 reloaded), signers %v", side, signers)
			ecdsaOracles(r, sr, toECDSAPub(mem[0]), m, 0, replay, nil)
			if len(sr.sigs) > 0 {
				sigs[side] = sr.sigs[0]
			}
		}
		if sigs[0] != nil && sigs[1] != nil {
			if !bytes.Equal(sigs[0].Signature, sigs[1].Signature) {
				r.Violate("reloaded-key-signs-differently", "the reloaded key data produces a different signature than the in-memory original under the same nonces", fmt.Sprintf("ecdsa keygen (3,1) signers %v", signers))
			}
			ids, xs := make([]*big.Int, len(sp)), make([]*big.Int, len(sp))
			sk, _ := pickKeys(mem, pids, signers)
			for i := range sp {
				ids[i], xs[i] = sp[i].KeyInt(), sk[i].Xi
			}
			pub := toECDSAPub(mem[0])
			args := []val.V{val.A("kg:3:1"), val.Ints(sortedIdx(signers, pids)), val.Ints(kis), val.Ints(gs), val.I(m), val.I64(0), val.I64(0), val.Ints(ids), val.Ints(xs), val.L(val.I(pub.X), val.I(pub.Y))}
			r.Record("store/ecdsa/keygen-output", true, "ecdsa_sign", args, sigV(sigs[1]))
		}
	}
	// EdDSA: key generation output and resharing output
	qe := tss.Edwards().Params().N
	type edStore struct {
		name string
		keys []eddsakeygen.LocalPartySaveData
		pids tss.SortedPartyIDs
		t    int
	}
	var stores []edStore
	k1, p1, t1 := edKeysByRef("kg:4:2")
	stores = append(stores, edStore{"eddsa keygen (4,2)", k1, p1, t1})
	// a resharing (3,1) -> (4,2)
	ok0, op0, ot := edKeysByRef("kg:3:1")
	newIDs := defaultKeys(4, 7000)
	rcR := buildEdDSAReshare(ok0[:2], subsetPIDs(op0, 2), 3, ot, reshareOpts{newKeys: newIDs, newT: 2, seed: "c20-reshare"})
	rcR.net.Rng = rand.New(rand.NewSource(r.Seed))
	rcR.net.Run(sched.Random, 200000)
	var nk []eddsakeygen.LocalPartySaveData
	for _, n := range rcR.net.New {
		n.Results()
		for _, x := range rcR.results[n.Name] {
			nk = append(nk, *x.(*eddsakeygen.LocalPartySaveData))
		}
	}
	if len(nk) == 4 {
		stores = append(stores, edStore{"eddsa resharing (3,1)->(4,2)", nk, mkPIDs(newIDs), 2})
	} else {
		r.Note("the C20 resharing fixture did not complete")
	}
	for _, st := range stores {
		disk := reloadEdKeys(st.keys)
		if snapED(st.keys) != snapED(disk) {
			r.Violate("json-roundtrip-changes-key", "EdDSA key data changes across JSON save/load", st.name)
		}
		for _, signers := range [][]int{{0, 1, 2}, {3, 1, 0}, {2, 3, 1, 0}, {1, 2, 3}} {
			m := g.below(pow2(256))
			var sigs [2]*commonSig
			var ris []*big.Int
			var sp tss.SortedPartyIDs
			for side, src := range [][]eddsakeygen.LocalPartySaveData{st.keys, disk} {
				var sk []eddsakeygen.LocalPartySaveData
				sk, sp = pickEdKeys(src, st.pids, signers)
				if side == 0 {
					ris = make([]*big.Int, len(sp))
					for i := range sp {
						ris[i] = add(g.below(add(qe, -1)), 1)
					}
				}
				first := make([][]*big.Int, len(sp))
				for i := range sp {
					first[i] = []*big.Int{ris[i]}
				}
				rc := buildEdDSASign(sk, sp, st.t, signOpts{msg: m, first: first, seed: "c20-store-ed"})
				runMode(rc, "ok", r.Rng)
				sr := collectSigs(rc)
				eddsaOracles(r, sr, st.keys[0].EDDSAPub.X(), st.keys[0].EDDSAPub.Y(), fmt.Sprintf("%s side=%d signers %v", st.name, side, signers))
				if len(sr.sigs) > 0 {
					sigs[side] = sr.sigs[0]
				}
			}
			if sigs[0] != nil && sigs[1] != nil {
				if !bytes.Equal(sigs[0].Signature, sigs[1].Signature) {
					r.Violate("reloaded-key-signs-differently", "the reloaded key data produces a different signature than the in-memory original under the same nonces", fmt.Sprintf("%s signers %v", st.name, signers))
				}
				ids, xs := make([]*big.Int, len(sp)), make([]*big.Int, len(sp))
				sk, _ := pickEdKeys(st.keys, st.pids, signers)
				for i := range sp {
					ids[i], xs[i] = sp[i].KeyInt(), sk[i].Xi
				}
				args := []val.V{val.A("store"), val.Ints(sortedIdx(signers, st.pids)), val.Ints(ris), val.I(m), val.I64(0), val.Ints(ids), val.Ints(xs), pointV(st.keys[0].EDDSAPub)}
				r.Record("store/eddsa/"+st.name, true, "eddsa_sign", args, sigV(sigs[1]))
			}
		}
	}
}

// c20Fresh: sessions on the same message and signers, with the library's own entropy source and with differently seeded sources, never share R.
func c20Fresh(r *vc.Run, g rng) {
	keys, pids := fixtures()
	cur := reloadKeys(keys)
	seen := map[string]string{}
	m := big.NewInt(99991)
	for s := 0; s < r.Pick(3, 6); s++ {
		sk, sp := pickKeys(cur, pids, []int{0, 1, 2})
		o := signOpts{msg: m, seed: fmt.Sprintf("fresh-%d", s)}
		if s%2 == 0 {
			o.realRand = true
		}
		rc := buildECDSASign(sk, sp, 2, o)
		runMode(rc, "ok", r.Rng)
		sr := collectSigs(rc)
		r.Dist["fresh/ecdsa"]++
		r.CountCase(fmt.Sprintf("fresh ecdsa %d", s), true, fmt.Sprintf("fresh ecdsa session %d", s))
		if len(sr.sigs) == 0 {
			r.Violate("ecdsa-sign-incomplete", fmt.Sprintf("a signing session with the default entropy source did not complete: %v", sr.errs), fmt.Sprintf("fresh ecdsa session %d", s))
			continue
		}
		rk := hex.EncodeToString(sr.sigs[0].R)
		if prev, dup := seen[rk]; dup {
			r.Violate("nonce-reused", "two sessions on the same message and signers have the same R", fmt.Sprintf("fresh ecdsa sessions %s and %d, message %s, signers 0,1,2", prev, s, m))
		}
		seen[rk] = fmt.Sprint(s)
	}
	ek, ep, et := edKeysByRef("kg:3:1")
	seenE := map[string]string{}
	for s := 0; s < r.Pick(3, 6); s++ {
		sk, sp := pickEdKeys(ek, ep, []int{0, 1})
		o := signOpts{msg: m, seed: fmt.Sprintf("fresh-ed-%d", s)}
		if s%2 == 0 {
			o.realRand = true
		}
		rc := buildEdDSASign(sk, sp, et, o)
		runMode(rc, "ok", r.Rng)
		sr := collectSigs(rc)
		r.Dist["fresh/eddsa"]++
		r.CountCase(fmt.Sprintf("fresh eddsa %d", s), true, fmt.Sprintf("fresh eddsa session %d", s))
		if len(sr.sigs) == 0 {
			r.Violate("eddsa-sign-incomplete", fmt.Sprintf("a signing session with the default entropy source did not complete: %v", sr.errs), fmt.Sprintf("fresh eddsa session %d", s))
			continue
		}
		rk := hex.EncodeToString(sr.sigs[0].R)
		if prev, dup := seenE[rk]; dup {
			r.Violate("nonce-reused", "two EdDSA sessions on the same message and signers have the same R", fmt.Sprintf("fresh eddsa sessions %s and %d", prev, s))
		}
		seenE[rk] = fmt.Sprint(s)
	}
}

func edVerifyStd(pubX, pubY *big.Int, msg, sig []byte) bool {
	if len(sig) != 64 {
		return false
	}
	return ed25519.Verify(ed25519.PublicKey(edPub32(pubX, pubY)), msg, sig)
}
