package main

import (
	"crypto/elliptic"
	"fmt"
	"math/big"
	"math/rand"
	"sort"
	"strings"
	"time"

	ecdsakeygen "github.com/bnb-chain/tss-lib/v2/ecdsa/keygen"
	eddsakeygen "github.com/bnb-chain/tss-lib/v2/eddsa/keygen"
	"github.com/bnb-chain/tss-lib/v2/tss"

	"verif/harness/internal/sched"
	"verif/harness/internal/val"
	"verif/harness/internal/vc"
)

func init() {
	gens["C07"] = genC07
}

// engineCases records, for every node of a finished run, the event list it saw and the
// observation after every event; the model replays the events on the generated table.
func engineCases(r *vc.Run, rc *runCtx, class string) {
	net := rc.net
	for _, n := range net.Nodes() {
		cfg := fmt.Sprintf("[%v %v %d %d %d]", n.Comm == 'O', n.Comm == 'N', n.Idx, len(net.Old), len(net.New))
		args, err := val.ParseAll(net.Proto + " " + cfg + " [" + strings.Join(n.Events, " ") + "]")
		if err != nil {
			panic(err)
		}
		obs, err := val.ParseAll("[" + strings.Join(n.Obs, " ") + "]")
		if err != nil {
			panic(err)
		}
		r.Record(class, len(n.Events) > 2, "engine", args, obs[0])
	}
}

type schedSpec struct {
	name string
	mk   func(net *sched.Net) sched.Strategy
	dup  bool
}

func strategies(seed int64, nodes []string, k int) []schedSpec {
	out := []schedSpec{
		{"fifo", func(*sched.Net) sched.Strategy { return sched.FIFO }, false},
		{"lifo", func(*sched.Net) sched.Strategy { return sched.LIFO }, false},
		{"future-first", func(*sched.Net) sched.Strategy { return sched.FutureFirst }, false},
		{"dup-everything", func(*sched.Net) sched.Strategy { return sched.Random }, true},
	}
	for _, v := range nodes {
		v := v
		out = append(out, schedSpec{"starve-" + v, func(*sched.Net) sched.Strategy { return sched.Starve(v) }, false})
		out = append(out, schedSpec{"late-start-" + v, func(*sched.Net) sched.Strategy { return sched.LateStart(v) }, false})
	}
	for i := 0; i < k; i++ {
		out = append(out, schedSpec{fmt.Sprintf("random-%d", i), func(*sched.Net) sched.Strategy { return sched.Random }, false})
	}
	// a slow link: the message of type number ti from the first listed node to the second (or to everybody) arrives only when
	// nothing else is deliverable; ti walks over the protocol's message types (at most maxTypes of them per call)
	if len(nodes) >= 2 {
		for ti := 0; ti < holdBackTypes; ti++ {
			ti := ti
			from, to := nodes[len(nodes)-1], nodes[0]
			out = append(out, schedSpec{fmt.Sprintf("hold-back-type%d-%s-to-%s", ti, from, to), func(net *sched.Net) sched.Strategy {
				if ti >= len(net.Types) {
					return sched.FIFO
				}
				return sched.HoldBack(ti, from, to)
			}, false})
		}
	}
	return out
}

// holdBackTypes: how many message types get a hold-back schedule (the longest protocol has ten types)
var holdBackTypes = 10

// runOne executes one schedule. With dup, every delivered copy is delivered a second time later.
func runOne(rc *runCtx, sp schedSpec, seed int64) {
	net := rc.net
	net.Rng = rand.New(rand.NewSource(seed))
	st := sp.mk(net)
	if !sp.dup {
		net.Run(st, 100000)
		return
	}
	// duplicate-everything: wrap the strategy so that each delivered copy is re-queued once
	for steps := 0; steps < 100000; steps++ {
		var un []*sched.Node
		for _, n := range net.Nodes() {
			if !n.Started {
				un = append(un, n)
			}
		}
		if len(net.Pending) == 0 && len(un) == 0 {
			return
		}
		k := st(net, un)
		if k < 0 {
			net.StartNode(un[-k-1])
			continue
		}
		c := net.Pending[k]
		net.Pending = append(net.Pending[:k], net.Pending[k+1:]...)
		net.Deliver(c)
		if !c.Dup {
			d := *c
			d.Dup = true
			net.Pending = append(net.Pending, &d)
		}
	}
}

// scheduleOracles: properties of one finished run that do not need the model.
func scheduleOracles(r *vc.Run, rc *runCtx, proto, cfg, schedName string) {
	net := rc.net
	replay := fmt.Sprintf("run %s %s schedule=%s seed=%d", proto, cfg, schedName, r.Seed)
	for _, n := range net.Nodes() {
		if len(n.Errs) > 0 {
			r.Violate("honest-run-error|"+proto, fmt.Sprintf("%s %s: honest run under schedule %s reported an error at %s: %s", proto, cfg, schedName, n.Name, n.Errs[0]), replay, strings.Join(net.Log, "\n"))
		}
		if c := n.Results(); c != 1 {
			if len(net.Pending) == 0 {
				r.Violate(fmt.Sprintf("results!=1|%s", proto), fmt.Sprintf("%s %s: with every sent message delivered (schedule %s) party %s produced %d results (round %d, waiting %v)", proto, cfg, schedName, n.Name, c, sched.RoundOf(n.Party), n.Party.WaitingFor()), replay, strings.Join(net.Log, "\n"))
			}
		}
	}
}

func emittedKey(n *sched.Node) string {
	e := append([]string{}, n.Emitted...)
	sort.Strings(e)
	return strings.Join(e, ",")
}

// compareAcrossSchedules: every party sends the same set of messages with the same routing.
func compareAcrossSchedules(r *vc.Run, proto, cfg string, base map[string]string, rc *runCtx, schedName string) {
	for _, n := range rc.net.Nodes() {
		k := emittedKey(n)
		if b, ok := base[n.Name]; ok {
			if b != k {
				r.Violate("emitted-set-differs|"+proto, fmt.Sprintf("%s %s: party %s emitted a different set of messages under schedule %s", proto, cfg, n.Name, schedName),
					fmt.Sprintf("run %s %s schedule=%s", proto, cfg, schedName), "baseline: "+b, "this run: "+k)
			}
		} else {
			base[n.Name] = k
		}
	}
}

// cached keys for signing / resharing configurations
var edKeyCache = map[string][]eddsakeygen.LocalPartySaveData{}
var ecKeyCache = map[string][]ecdsakeygen.LocalPartySaveData{}

func edKeys(n, t int, keys []*big.Int) ([]eddsakeygen.LocalPartySaveData, tss.SortedPartyIDs) {
	if keys == nil {
		keys = defaultKeys(n, 1)
	}
	id := fmt.Sprintf("%d-%d-%v", n, t, keys)
	pids := mkPIDs(keys)
	if ks, ok := edKeyCache[id]; ok {
		return ks, pids
	}
	rc := buildEdDSAKeygen(n, t, kgOpts{keys: keys, seed: "edkeys-" + id})
	rc.net.Rng = rand.New(rand.NewSource(1))
	rc.net.Run(sched.FIFO, 100000)
	out := make([]eddsakeygen.LocalPartySaveData, n)
	for i, nd := range rc.net.New {
		nd.Results()
		if len(rc.results[nd.Name]) != 1 {
			panic(fmt.Sprintf("eddsa keygen (%d,%d) did not finish at %s: %v", n, t, nd.Name, nd.Errs))
		}
		out[i] = *rc.results[nd.Name][0].(*eddsakeygen.LocalPartySaveData)
	}
	edKeyCache[id] = out
	return out, pids
}

func ecKeys(n, t int, keys []*big.Int) ([]ecdsakeygen.LocalPartySaveData, tss.SortedPartyIDs) {
	return ecKeysOn(nil, n, t, keys)
}

func ecKeysOn(ec elliptic.Curve, n, t int, keys []*big.Int) ([]ecdsakeygen.LocalPartySaveData, tss.SortedPartyIDs) {
	if keys == nil {
		keys = defaultKeys(n, 1)
	}
	id := fmt.Sprintf("%d-%d-%v", n, t, keys)
	if ec != nil {
		id = ec.Params().Name + "-" + id
	}
	pids := mkPIDs(keys)
	if ks, ok := ecKeyCache[id]; ok {
		return ks, pids
	}
	rc := buildECDSAKeygen(n, t, kgOpts{keys: keys, seed: "eckeys-" + id, ec: ec})
	rc.net.Rng = rand.New(rand.NewSource(1))
	rc.net.Run(sched.FIFO, 100000)
	out := make([]ecdsakeygen.LocalPartySaveData, n)
	for i, nd := range rc.net.New {
		nd.Results()
		if len(rc.results[nd.Name]) != 1 {
			panic(fmt.Sprintf("ecdsa keygen (%d,%d) did not finish at %s: %v", n, t, nd.Name, nd.Errs))
		}
		out[i] = *rc.results[nd.Name][0].(*ecdsakeygen.LocalPartySaveData)
	}
	ecKeyCache[id] = out
	return out, pids
}

type protoRun struct {
	proto string
	cfg   string
	build func() *runCtx
	check func(r *vc.Run, rc *runCtx, cfg, schedName string) // result oracle (C01-C04)
	nodes []string
	heavy bool
}

func protoRuns(r *vc.Run) []protoRun {
	var out []protoRun
	// EdDSA keygen
	for _, nt := range [][2]int{{2, 1}, {3, 1}, {3, 2}} {
		n, t := nt[0], nt[1]
		out = append(out, protoRun{proto: "eddsa_keygen", cfg: fmt.Sprintf("n=%d,t=%d", n, t),
			build: func() *runCtx { return buildEdDSAKeygen(n, t, kgOpts{seed: fmt.Sprintf("c07-%d", r.Seed)}) },
			check: checkEdDSAKeygenResult, nodes: []string{"N0", fmt.Sprintf("N%d", n-1)}})
	}
	// EdDSA signing
	for _, nt := range [][3]int{{2, 1, 2}, {3, 1, 2}, {3, 1, 3}} {
		n, t, s := nt[0], nt[1], nt[2]
		out = append(out, protoRun{proto: "eddsa_signing", cfg: fmt.Sprintf("n=%d,t=%d,signers=%d", n, t, s),
			build: func() *runCtx {
				ks, pids := edKeys(n, t, nil)
				return buildEdDSASign(ks[:s], subsetPIDs(pids, s), t, signOpts{msg: big.NewInt(424242), seed: fmt.Sprintf("c07-%d", r.Seed)})
			},
			check: checkEdDSASignResult, nodes: []string{"N0", fmt.Sprintf("N%d", s-1)}})
	}
	// EdDSA resharing
	for _, c := range [][4]int{{2, 1, 2, 1}, {3, 1, 3, 2}, {3, 2, 2, 1}} { // same size, threshold raised, committee shrinking
		n, t, nn, nt2 := c[0], c[1], c[2], c[3]
		out = append(out, protoRun{proto: "eddsa_resharing", cfg: fmt.Sprintf("old=(%d,%d) new=(%d,%d)", n, t, nn, nt2),
			build: func() *runCtx {
				ks, pids := edKeys(n, t, nil)
				return buildEdDSAReshare(ks[:t+1], subsetPIDs(pids, t+1), n, t, reshareOpts{newKeys: defaultKeys(nn, 100), newT: nt2, seed: fmt.Sprintf("c07-%d", r.Seed)})
			},
			check: checkEdDSAReshareResult, nodes: []string{"O0", "N0", fmt.Sprintf("N%d", nn-1)}})
	}
	// ECDSA (heavier)
	out = append(out, protoRun{proto: "ecdsa_signing", cfg: "fixtures n=5,t=2,signers=3", heavy: true,
		build: func() *runCtx {
			ks, pids := fixtures()
			return buildECDSASign(ks[:3], subsetPIDs(pids, 3), 2, signOpts{msg: big.NewInt(777), seed: fmt.Sprintf("c07-%d", r.Seed)})
		},
		check: checkECDSASignResult, nodes: []string{"N0", "N2"}})
	out = append(out, protoRun{proto: "ecdsa_keygen", cfg: "n=3,t=1", heavy: true,
		build: func() *runCtx { return buildECDSAKeygen(3, 1, kgOpts{seed: fmt.Sprintf("c07-%d", r.Seed)}) },
		check: checkECDSAKeygenResult, nodes: []string{"N0", "N2"}})
	out = append(out, protoRun{proto: "ecdsa_resharing", cfg: "old=fixtures(5,2)[0..2] new=(3,1)", heavy: true,
		build: func() *runCtx {
			ks, pids := fixtures()
			return buildECDSAReshare(ks[:3], subsetPIDs(pids, 3), 5, 2, reshareOpts{newKeys: defaultKeys(3, 1000), newT: 1, seed: fmt.Sprintf("c07-%d", r.Seed)})
		},
		check: checkECDSAReshareResult, nodes: []string{"O0", "N0", "N2"}})
	return out
}

// subsetPIDs re-sorts the first k ids so that their Index fields are 0..k-1.
func subsetPIDs(pids tss.SortedPartyIDs, k int) tss.SortedPartyIDs {
	us := make(tss.UnSortedPartyIDs, k)
	for i := 0; i < k; i++ {
		us[i] = tss.NewPartyID(pids[i].Id, pids[i].Moniker, pids[i].KeyInt())
	}
	return tss.SortPartyIDs(us)
}

func genC07(r *vc.Run) {
	r.Rule = "real parties driven by a deterministic single-threaded scheduler; schedules: FIFO, LIFO, future-first, duplicate-everything, starvation and late Start of chosen parties, seeded random linear extensions, and an exhaustive enumeration of all schedules of the smallest EdDSA configurations (capped); one case = the event list one party saw in one schedule, with round / WaitingFor / emissions / result count after every event; non-trivial = more than 2 events"
	for _, pr := range protoRuns(r) {
		nrand := r.Pick(6, 40)
		if pr.heavy {
			nrand = r.Pick(1, 8)
		}
		specs := strategies(r.Seed, pr.nodes, nrand)
		if pr.heavy && !r.Thorough() {
			if pr.proto == "ecdsa_signing" {
				specs = []schedSpec{specs[0], specs[1], specs[3], specs[5], specs[len(specs)-1]}
			} else {
				specs = []schedSpec{specs[0], specs[len(specs)-1]}
			}
		}
		t0 := time.Now()
		base := map[string]string{}
		for si, sp := range specs {
			rc := pr.build()
			runOne(rc, sp, r.Seed*1000+int64(si))
			engineCases(r, rc, pr.proto+"/"+strings.Split(sp.name, "-")[0])
			scheduleOracles(r, rc, pr.proto, pr.cfg, sp.name)
			compareAcrossSchedules(r, pr.proto, pr.cfg, base, rc, sp.name)
			if pr.check != nil {
				pr.check(r, rc, pr.cfg, sp.name)
			}
		}
		r.Note("%s %s: %d schedules in %.1fs", pr.proto, pr.cfg, len(specs), time.Since(t0).Seconds())
	}
	// exhaustive enumeration of schedules for the smallest configurations (DFS over choice sequences)
	limit := r.Pick(250, 4000)
	for _, pr := range protoRuns(r)[:8] {
		if !strings.Contains(pr.cfg, "n=2") && !strings.Contains(pr.cfg, "old=(2") {
			continue
		}
		count := 0
		base := map[string]string{}
		var choices []int
		for count < limit {
			rc := pr.build()
			sc := &sched.Script{Choices: choices}
			rc.net.Rng = rand.New(rand.NewSource(1))
			rc.net.Run(sc.Strategy(), 100000)
			count++
			engineCases(r, rc, pr.proto+"/exhaustive")
			scheduleOracles(r, rc, pr.proto, pr.cfg, fmt.Sprintf("script%v", choices))
			compareAcrossSchedules(r, pr.proto, pr.cfg, base, rc, fmt.Sprintf("script%v", choices))
			if pr.check != nil {
				pr.check(r, rc, pr.cfg, fmt.Sprintf("script%v", choices))
			}
			// next choice sequence in DFS order: increment the last position that can grow
			w := sc.Widths
			full := make([]int, len(w))
			copy(full, choices)
			k := len(w) - 1
			for k >= 0 && full[k]+1 >= w[k] {
				k--
			}
			if k < 0 {
				r.Note("%s %s: exhaustive enumeration complete after %d schedules", pr.proto, pr.cfg, count)
				break
			}
			choices = append(full[:k], full[k]+1)
		}
		if count >= limit {
			r.Note("%s %s: enumeration capped at %d schedules", pr.proto, pr.cfg, limit)
		}
	}
}
