package main

import (
	"bytes"
	"crypto/ecdsa"
	"crypto/ed25519"
	"crypto/elliptic"
	"fmt"
	"math/big"
	"math/rand"
	"strings"
	"time"

	"github.com/bnb-chain/tss-lib/v2/common"
	"github.com/bnb-chain/tss-lib/v2/crypto"
	ecdsakeygen "github.com/bnb-chain/tss-lib/v2/ecdsa/keygen"
	ecdsasign "github.com/bnb-chain/tss-lib/v2/ecdsa/signing"
	eddsakeygen "github.com/bnb-chain/tss-lib/v2/eddsa/keygen"
	"github.com/bnb-chain/tss-lib/v2/tss"
	"github.com/btcsuite/btcd/btcec/v2"
	btcecdsa "github.com/btcsuite/btcd/btcec/v2/ecdsa"

	"verif/harness/internal/sched"
	"verif/harness/internal/val"
	"verif/harness/internal/vc"
)

func init() {
	gens["C01"] = genC01
	// an application that uses another curve announces it to the library (needed for the JSON form of points)
	tss.RegisterCurve("P-256", elliptic.P256())
	gens["C02"] = genC02
	vc.OpTimeout["ecdsa_sign"] = 120 * time.Second
	vc.OpTimeout["eddsa_sign"] = 60 * time.Second
	vc.Register("ecdsa_sign", func(a []val.V) val.V {
		res, _ := runECDSASign(val.AsAtom(a[0]), intsToIdx(val.AsInts(a[1])), val.AsInts(a[2]), val.AsInts(a[3]), val.AsInt(a[4]), int(val.AsInt64(a[5])), optInt0(a[6]), sched.FIFO, 1)
		return res
	})
	vc.Register("eddsa_sign", func(a []val.V) val.V {
		res, _ := runEdDSASign(val.AsAtom(a[0]), intsToIdx(val.AsInts(a[1])), val.AsInts(a[2]), val.AsInt(a[3]), int(val.AsInt64(a[4])), sched.FIFO, 1)
		return res
	})
}

func intsToIdx(xs []*big.Int) []int {
	out := make([]int, len(xs))
	for i, x := range xs {
		out[i] = int(x.Int64())
	}
	return out
}
func optInt0(v val.V) *big.Int {
	if i, ok := v.(val.Int); ok && i.X != nil && i.X.Sign() != 0 {
		return i.X
	}
	return nil
}

// curveOfRef: a key reference "p256:..." names a key on NIST P-256 (a curve the application registers itself:
// the protocol code takes the curve from its parameters); every other reference is on secp256k1.
func curveOfRef(ref string) elliptic.Curve {
	if strings.HasPrefix(ref, "p256:") {
		return elliptic.P256()
	}
	return tss.S256()
}

// keyref: "fixture", "kg:<n>:<t>" or "p256:kg:<n>:<t>"
func ecKeysByRef(ref string) ([]ecdsakeygen.LocalPartySaveData, tss.SortedPartyIDs, int) {
	if strings.HasPrefix(ref, "p256:") {
		var n, t int
		fmt.Sscanf(ref, "p256:kg:%d:%d", &n, &t)
		k, p := ecKeysOn(elliptic.P256(), n, t, nil)
		return k, p, t
	}
	if ref == "fixture" {
		k, p := fixtures()
		return k, p, 2
	}
	var n, t int
	fmt.Sscanf(ref, "kg:%d:%d", &n, &t)
	k, p := ecKeys(n, t, nil)
	return k, p, t
}
func edKeysByRef(ref string) ([]eddsakeygen.LocalPartySaveData, tss.SortedPartyIDs, int) {
	var n, t int
	var base int64 = 1
	if strings.HasPrefix(ref, "kgb:") {
		fmt.Sscanf(ref, "kgb:%d:%d:%d", &n, &t, &base)
	} else {
		fmt.Sscanf(ref, "kg:%d:%d", &n, &t)
	}
	k, p := edKeys(n, t, defaultKeys(n, base))
	return k, p, t
}

func sigV(d *common.SignatureData) val.V {
	rec := int64(0)
	if len(d.SignatureRecovery) > 0 {
		rec = int64(d.SignatureRecovery[0])
	}
	return val.Ok(val.L(val.B(d.R), val.B(d.S), val.B(d.Signature), val.I64(rec), val.B(d.M)))
}

type signRun struct {
	rounds   *roundValues
	edRounds *edRoundValues
	sigs     []*common.SignatureData
	errs     []string
	emitted  int
	net      *sched.Net
}

func pickKeys(keys []ecdsakeygen.LocalPartySaveData, pids tss.SortedPartyIDs, idx []int) ([]ecdsakeygen.LocalPartySaveData, tss.SortedPartyIDs) {
	us := make(tss.UnSortedPartyIDs, len(idx))
	byKey := map[string]ecdsakeygen.LocalPartySaveData{}
	for i, j := range idx {
		us[i] = tss.NewPartyID(pids[j].Id, pids[j].Moniker, pids[j].KeyInt())
		byKey[pids[j].KeyInt().String()] = keys[j]
	}
	sp := tss.SortPartyIDs(us)
	ks := make([]ecdsakeygen.LocalPartySaveData, len(sp))
	for i, p := range sp {
		ks[i] = byKey[p.KeyInt().String()]
	}
	return ks, sp
}

func runECDSASign(ref string, signers []int, kis, gammas []*big.Int, m *big.Int, fullLen int, kdd *big.Int, st sched.Strategy, seed int64) (val.V, *signRun) {
	keys, pids, t := ecKeysByRef(ref)
	sk, sp := pickKeys(keys, pids, signers)
	first := make([][]*big.Int, len(sp))
	for i := range sp {
		first[i] = []*big.Int{kis[i], gammas[i]}
	}
	if kdd != nil {
		// every signer works on its own copy with the public key and BigXj shifted by delta*G, as the HD test does
		sk = cloneForKDD(sk, kdd)
	}
	rc := buildECDSASign(sk, sp, t, signOpts{msg: m, fullLen: fullLen, first: first, seed: fmt.Sprintf("c01-%d", seed), kdd: kdd, ec: curveOfRef(ref)})
	rc.net.Rng = rand.New(rand.NewSource(seed))
	rv := newRoundValues()
	rv.ec = curveOfRef(ref)
	rc.net.Tamper = rv.record
	rc.net.Run(st, 200000)
	sr := &signRun{net: rc.net, rounds: rv}
	for _, n := range rc.net.New {
		n.Results()
		for _, r := range rc.results[n.Name] {
			sr.sigs = append(sr.sigs, r.(*common.SignatureData))
		}
		sr.errs = append(sr.errs, n.Errs...)
		sr.emitted += len(n.Emitted)
	}
	if len(sr.sigs) == 0 {
		return val.Err, sr
	}
	return sigV(sr.sigs[0]), sr
}

func lagrangeSecret(q *big.Int, ids, shares []*big.Int) *big.Int {
	x := big.NewInt(0)
	for i := range ids {
		num, den := big.NewInt(1), big.NewInt(1)
		for j := range ids {
			if i == j {
				continue
			}
			num.Mul(num, ids[j]).Mod(num, q)
			d := new(big.Int).Sub(ids[j], ids[i])
			den.Mul(den, d).Mod(den, q)
		}
		w := new(big.Int).Mul(num, new(big.Int).ModInverse(den, q))
		x.Add(x, new(big.Int).Mul(shares[i], w)).Mod(x, q)
	}
	return x
}

// ecdsaOracles: the C01 predicates on one finished run, independent of the model.
func ecdsaOracles(r *vc.Run, sr *signRun, pub *ecdsa.PublicKey, m *big.Int, fullLen int, replay string, parentPub *ecdsa.PublicKey) {
	q := pub.Curve.Params().N
	onK1 := pub.Curve == tss.S256()
	if m.Cmp(q) >= 0 {
		if len(sr.sigs) > 0 || sr.emitted > 0 {
			r.Violate("digest-not-refused", fmt.Sprintf("a digest >= q was not refused before any message was sent (%d messages, %d signatures)", sr.emitted, len(sr.sigs)), replay)
		}
		return
	}
	if fullLen > 32 {
		return // the echoed message is longer than the digest: signing refuses (self-check)
	}
	if len(sr.sigs) != len(sr.net.New) {
		r.Violate("ecdsa-sign-incomplete", fmt.Sprintf("only %d of %d signers produced a signature: %v", len(sr.sigs), len(sr.net.New), sr.errs), replay)
		return
	}
	s0 := sr.sigs[0]
	for _, s := range sr.sigs[1:] {
		if !bytes.Equal(s.Signature, s0.Signature) || !bytes.Equal(s.SignatureRecovery, s0.SignatureRecovery) || !bytes.Equal(s.M, s0.M) {
			r.Violate("ecdsa-signers-differ", "two signers output different signatures", replay)
		}
	}
	rr, ss := new(big.Int).SetBytes(s0.R), new(big.Int).SetBytes(s0.S)
	if len(s0.R) != 32 || len(s0.S) != 32 || len(s0.Signature) != 64 || !bytes.Equal(s0.Signature, append(append([]byte{}, s0.R...), s0.S...)) {
		r.Violate("ecdsa-not-fixed-width", fmt.Sprintf("R/S/Signature are not fixed width R||S (%d,%d,%d bytes)", len(s0.R), len(s0.S), len(s0.Signature)), replay)
	}
	if ss.Cmp(new(big.Int).Rsh(q, 1)) > 0 {
		r.Violate("ecdsa-high-s", "S is in the upper half of the order", replay)
	}
	want := m.Bytes()
	if fullLen > 0 {
		want = make([]byte, fullLen)
		m.FillBytes(want)
	}
	if !bytes.Equal(s0.M, want) {
		r.Violate("ecdsa-echo", "the echoed message differs from the digest", replay)
	}
	digest := make([]byte, 32)
	m.FillBytes(digest)
	if !ecdsa.Verify(pub, digest, rr, ss) {
		r.Violate("ecdsa-invalid-signature", "crypto/ecdsa rejects the signature under the group public key", replay)
	}
	if !onK1 {
		// btcec knows secp256k1 only: on another curve the recovery byte is checked from its definition
		// (bit 0 = parity of R.y, bit 1 = R.x >= q) by recovering R and then the key: Q = r^-1 (s R - m G)
		if len(s0.SignatureRecovery) != 1 {
			r.Violate("ecdsa-recid-missing", "SignatureRecovery is not one byte", replay)
		} else if !recoversTo(pub, rr, ss, m, s0.SignatureRecovery[0]) {
			r.Violate("ecdsa-recovery-wrong", "the recovery byte does not recover the group public key", replay)
		}
		if parentPub != nil && ecdsa.Verify(parentPub, digest, rr, ss) {
			r.Violate("hd-verifies-under-parent", "a signature made with a derivation offset verifies under the parent key", replay)
		}
		return
	}
	var rS, sS btcec.ModNScalar
	rS.SetByteSlice(s0.R)
	sS.SetByteSlice(s0.S)
	var fx, fy btcec.FieldVal
	fx.SetByteSlice(pub.X.Bytes())
	fy.SetByteSlice(pub.Y.Bytes())
	if !btcecdsa.NewSignature(&rS, &sS).Verify(digest, btcec.NewPublicKey(&fx, &fy)) {
		r.Violate("ecdsa-invalid-signature-btcec", "btcec rejects the signature under the group public key", replay)
	}
	// recovery: compact signature = (27+recid) || R || S
	if len(s0.SignatureRecovery) != 1 {
		r.Violate("ecdsa-recid-missing", "SignatureRecovery is not one byte", replay)
	} else {
		compact := append([]byte{27 + s0.SignatureRecovery[0]}, s0.Signature...)
		rec, _, err := btcecdsa.RecoverCompact(compact, digest)
		if err != nil || rec.X().Cmp(pub.X) != 0 || rec.Y().Cmp(pub.Y) != 0 {
			r.Violate("ecdsa-recovery-wrong", "the recovery byte does not recover the group public key", replay)
		}
	}
	if parentPub != nil && ecdsa.Verify(parentPub, digest, rr, ss) {
		r.Violate("hd-verifies-under-parent", "a signature made with a derivation offset verifies under the parent key", replay)
	}
}

func toECDSAPub(k ecdsakeygen.LocalPartySaveData) *ecdsa.PublicKey {
	return &ecdsa.PublicKey{Curve: k.ECDSAPub.Curve(), X: k.ECDSAPub.X(), Y: k.ECDSAPub.Y()}
}

// recoversTo: public-key recovery on a short Weierstrass curve with a = -3 or 0 given by its parameters
// (y^2 = x^3 + a x + b, a read off the generator), without any library-specific helper.
func recoversTo(pub *ecdsa.PublicKey, r, s, m *big.Int, recid byte) bool {
	cp := pub.Curve.Params()
	p, q := cp.P, cp.N
	x := new(big.Int).Set(r)
	if recid&2 != 0 {
		x.Add(x, q)
	}
	if x.Cmp(p) >= 0 {
		return false
	}
	// a = (Gy^2 - Gx^3 - b) / Gx
	gy2 := new(big.Int).Mul(cp.Gy, cp.Gy)
	gx3 := new(big.Int).Exp(cp.Gx, big.NewInt(3), p)
	a := new(big.Int).Sub(gy2, gx3)
	a.Sub(a, cp.B).Mod(a, p)
	a.Mul(a, new(big.Int).ModInverse(cp.Gx, p)).Mod(a, p)
	y2 := new(big.Int).Exp(x, big.NewInt(3), p)
	y2.Add(y2, new(big.Int).Mul(a, x)).Add(y2, cp.B).Mod(y2, p)
	y := new(big.Int).ModSqrt(y2, p)
	if y == nil {
		return false
	}
	if y.Bit(0) != uint(recid&1) {
		y.Sub(p, y)
	}
	if !pub.Curve.IsOnCurve(x, y) {
		return false
	}
	rinv := new(big.Int).ModInverse(r, q)
	if rinv == nil {
		return false
	}
	u1 := new(big.Int).Mul(new(big.Int).Neg(m), rinv)
	u1.Mod(u1, q)
	u2 := new(big.Int).Mul(s, rinv)
	u2.Mod(u2, q)
	ax, ay := pub.Curve.ScalarBaseMult(u1.Bytes())
	bx, by := pub.Curve.ScalarMult(x, y, u2.Bytes())
	var qx, qy *big.Int
	if u1.Sign() == 0 {
		qx, qy = bx, by
	} else {
		qx, qy = pub.Curve.Add(ax, ay, bx, by)
	}
	return qx.Cmp(pub.X) == 0 && qy.Cmp(pub.Y) == 0
}

func cloneForKDD(keys []ecdsakeygen.LocalPartySaveData, delta *big.Int) []ecdsakeygen.LocalPartySaveData {
	// the documented flow: load the key data, shift the public data by delta*G, hand it to the parties
	work := reloadKeys(keys)
	gd := crypto.ScalarBaseMult(tss.S256(), new(big.Int).Mod(delta, tss.S256().Params().N))
	child, err := keys[0].ECDSAPub.Add(gd)
	if err != nil {
		panic(err)
	}
	if err := ecdsasign.UpdatePublicKeyAndAdjustBigXj(delta, work, &ecdsa.PublicKey{Curve: tss.S256(), X: child.X(), Y: child.Y()}, tss.S256()); err != nil {
		panic(err)
	}
	return work
}

func genC01(r *vc.Run) {
	r.Rule = "full ECDSA signing runs on the deterministic scheduler with the nonce shares k_i, gamma_i fixed through the reader, so that the Coq closed form (x = sum of Lagrange-weighted shares, R = k^-1 G, s = k(m + r x), low-S, recovery id, padding, echo) predicts the exact SignatureData: keys {vendored (5,2), generated (3,1),(3,2)..., generated on NIST P-256 (a curve the application registers) with raw S forced to (q-1)/2, (q-1)/2+1 and just above the half}, signer subsets of every size t+1..n, digests {0,1,q-1,q,q+1,2^256-1,leading zero bytes,random}, fullBytesLen {absent,32,33,64}; direct oracles: crypto/ecdsa and (on secp256k1) btcec verification, public-key recovery (btcec on secp256k1, from the definition of the recovery byte elsewhere), fixed width, low S, echo, equality across signers, refusal of digests >= q before any message; non-trivial = all runs"
	g := rng{r}
	type cfg struct {
		ref     string
		signers []int
	}
	// the last configuration is a key on P-256: the order, the low-S threshold and the byte widths all come from the
	// curve of the party's parameters, never from the library default
	cfgs := []cfg{{"fixture", []int{0, 1, 2}}, {"fixture", []int{4, 2, 0, 1}}, {"fixture", []int{0, 1, 2, 3, 4}}, {"kg:3:1", []int{0, 2}}, {"kg:3:1", []int{0, 1, 2}}, {"p256:kg:2:1", []int{0, 1}}}
	if r.Thorough() {
		cfgs = append(cfgs, cfg{"p256:kg:3:1", []int{0, 2}}, cfg{"p256:kg:3:2", []int{0, 1, 2}})
		cfgs = append(cfgs, cfg{"fixture", []int{1, 3, 4}}, cfg{"kg:2:1", []int{0, 1}}, cfg{"kg:3:2", []int{0, 1, 2}}, cfg{"kg:4:2", []int{0, 1, 3}}, cfg{"kg:4:2", []int{0, 1, 2, 3}}, cfg{"kg:5:3", []int{0, 1, 2, 4}}, cfg{"kg:5:4", []int{0, 1, 2, 3, 4}})
	}
	full := []int{0, 32, 0, 0, 32, 0, 32, 33, 64}
	nruns := 0
	for ci, c := range cfgs {
		ec := curveOfRef(c.ref)
		q := ec.Params().N
		digests := []*big.Int{big.NewInt(0), big.NewInt(1), add(q, -1), q, add(q, 1), add(pow2(256), -1), new(big.Int).Rsh(g.below(q), 17), g.below(q), g.below(q)}
		keys, pids, _ := ecKeysByRef(c.ref)
		// secret shares and ids of the signers in sorted-id order (what the model needs)
		sk, sp := pickKeys(keys, pids, c.signers)
		ids := make([]*big.Int, len(sp))
		xs := make([]*big.Int, len(sp))
		for i := range sp {
			ids[i] = sp[i].KeyInt()
			xs[i] = new(big.Int).Set(sk[i].Xi)
		}
		pub := toECDSAPub(sk[0])
		// (digest index, forced raw S): -1 = the default schedule of classes; 0, 1 = raw S exactly (q-1)/2, (q-1)/2+1;
		// 2 = raw S a little above the half (within 2^200 of it)
		type item struct{ di, force int }
		var items []item
		for di := range digests {
			items = append(items, item{di, -1})
		}
		if ec != tss.S256() {
			items = append(items, item{2, 0}, item{2, 1}, item{2, 2})
		}
		for _, it := range items {
			di, m := it.di, digests[it.di]
			if !r.Thorough() && it.force < 0 && (di+ci)%3 != 0 && m.Cmp(q) < 0 && di > 1 {
				continue
			}
			kis := make([]*big.Int, len(sp))
			gs := make([]*big.Int, len(sp))
			for i := range kis {
				kis[i] = add(g.below(add(q, -1)), 1)
				gs[i] = add(g.below(add(q, -1)), 1)
			}
			// boundary encodings: force R.x (di%3==1) or S (di%3==2) to have a leading zero byte
			class := "random-nonce"
			if m.Cmp(q) < 0 && full[di] <= 32 && (di%3 == 1 || di%3 == 2) {
				x := lagrangeSecret(q, ids, xs)
				for tries := 0; tries < 5000; tries++ {
					kt := add(g.below(add(q, -1)), 1)
					kinv := new(big.Int).ModInverse(kt, q)
					Rp := crypto.ScalarBaseMult(ec, kinv)
					if di%3 == 1 && Rp.X().BitLen() > 248 {
						continue
					}
					// distribute kt over the signers
					sum := big.NewInt(0)
					for i := 1; i < len(kis); i++ {
						sum.Add(sum, kis[i])
					}
					kis[0] = new(big.Int).Mod(new(big.Int).Sub(kt, sum), q)
					if kis[0].Sign() == 0 {
						continue
					}
					class = "short-R"
					if di%3 == 2 {
						// choose the digest so that s = k(m + r x) is a small number: m = s k^-1 - r x
						// (every other time: exactly at the low-S boundary, (q-1)/2 or (q-1)/2 + 1)
						st := g.below(pow2(240))
						if (ci+di)%2 == 1 && it.force < 0 {
							st = add(new(big.Int).Rsh(add(q, -1), 1), int64((ci+di)/2%2))
						}
						switch it.force {
						case 0, 1:
							st = add(new(big.Int).Rsh(add(q, -1), 1), int64(it.force))
						case 2:
							st = new(big.Int).Add(add(new(big.Int).Rsh(add(q, -1), 1), 2), g.below(pow2(200)))
						}
						mm := new(big.Int).Mul(st, kinv)
						mm.Sub(mm, new(big.Int).Mul(Rp.X(), x)).Mod(mm, q)
						m = mm
						class = "short-S"
						if st.BitLen() > 250 {
							class = "boundary-S"
						}
					}
					break
				}
			}
			sgn := make([]*big.Int, len(c.signers))
			for i, s := range c.signers {
				sgn[i] = big.NewInt(int64(s))
			}
			args := []val.V{val.A(c.ref), val.Ints(sgn), val.Ints(kis), val.Ints(gs), val.I(m), val.I64(int64(full[di])), val.I64(0), val.Ints(ids), val.Ints(xs), pointV(sk[0].ECDSAPub)}
			obs, sr := runECDSASign(c.ref, c.signers, kis, gs, m, full[di], nil, sched.FIFO, r.Seed+int64(nruns))
			nruns++
			r.Record(fmt.Sprintf("ecdsa_sign/%s/%d-signers/%s", c.ref, len(c.signers), class), true, "ecdsa_sign", args, obs)
			ecdsaOracles(r, sr, pub, m, full[di], vc.Line("ecdsa_sign", args), nil)
			if len(sr.sigs) > 0 {
				if sr.rounds != nil && full[di] <= 32 {
					roundOracles(r, sr.rounds, len(sp), kis, gs, m, lagrangeSecret(q, ids, xs), sr.sigs[0].R, sr.sigs[0].S, vc.Line("ecdsa_sign", args))
				}
				s := new(big.Int).SetBytes(sr.sigs[0].S)
				_ = s
				r.Dist[fmt.Sprintf("recid=%d", sr.sigs[0].SignatureRecovery[0])]++
			}
		}
	}
	c01SlowLinks(r, g)
}

// c01SlowLinks: one message of one signer is held back until nothing else can be delivered (a slow link, or a broadcast channel
// slower than the point-to-point one): the run must still complete with the predicted signature.
func c01SlowLinks(r *vc.Run, g rng) {
	q := tss.S256().Params().N
	types := typesOf("ecdsa_signing")
	keys, pids, _ := ecKeysByRef("fixture")
	signers := []int{0, 1, 2}
	sk, sp := pickKeys(keys, pids, signers)
	ids, xs := make([]*big.Int, len(sp)), make([]*big.Int, len(sp))
	for i := range sp {
		ids[i], xs[i] = sp[i].KeyInt(), new(big.Int).Set(sk[i].Xi)
	}
	held := []string{"SignRound1Message2", "SignRound1Message1", "SignRound3Message", "SignRound4Message", "SignRound6Message", "SignRound8Message"}
	if !r.Thorough() {
		held = held[:3]
	}
	for hi, tn := range held {
		ti := -1
		for i, t := range types {
			if t == tn {
				ti = i
			}
		}
		if ti < 0 {
			continue
		}
		for _, to := range []string{"N0", ""} {
			m := g.below(q)
			kis, gs := make([]*big.Int, len(sp)), make([]*big.Int, len(sp))
			for i := range kis {
				kis[i], gs[i] = add(g.below(add(q, -1)), 1), add(g.below(add(q, -1)), 1)
			}
			args := []val.V{val.A("fixture"), idxInts(signers), val.Ints(kis), val.Ints(gs), val.I(m), val.I64(0), val.I64(0), val.Ints(ids), val.Ints(xs), pointV(sk[0].ECDSAPub)}
			replay := fmt.Sprintf("%s with %s from N1 to %q held back until nothing else is deliverable", vc.Line("ecdsa_sign", args), tn, to)
			obs, sr := runECDSASign("fixture", signers, kis, gs, m, 0, nil, sched.HoldBack(ti, "N1", to), r.Seed+int64(1000+hi))
			r.Record("ecdsa_sign/slow-link/"+tn, true, "ecdsa_sign", args, obs)
			ecdsaOracles(r, sr, toECDSAPub(sk[0]), m, 0, replay, nil)
		}
	}
}

func checkECDSASignResult(r *vc.Run, rc *runCtx, cfg, schedName string) {
	keys, _ := fixtures()
	sr := &signRun{net: rc.net}
	for _, n := range rc.net.New {
		n.Results()
		for _, x := range rc.results[n.Name] {
			sr.sigs = append(sr.sigs, x.(*common.SignatureData))
		}
		sr.emitted += len(n.Emitted)
	}
	ecdsaOracles(r, sr, toECDSAPub(keys[0]), big.NewInt(777), 0, fmt.Sprintf("run ecdsa_signing %s schedule=%s", cfg, schedName), nil)
}

// ---------------- C02 ----------------
func runEdDSASign(ref string, signers []int, ris []*big.Int, m *big.Int, fullLen int, st sched.Strategy, seed int64) (val.V, *signRun) {
	keys, pids, t := edKeysByRef(ref)
	us := make(tss.UnSortedPartyIDs, len(signers))
	byKey := map[string]eddsakeygen.LocalPartySaveData{}
	for i, j := range signers {
		us[i] = tss.NewPartyID(pids[j].Id, pids[j].Moniker, pids[j].KeyInt())
		byKey[pids[j].KeyInt().String()] = keys[j]
	}
	sp := tss.SortPartyIDs(us)
	sk := make([]eddsakeygen.LocalPartySaveData, len(sp))
	first := make([][]*big.Int, len(sp))
	for i, p := range sp {
		sk[i] = byKey[p.KeyInt().String()]
		first[i] = []*big.Int{ris[i]}
	}
	rc := buildEdDSASign(sk, sp, t, signOpts{msg: m, fullLen: fullLen, first: first, seed: fmt.Sprintf("c02-%d", seed)})
	rc.net.Rng = rand.New(rand.NewSource(seed))
	erv := newEdRoundValues()
	rc.net.Tamper = erv.record
	rc.net.Run(st, 200000)
	sr := &signRun{net: rc.net, edRounds: erv}
	for _, n := range rc.net.New {
		n.Results()
		for _, r := range rc.results[n.Name] {
			sr.sigs = append(sr.sigs, r.(*common.SignatureData))
		}
		sr.errs = append(sr.errs, n.Errs...)
	}
	if len(sr.sigs) == 0 {
		return val.Err, sr
	}
	return sigV(sr.sigs[0]), sr
}

// edPub32 is the standard 32-byte encoding of an Edwards point (y little endian, sign of x in the top bit), written with math/big only.
func edPub32(x, y *big.Int) []byte {
	out := make([]byte, 32)
	yb := y.Bytes()
	for i := 0; i < len(yb) && i < 32; i++ {
		out[i] = yb[len(yb)-1-i]
	}
	if x.Bit(0) == 1 {
		out[31] |= 0x80
	}
	return out
}

func eddsaOracles(r *vc.Run, sr *signRun, pubX, pubY *big.Int, replay string) {
	if len(sr.sigs) != len(sr.net.New) {
		r.Violate("eddsa-sign-incomplete", fmt.Sprintf("only %d of %d signers produced a signature: %v", len(sr.sigs), len(sr.net.New), sr.errs), replay)
		return
	}
	s0 := sr.sigs[0]
	for _, s := range sr.sigs[1:] {
		if !bytes.Equal(s.Signature, s0.Signature) || !bytes.Equal(s.M, s0.M) {
			r.Violate("eddsa-signers-differ", "two signers output different signatures", replay)
		}
	}
	if len(s0.Signature) != 64 {
		r.Violate("eddsa-signature-length", fmt.Sprintf("the signature has %d bytes", len(s0.Signature)), replay)
		return
	}
	if !ed25519.Verify(ed25519.PublicKey(edPub32(pubX, pubY)), s0.M, s0.Signature) {
		r.Violate("eddsa-invalid-signature", "crypto/ed25519 rejects the signature over the echoed message under the group public key", replay)
	}
}

func genC02(r *vc.Run) {
	r.Rule = "full EdDSA signing runs with the nonce shares r_i fixed through the reader; the Coq closed form (R = sum r_i B, h = SHA-512(enc R || enc A || M) mod L, S = r + h x, standard encodings) predicts the exact 64-byte signature; (n,t) in {(2,1),(3,1),(3,2),(4,2),(5,2)...}, signer subsets of every size, party ids small and large, messages of 1..1000 bytes with and without leading zero bytes and fullBytesLen; direct oracle: crypto/ed25519.Verify over the echoed message bytes, equality across signers; non-trivial = all runs"
	g := rng{r}
	L := tss.Edwards().Params().N
	type cfg struct {
		ref     string
		signers []int
	}
	cfgs := []cfg{{"kg:2:1", []int{0, 1}}, {"kg:3:1", []int{0, 2}}, {"kg:3:1", []int{2, 1, 0}}, {"kg:3:2", []int{0, 1, 2}}, {"kg:5:2", []int{0, 2, 4}}, {"kg:5:2", []int{0, 1, 2, 3, 4}},
		{"kgb:3:1:1000000007", []int{0, 1}}}
	if r.Thorough() {
		cfgs = append(cfgs, cfg{"kg:4:2", []int{1, 2, 3}}, cfg{"kg:4:3", []int{0, 1, 2, 3}}, cfg{"kg:5:4", []int{0, 1, 2, 3, 4}}, cfg{"kg:5:2", []int{1, 3, 4, 0}})
	}
	type msgc struct {
		b    []byte
		full int
	}
	mk := func(n int) []byte { b := make([]byte, n); r.Rng.Read(b); b[0] |= 1; return b }
	msgs := []msgc{{[]byte{1}, 0}, {mk(31), 0}, {mk(32), 0}, {mk(32), 32}, {append([]byte{0, 0}, mk(30)...), 32}, {append([]byte{0}, mk(31)...), 0}, {mk(33), 0}, {mk(100), 0}, {mk(1000), 0}, {append([]byte{0}, mk(63)...), 64}, {make([]byte, 32), 32}}
	nruns := 0
	for ci, c := range cfgs {
		keys, pids, _ := edKeysByRef(c.ref)
		us := make(tss.UnSortedPartyIDs, len(c.signers))
		byKey := map[string]eddsakeygen.LocalPartySaveData{}
		for i, j := range c.signers {
			us[i] = tss.NewPartyID(pids[j].Id, pids[j].Moniker, pids[j].KeyInt())
			byKey[pids[j].KeyInt().String()] = keys[j]
		}
		sp := tss.SortPartyIDs(us)
		ids := make([]*big.Int, len(sp))
		xs := make([]*big.Int, len(sp))
		for i, p := range sp {
			ids[i] = p.KeyInt()
			xs[i] = byKey[p.KeyInt().String()].Xi
		}
		pub := keys[0].EDDSAPub
		for mi, mc := range msgs {
			if !r.Thorough() && (mi+ci)%2 != 0 && mi%4 != 1 {
				continue
			}
			m := new(big.Int).SetBytes(mc.b)
			ris := make([]*big.Int, len(sp))
			for i := range ris {
				ris[i] = add(g.below(add(L, -1)), 1)
			}
			// boundary encodings of the aggregated nonce point: r*B whose 32-byte encoding ends in 00 00
			// (r = 22647, 104859, 212976; found by search) - the stripped big-endian form loses two bytes
			cls := "random-nonce"
			if mi%4 == 1 {
				tot := big.NewInt([]int64{22647, 104859, 212976}[(mi/4+ci)%3])
				sum := big.NewInt(0)
				for i := 1; i < len(ris); i++ {
					sum.Add(sum, ris[i])
				}
				ris[0] = new(big.Int).Mod(new(big.Int).Sub(tot, sum), L)
				if ris[0].Sign() != 0 {
					cls = "R-trailing-zero-bytes"
				}
			}
			sgn := make([]*big.Int, len(c.signers))
			for i, s := range c.signers {
				sgn[i] = big.NewInt(int64(s))
			}
			args := []val.V{val.A(c.ref), val.Ints(sgn), val.Ints(ris), val.I(m), val.I64(int64(mc.full)), val.Ints(ids), val.Ints(xs), pointV(pub)}
			obs, sr := runEdDSASign(c.ref, c.signers, ris, m, mc.full, sched.FIFO, r.Seed+int64(nruns))
			nruns++
			r.Record(fmt.Sprintf("eddsa_sign/%s/%d-signers/len%d/%s", c.ref, len(c.signers), len(mc.b), cls), true, "eddsa_sign", args, obs)
			eddsaOracles(r, sr, pub.X(), pub.Y(), vc.Line("eddsa_sign", args))
			if len(sr.sigs) > 0 && sr.edRounds != nil {
				edRoundOracles(r, sr.edRounds, len(ris), ris, sr.sigs[0].Signature, vc.Line("eddsa_sign", args))
			}
		}
	}
}

func checkEdDSASignResult(r *vc.Run, rc *runCtx, cfg, schedName string) {
	var n, t, s int
	fmt.Sscanf(cfg, "n=%d,t=%d,signers=%d", &n, &t, &s)
	keys, _ := edKeys(n, t, nil)
	sr := &signRun{net: rc.net}
	for _, nd := range rc.net.New {
		nd.Results()
		for _, x := range rc.results[nd.Name] {
			sr.sigs = append(sr.sigs, x.(*common.SignatureData))
		}
	}
	eddsaOracles(r, sr, keys[0].EDDSAPub.X(), keys[0].EDDSAPub.Y(), fmt.Sprintf("run eddsa_signing %s schedule=%s", cfg, schedName))
}
