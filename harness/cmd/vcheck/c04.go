package main

import (
	"fmt"
	"math/big"
	"math/rand"
	"strings"
	"time"

	"github.com/bnb-chain/tss-lib/v2/crypto"
	ecdsakeygen "github.com/bnb-chain/tss-lib/v2/ecdsa/keygen"
	eddsakeygen "github.com/bnb-chain/tss-lib/v2/eddsa/keygen"
	"github.com/bnb-chain/tss-lib/v2/tss"

	"verif/harness/internal/sched"
	"verif/harness/internal/val"
	"verif/harness/internal/vc"
)

func init() {
	gens["C04"] = genC04
	vc.OpTimeout["reshare"] = 300 * time.Second
	// reshare curve [keyref oldIdx.. | newN newT noProofs] [old ks] [old xs] [[tails]..] [new ks]
	vc.Register("reshare", func(a []val.V) val.V {
		cfg := val.AsList(a[1])
		o, _ := runReshare(val.AsAtom(a[0]), val.AsAtom(cfg[0]), intsToIdx(val.AsInts(cfg[1])), int(val.AsInt64(cfg[2])), val.AsBool(cfg[3]), polysOf(a[4]), val.AsInts(a[5]), sched.FIFO, 1, nil)
		return o
	})
}

type reshareRun struct {
	rc        *runCtx
	oldXi     []*big.Int // the caller-held old shares (pointers handed to the old parties)
	oldXiOrig []*big.Int
	res       *kgResult
	viol      []string
	silent    string
}

// runReshare: old members = oldIdx of the key named by keyref; tails = dealing coefficients per old member (sorted order).
func runReshare(curve, keyref string, oldIdx []int, newT int, noProofs bool, tails [][]*big.Int, newKs []*big.Int, st sched.Strategy, seed int64, tweak func(*reshareRun)) (val.V, *reshareRun) {
	rr := &reshareRun{}
	o := reshareOpts{newKeys: newKs, newT: newT, seed: fmt.Sprintf("c04-%d", seed), coefs: tails, noProofs: noProofs}
	if curve == "p256" {
		o.ec = curveByName(curve)
	}
	if curve == "ed25519" {
		keys, pids, t := edKeysByRef(keyref)
		us := make(tss.UnSortedPartyIDs, len(oldIdx))
		byKey := map[string]eddsakeygen.LocalPartySaveData{}
		for i, j := range oldIdx {
			us[i] = tss.NewPartyID(pids[j].Id, pids[j].Moniker, pids[j].KeyInt())
			byKey[pids[j].KeyInt().String()] = keys[j]
		}
		sp := tss.SortPartyIDs(us)
		ok := make([]eddsakeygen.LocalPartySaveData, len(sp))
		for i, p := range sp {
			ok[i] = byKey[p.KeyInt().String()]
			ok[i].Xi = new(big.Int).Set(ok[i].Xi)
			rr.oldXi = append(rr.oldXi, ok[i].Xi)
			rr.oldXiOrig = append(rr.oldXiOrig, new(big.Int).Set(ok[i].Xi))
		}
		rr.rc = buildEdDSAReshareShared(ok, sp, len(keys), t, o)
	} else {
		keys, pids, t := ecKeysByRef(keyref)
		us := make(tss.UnSortedPartyIDs, len(oldIdx))
		byKey := map[string]ecdsakeygen.LocalPartySaveData{}
		for i, j := range oldIdx {
			us[i] = tss.NewPartyID(pids[j].Id, pids[j].Moniker, pids[j].KeyInt())
			byKey[pids[j].KeyInt().String()] = keys[j]
		}
		sp := tss.SortPartyIDs(us)
		ok := make([]ecdsakeygen.LocalPartySaveData, len(sp))
		for i, p := range sp {
			ok[i] = byKey[p.KeyInt().String()]
			ok[i].Xi = new(big.Int).Set(ok[i].Xi)
			rr.oldXi = append(rr.oldXi, ok[i].Xi)
			rr.oldXiOrig = append(rr.oldXiOrig, new(big.Int).Set(ok[i].Xi))
		}
		rr.rc = buildECDSAReshareShared(ok, sp, len(keys), t, o)
	}
	net := rr.rc.net
	net.Rng = rand.New(rand.NewSource(seed))
	if tweak != nil {
		tweak(rr)
	}
	// the erase-last invariant, evaluated after every single event (so for every prefix of this schedule)
	ackType := "DGRound4Message2"
	if curve == "ed25519" {
		ackType = "DGRound4Message"
	}
	ackIdx := -1
	for i, t := range net.Types {
		if t == ackType {
			ackIdx = i
		}
	}
	net.OnStep = func(_ *sched.Node) {
		allAcked := true
		for _, n := range net.New {
			acked := false
			for _, e := range n.Emitted {
				if strings.HasPrefix(e, fmt.Sprintf("[%d ", ackIdx)) {
					acked = true
				}
			}
			if !acked {
				allAcked = false
			}
		}
		if allAcked {
			return
		}
		for i, x := range rr.oldXi {
			if x.Cmp(rr.oldXiOrig[i]) != 0 {
				rr.viol = append(rr.viol, fmt.Sprintf("old member O%d's share was erased/changed before every new member had acknowledged", i))
			}
		}
		for _, n := range net.Nodes() {
			if n.Results() > 0 {
				rr.viol = append(rr.viol, fmt.Sprintf("%s emitted its result before every new member had acknowledged", n.Name))
			}
		}
	}
	net.Run(st, 300000)
	// collect the new committee's data
	res := &kgResult{n: len(net.New)}
	sub := &runCtx{net: &sched.Net{New: net.New}, results: rr.rc.results}
	obs, res := collectKeygen(sub, len(net.New))
	rr.res = res
	return obs, rr
}

// variants of the builders that take the caller-held key structs as they are (no extra cloning of Xi)
func buildEdDSAReshareShared(oldKeys []eddsakeygen.LocalPartySaveData, oldPIDs tss.SortedPartyIDs, keyN, oldT int, o reshareOpts) *runCtx {
	return buildEdDSAReshareOpt(oldKeys, oldPIDs, keyN, oldT, o, false)
}
func buildECDSAReshareShared(oldKeys []ecdsakeygen.LocalPartySaveData, oldPIDs tss.SortedPartyIDs, keyN, oldT int, o reshareOpts) *runCtx {
	return buildECDSAReshareOpt(oldKeys, oldPIDs, keyN, oldT, o, false)
}

func reshareOracles(r *vc.Run, rr *reshareRun, curve string, newT int, pubBefore [2]*big.Int, replay string, expectComplete bool) {
	for _, v := range rr.viol {
		r.Violate("reshare-erase-before-ack|"+curve, v, replay, strings.Join(rr.rc.net.Log, "\n"))
		break
	}
	if !expectComplete {
		return
	}
	keygenOracles(r, rr.res, curve, newT, replay)
	if len(rr.res.views) > 0 {
		if rr.res.views[0].Pub[0].Cmp(pubBefore[0]) != 0 || rr.res.views[0].Pub[1].Cmp(pubBefore[1]) != 0 {
			r.Violate("reshare-pub-changed|"+curve, "the group public key changed during resharing", replay)
		}
	}
	// old members that are not in the new committee end with their share erased
	if len(rr.res.xi) == rr.res.n {
		for i, x := range rr.oldXi {
			if x.Sign() != 0 {
				r.Violate("reshare-old-share-kept|"+curve, fmt.Sprintf("old member O%d still holds its share after a completed resharing", i), replay)
			}
		}
	}
}

func genC04(r *vc.Run) {
	r.Rule = "full resharing runs (EdDSA, and ECDSA on secp256k1 and on NIST P-256, with and without the new-member proofs) with the dealing coefficients fixed through the readers, so that the Coq closed form predicts every new x_j, X_j and the unchanged public key; old (n,t) keys with participating subsets of size t+1..n, new (n',t') with t' <, =, > t; the erase-last invariant (no old share erased and no result emitted before every new member has acknowledged) is evaluated after every single event of every run, i.e. for every cut point of the schedule; runs with one silent party (every position) must leave all old shares intact; chains of two resharings followed by a signature; non-trivial = all runs"
	g := rng{r}
	type cfg struct {
		curve    string
		keyref   string
		old      []int
		newN     int
		newT     int
		noProofs bool
		newIds   string // "" = small distinct ids; "congruent" = two ids equal modulo the order; "zero" = one id a multiple of the order
	}
	cfgs := []cfg{
		{"ed25519", "kg:3:1", []int{0, 1}, 3, 1, false, ""}, {"ed25519", "kg:3:1", []int{0, 1, 2}, 4, 2, false, ""}, {"ed25519", "kg:5:2", []int{0, 2, 4}, 3, 1, false, ""},
		{"ed25519", "kg:5:2", []int{0, 1, 2, 3}, 5, 3, false, ""}, {"ed25519", "kg:3:2", []int{0, 1, 2}, 2, 1, false, ""},
		{"secp256k1", "fixture", []int{0, 1, 2}, 3, 1, false, ""},
		// new committees whose ids are not usable as evaluation points: dealing must refuse, every old share stays
		{"ed25519", "kg:3:1", []int{0, 1}, 3, 2, false, "congruent"}, {"ed25519", "kg:3:1", []int{0, 2}, 3, 1, false, "zero"},
		// a key on a curve the application brings itself (NIST P-256), threshold raised
		{"p256", "p256:kg:2:1", []int{0, 1}, 3, 2, false, ""},
	}
	if r.Thorough() {
		cfgs = append(cfgs, cfg{"secp256k1", "fixture", []int{0, 1, 2, 3}, 4, 3, false, ""}, cfg{"secp256k1", "fixture", []int{1, 2, 4}, 3, 2, true, ""}, cfg{"secp256k1", "kg:3:1", []int{0, 2}, 3, 2, false, ""},
			cfg{"ed25519", "kg:4:2", []int{0, 1, 3}, 5, 2, false, ""}, cfg{"ed25519", "kg:5:4", []int{0, 1, 2, 3, 4}, 3, 2, false, ""},
			cfg{"p256", "p256:kg:3:1", []int{0, 2}, 2, 1, true, ""}, cfg{"secp256k1", "fixture", []int{0, 1, 2}, 3, 1, false, "congruent"})
	}
	for ci, c := range cfgs {
		q := curveByName(c.curve).Params().N
		var oldKs, oldXs []*big.Int
		var pub [2]*big.Int
		if c.curve == "ed25519" {
			keys, pids, _ := edKeysByRef(c.keyref)
			us := make(tss.UnSortedPartyIDs, len(c.old))
			byKey := map[string]*big.Int{}
			for i, j := range c.old {
				us[i] = tss.NewPartyID(pids[j].Id, pids[j].Moniker, pids[j].KeyInt())
				byKey[pids[j].KeyInt().String()] = keys[j].Xi
			}
			for _, p := range tss.SortPartyIDs(us) {
				oldKs = append(oldKs, p.KeyInt())
				oldXs = append(oldXs, new(big.Int).Set(byKey[p.KeyInt().String()]))
			}
			pub = ptPair(keys[0].EDDSAPub)
		} else {
			keys, pids, _ := ecKeysByRef(c.keyref)
			us := make(tss.UnSortedPartyIDs, len(c.old))
			byKey := map[string]*big.Int{}
			for i, j := range c.old {
				us[i] = tss.NewPartyID(pids[j].Id, pids[j].Moniker, pids[j].KeyInt())
				byKey[pids[j].KeyInt().String()] = keys[j].Xi
			}
			for _, p := range tss.SortPartyIDs(us) {
				oldKs = append(oldKs, p.KeyInt())
				oldXs = append(oldXs, new(big.Int).Set(byKey[p.KeyInt().String()]))
			}
			pub = ptPair(keys[0].ECDSAPub)
		}
		newKs := defaultKeys(c.newN, 1000+int64(ci)*10)
		switch c.newIds {
		case "congruent":
			newKs[c.newN-1] = new(big.Int).Add(newKs[0], q)
		case "zero":
			newKs[c.newN-1] = mul(q, big.NewInt(2))
		}
		tails := make([][]*big.Int, len(c.old))
		tl := make(val.List, len(c.old))
		for i := range tails {
			for k := 0; k < c.newT; k++ {
				tails[i] = append(tails[i], add(g.below(add(q, -1)), 1))
			}
			tl[i] = val.Ints(tails[i])
		}
		oi := make([]*big.Int, len(c.old))
		for i, j := range c.old {
			oi[i] = big.NewInt(int64(j))
		}
		args := []val.V{val.A(c.curve), val.L(val.A(c.keyref), val.Ints(oi), val.I64(int64(c.newT)), val.Bool(c.noProofs)), val.Ints(oldKs), val.Ints(oldXs), tl, val.Ints(newKs)}
		strat := sched.FIFO
		if ci%2 == 1 {
			strat = sched.Random
		}
		obs, rr := runReshare(c.curve, c.keyref, c.old, c.newT, c.noProofs, tails, newKs, strat, r.Seed+int64(ci), nil)
		r.Record(fmt.Sprintf("reshare/%s/old%d->(%d,%d)%s", c.curve, len(c.old), c.newN, c.newT, c.newIds), true, "reshare", args, obs)
		if c.newIds != "" {
			reshareOracles(r, rr, c.curve, c.newT, pub, vc.Line("reshare", args), false)
			if len(rr.res.xi) > 0 {
				r.Violate("reshare-accepts-bad-ids|"+c.newIds, "resharing produced new key data although a new id is 0 or two new ids coincide modulo the group order", vc.Line("reshare", args))
			}
			for i, x := range rr.oldXi {
				if x.Cmp(rr.oldXiOrig[i]) != 0 {
					r.Violate("reshare-key-lost|"+c.curve, fmt.Sprintf("a resharing to unusable new ids did not complete but old member O%d's share is gone", i), vc.Line("reshare", args))
				}
			}
			continue
		}
		reshareOracles(r, rr, c.curve, c.newT, pub, vc.Line("reshare", args), true)
		// the new committee signs under the old public key (t'+1 members)
		if c.curve == "ed25519" && len(rr.res.xi) == c.newN {
			signWithNewEdDSA(r, rr, c.newT, pub, vc.Line("reshare", args))
		}
		// one silent party, every position (EdDSA only in the quick tier: cheap)
		if c.curve == "ed25519" || r.Thorough() {
			names := []string{}
			for _, n := range rr.rc.net.Nodes() {
				names = append(names, n.Name)
			}
			for si, victim := range names {
				if !r.Thorough() && c.curve != "ed25519" {
					break
				}
				_, rs := runReshare(c.curve, c.keyref, c.old, c.newT, c.noProofs, tails, newKs, sched.Random, r.Seed+int64(1000+ci*50+si), func(x *reshareRun) {
					for _, n := range x.rc.net.Nodes() {
						if n.Name == victim {
							n.Silent = true
						}
					}
				})
				r.Dist["silent-party-run"]++
				reshareOracles(r, rs, c.curve, c.newT, pub, fmt.Sprintf("%s silent=%s", vc.Line("reshare", args), victim), false)
				// every old member's key data must still be intact unless all new members acknowledged
				// (covered by the per-event invariant); additionally: nobody lost the key: either the new committee
				// completed, or every old share is unchanged
				complete := len(rs.res.xi) == rs.res.n
				if !complete {
					for i, x := range rs.oldXi {
						if x.Cmp(rs.oldXiOrig[i]) != 0 {
							r.Violate("reshare-key-lost|"+c.curve, fmt.Sprintf("with %s silent the new committee did not complete but old member O%d's share is gone", victim, i), fmt.Sprintf("%s silent=%s", vc.Line("reshare", args), victim))
						}
					}
				}
			}
		}
	}
	// chain of two resharings, then a signature (EdDSA)
	chainEdDSA(r, g)
	// mirrored values in transit (a negated share, the announced public key with the other square root) must stop the run:
	// a check that compares x coordinates only accepts exactly these
	for _, fr := range faultRunners() {
		if fr.proto != "ecdsa_resharing" && fr.proto != "eddsa_resharing" {
			continue
		}
		pubY := "ecdsa_pub_y"
		if fr.proto == "eddsa_resharing" {
			pubY = "eddsa_pub_x" // on the Edwards curve the mirrored point has the other x
		}
		// the share is covered by the share check (somebody must object); the announced public key is the one of old member 0 (the
		// new members take the key from that member's message), so the mirrored key must either stop the run or not be saved
		for _, f := range []fault{{fr.proto, "O1", "DGRound3Message1", "share", 0, "negate"}, {fr.proto, "O0", "DGRound1Message", pubY, 0, "negate-p"}} {
			res := runFault(fr, f, r.Seed+23)
			r.Dist["mirrored-value/"+fr.proto]++
			r.CountCase(f.String(), res.Applied > 0, fmt.Sprintf("%s => finished=%v culprits=%v", f.String(), res.Finished, res.Culprits))
			newFinished := 0
			for _, n := range res.Finished {
				if strings.HasPrefix(n, "N") {
					newFinished++
				}
			}
			if res.BadOutput != "" {
				r.Violate("reshare-mirrored-value-accepted|"+fr.proto+"|"+f.Field, "resharing completed with inconsistent key data although a mirrored value was sent: "+res.BadOutput, f.String())
			} else if res.Applied > 0 && f.Field == "share" && len(res.Culprits) == 0 {
				r.Violate("reshare-mirrored-value-accepted|"+fr.proto+"|"+f.Field, "a negated share was sent and nobody objected", f.String())
			} else if res.Applied > 0 && f.Field != "share" && newFinished > 0 {
				r.Violate("reshare-mirrored-value-accepted|"+fr.proto+"|"+f.Field, "new members completed a resharing in which old member 0 announced the mirrored public key", f.String())
			}
		}
	}
}

func signWithNewEdDSA(r *vc.Run, rr *reshareRun, newT int, pub [2]*big.Int, replay string) {
	var keys []eddsakeygen.LocalPartySaveData
	var us tss.UnSortedPartyIDs
	for _, n := range rr.rc.net.New {
		for _, x := range rr.rc.results[n.Name] {
			keys = append(keys, *x.(*eddsakeygen.LocalPartySaveData))
			us = append(us, tss.NewPartyID(n.PID.Id, n.PID.Moniker, n.PID.KeyInt()))
		}
	}
	if len(keys) < newT+1 {
		return
	}
	sp := tss.SortPartyIDs(us[:newT+1])
	rc := buildEdDSASign(keys[:newT+1], sp, newT, signOpts{msg: big.NewInt(987654321), seed: "c04-sign"})
	rc.net.Rng = rand.New(rand.NewSource(7))
	rc.net.Run(sched.FIFO, 100000)
	sr := &signRun{net: rc.net}
	for _, n := range rc.net.New {
		n.Results()
		for _, x := range rc.results[n.Name] {
			sr.sigs = append(sr.sigs, x.(*commonSig))
		}
		sr.errs = append(sr.errs, n.Errs...)
	}
	r.Dist["sign-after-reshare"]++
	eddsaOracles(r, sr, pub[0], pub[1], replay+" then sign with t'+1 new members")
}

func chainEdDSA(r *vc.Run, g rng) {
	keys, pids, t := edKeysByRef("kg:3:1")
	pub := ptPair(keys[0].EDDSAPub)
	cur := []eddsakeygen.LocalPartySaveData{keys[0], keys[1]}
	curP := subsetPIDs(pids, 2)
	keyN, curT := 3, t
	for step, nt := range [][2]int{{3, 2}, {4, 1}, {2, 1}} {
		old := make([]eddsakeygen.LocalPartySaveData, len(cur))
		for i := range cur {
			old[i] = cur[i]
			old[i].Xi = new(big.Int).Set(cur[i].Xi)
		}
		rc := buildEdDSAReshareOpt(old, curP, keyN, curT, reshareOpts{newKeys: defaultKeys(nt[0], int64(5000+100*step)), newT: nt[1], seed: fmt.Sprintf("chain-%d", step)}, false)
		rc.net.Rng = rand.New(rand.NewSource(r.Seed + int64(step)))
		rc.net.Run(sched.Random, 200000)
		var next []eddsakeygen.LocalPartySaveData
		var us tss.UnSortedPartyIDs
		for _, n := range rc.net.New {
			n.Results()
			for _, x := range rc.results[n.Name] {
				next = append(next, *x.(*eddsakeygen.LocalPartySaveData))
				us = append(us, tss.NewPartyID(n.PID.Id, n.PID.Moniker, n.PID.KeyInt()))
			}
		}
		r.Dist["chain-step"]++
		if len(next) != nt[0] {
			r.Violate("reshare-chain-incomplete", fmt.Sprintf("resharing step %d of a chain did not complete", step), fmt.Sprintf("chain step %d", step))
			return
		}
		if p := ptPair(next[0].EDDSAPub); p[0].Cmp(pub[0]) != 0 || p[1].Cmp(pub[1]) != 0 {
			r.Violate("reshare-chain-pub-changed", fmt.Sprintf("the public key changed at step %d of a resharing chain", step), fmt.Sprintf("chain step %d", step))
		}
		// take t'+1 of the new members as the next old committee
		cur = next[:nt[1]+1]
		curP = tss.SortPartyIDs(us[:nt[1]+1])
		keyN, curT = nt[0], nt[1]
		// X_i consistency of the new data
		for i, k := range next {
			P := crypto.ScalarBaseMult(tss.Edwards(), k.Xi)
			if !P.Equals(k.BigXj[i]) {
				r.Violate("reshare-chain-share-mismatch", fmt.Sprintf("x_%d G != X_%d after step %d", i, i, step), fmt.Sprintf("chain step %d", step))
			}
		}
	}
	// sign with the last committee
	rc := buildEdDSASign(cur, curP, curT, signOpts{msg: big.NewInt(31337), seed: "chain-sign"})
	rc.net.Rng = rand.New(rand.NewSource(3))
	rc.net.Run(sched.FIFO, 100000)
	sr := &signRun{net: rc.net}
	for _, n := range rc.net.New {
		n.Results()
		for _, x := range rc.results[n.Name] {
			sr.sigs = append(sr.sigs, x.(*commonSig))
		}
	}
	eddsaOracles(r, sr, pub[0], pub[1], "chain of 3 resharings then sign")
}

func checkEdDSAReshareResult(r *vc.Run, rc *runCtx, cfg, schedName string) {
	sub := &runCtx{net: &sched.Net{New: rc.net.New}, results: rc.results}
	_, res := collectKeygen(sub, len(rc.net.New))
	var n, t, nn, nt int
	fmt.Sscanf(cfg, "old=(%d,%d) new=(%d,%d)", &n, &t, &nn, &nt)
	keygenOracles(r, res, "ed25519", nt, fmt.Sprintf("run eddsa_resharing %s schedule=%s", cfg, schedName))
}
func checkECDSAReshareResult(r *vc.Run, rc *runCtx, cfg, schedName string) {
	sub := &runCtx{net: &sched.Net{New: rc.net.New}, results: rc.results}
	_, res := collectKeygen(sub, len(rc.net.New))
	keygenOracles(r, res, "secp256k1", 1, fmt.Sprintf("run ecdsa_resharing %s schedule=%s", cfg, schedName))
}
