package main

import (
	"bytes"
	"fmt"
	"math/big"

	"github.com/bnb-chain/tss-lib/v2/common"
	cmt "github.com/bnb-chain/tss-lib/v2/crypto/commitments"

	"verif/harness/internal/val"
	"verif/harness/internal/vc"
)

func optInt(x *big.Int) val.V {
	if x == nil {
		return val.None
	}
	return val.Some(val.I(x))
}

func init() {
	vc.Register("sha512_256", func(a []val.V) val.V {
		d := common.SHA512_256(val.AsBytesList(a[0])...)
		if d == nil {
			return val.None
		}
		return val.Some(val.B(d))
	})
	vc.Register("sha512_256i", func(a []val.V) val.V { return optInt(common.SHA512_256i(val.AsInts(a[0])...)) })
	vc.Register("tagged", func(a []val.V) val.V {
		return optInt(common.SHA512_256i_TAGGED(val.AsBytes(a[0]), val.AsInts(a[1])...))
	})
	vc.Register("one", func(a []val.V) val.V { return val.I(common.SHA512_256iOne(val.AsInt(a[0]))) })
	vc.Register("commit", func(a []val.V) val.V {
		c := cmt.NewHashCommitmentWithRandomness(val.AsInt(a[0]), val.AsInts(a[1])...)
		return val.L(val.I(c.C), val.Ints(c.D))
	})
	vc.Register("cverify", func(a []val.V) val.V {
		c := cmt.HashCommitDecommit{C: val.AsInt(a[0]), D: val.AsInts(a[1])}
		return val.Ok(val.Bool(c.Verify()))
	})
	vc.Register("decommit", func(a []val.V) val.V {
		c := cmt.HashCommitDecommit{C: val.AsInt(a[0]), D: val.AsInts(a[1])}
		ok, d := c.DeCommit()
		if !ok {
			return val.Ok(val.None)
		}
		return val.Ok(val.Some(val.Ints(d)))
	})
	vc.Register("bsecrets", func(a []val.V) val.V {
		b := cmt.NewBuilder()
		for _, p := range val.AsList(a[0]) {
			b.AddPart(val.AsInts(p))
		}
		s, err := b.Secrets()
		if err != nil {
			return val.Err
		}
		return val.Ok(val.Ints(s))
	})
	// builder_rt [parts]: Secrets() then ParseSecrets(); the result is summarised (part lengths, equal to the input or not)
	vc.Register("builder_rt", func(a []val.V) val.V {
		b := cmt.NewBuilder()
		var in [][]*big.Int
		for _, p := range val.AsList(a[0]) {
			in = append(in, val.AsInts(p))
			b.AddPart(val.AsInts(p))
		}
		s, err := b.Secrets()
		if err != nil {
			return val.A("BuildErr")
		}
		ps, err := cmt.ParseSecrets(s)
		if err != nil {
			return val.A("ParseErr")
		}
		same := len(ps) == len(in)
		lens := make([]*big.Int, len(ps))
		for i, p := range ps {
			lens[i] = big.NewInt(int64(len(p)))
			if same && len(p) == len(in[i]) {
				for k := range p {
					if p[k].Cmp(in[i][k]) != 0 {
						same = false
						break
					}
				}
			} else {
				same = false
			}
		}
		return val.Ok(val.L(val.Ints(lens), val.Bool(same)))
	})
	vc.Register("bparse", func(a []val.V) val.V {
		ps, err := cmt.ParseSecrets(val.AsInts(a[0]))
		if err != nil {
			return val.Err
		}
		l := make(val.List, len(ps))
		for i, p := range ps {
			l[i] = val.Ints(p)
		}
		return val.Ok(l)
	})
	gens["C16"] = genC16
}

func allStrings(alpha []byte, maxLen int) [][]byte {
	out := [][]byte{{}}
	prev := [][]byte{{}}
	for l := 1; l <= maxLen; l++ {
		var cur [][]byte
		for _, p := range prev {
			for _, c := range alpha {
				s := append(append([]byte{}, p...), c)
				cur = append(cur, s)
			}
		}
		out = append(out, cur...)
		prev = cur
	}
	return out
}

func genC16(r *vc.Run) {
	r.Rule = "exhaustive tuples of <=3 byte strings over {00,01,24,08,ff} (quick: length<=2; thorough: length<=3 with sampling of the model side) for the three hash functions, random long tuples, every single edit / regrouping of decommitments, every builder layout within caps plus truncations and forged length prefixes; a case is non-trivial when it has >=2 elements or a non-empty element; distinct = distinct (op,args) line"
	alpha := []byte{0x00, 0x01, 0x24, 0x08, 0xff}
	maxLen := r.Pick(2, 3)
	strs := allStrings(alpha, maxLen)

	// --- 1. exhaustive digest maps: no two distinct inputs share a digest
	digests := map[string]string{}
	idigests := map[string]string{}
	checkDup := func(m map[string]string, kind string, obs val.V, line string) {
		k := obs.String()
		if prev, ok := m[k]; ok && prev != line {
			r.Violate("collision|"+kind, fmt.Sprintf("two different inputs to %s give the same digest", kind), prev, line)
		}
		m[k] = line
	}
	// tuples of size 1..3 ; model side sees all of them in quick, a stride in thorough
	stride := r.Pick(1, 23)
	count := 0
	var tuple func(depth int, cur [][]byte)
	emit := func(cur [][]byte) {
		count++
		args := []val.V{val.BytesList(cur)}
		nt := len(cur) >= 2 || len(cur[0]) > 0
		var obs val.V
		if count%stride == 0 {
			obs = r.Case("sha512_256/exhaustive", nt, "sha512_256", args...)
		} else {
			obs, _ = vc.Exec("sha512_256", args)
		}
		checkDup(digests, "SHA512_256", obs, vc.Line("sha512_256", args))
	}
	tuple = func(depth int, cur [][]byte) {
		if len(cur) > 0 {
			emit(cur)
		}
		if depth == 3 {
			return
		}
		for _, s := range strs {
			tuple(depth+1, append(append([][]byte{}, cur...), s))
		}
	}
	tuple(0, nil)

	// integers: distinct non-negative values of those strings
	seen := map[string]bool{}
	var ints []*big.Int
	for _, s := range strs {
		x := new(big.Int).SetBytes(s)
		if !seen[x.String()] {
			seen[x.String()] = true
			ints = append(ints, x)
		}
	}
	count = 0
	var ituple func(depth int, cur []*big.Int)
	ituple = func(depth int, cur []*big.Int) {
		if len(cur) > 0 {
			count++
			args := []val.V{val.Ints(cur)}
			var obs val.V
			if count%stride == 0 {
				obs = r.Case("sha512_256i/exhaustive", true, "sha512_256i", args...)
			} else {
				obs, _ = vc.Exec("sha512_256i", args)
			}
			checkDup(idigests, "SHA512_256i", obs, vc.Line("sha512_256i", args))
		}
		if depth == 3 {
			return
		}
		for _, x := range ints {
			ituple(depth+1, append(append([]*big.Int{}, cur...), x))
		}
	}
	ituple(0, nil)

	// tagged: tags x tuples of <=2 ints; digests must differ across tags and across tuples
	tdig := map[string]string{}
	tags := allStrings(alpha, 1)
	tags = append(tags, []byte("session"), []byte("sessio"), []byte{0x24, 0, 0, 0, 0, 0, 0, 0, 0})
	for _, tag := range tags {
		for _, x := range ints {
			args := []val.V{val.B(tag), val.Ints([]*big.Int{x})}
			obs := r.Case("tagged/exhaustive", true, "tagged", args...)
			checkDup(tdig, "SHA512_256i_TAGGED", obs, vc.Line("tagged", args))
			for _, y := range ints[:6] {
				args := []val.V{val.B(tag), val.Ints([]*big.Int{x, y})}
				obs := r.Case("tagged/exhaustive", true, "tagged", args...)
				checkDup(tdig, "SHA512_256i_TAGGED", obs, vc.Line("tagged", args))
			}
		}
	}
	// tagged and untagged must not collide on the same ints either
	for _, x := range ints {
		a := []val.V{val.Ints([]*big.Int{x})}
		o, _ := vc.Exec("sha512_256i", a)
		checkDup(tdig, "SHA512_256i_TAGGED/untagged", o, vc.Line("sha512_256i", a))
	}
	// empty input / one
	r.Case("empty", false, "sha512_256", val.L())
	r.Case("empty", false, "sha512_256i", val.L())
	r.Case("empty", false, "tagged", val.B([]byte("t")), val.L())
	for _, x := range ints[:8] {
		r.Case("one", true, "one", val.I(x))
	}

	// --- 2. random long tuples
	nrand := r.Pick(200, 3000)
	for i := 0; i < nrand; i++ {
		n := 1 + r.Rng.Intn(12)
		bs := make([][]byte, n)
		xs := make([]*big.Int, n)
		for j := range bs {
			l := r.Rng.Intn(70)
			if r.Rng.Intn(10) == 0 {
				l = 200 + r.Rng.Intn(400)
			}
			bs[j] = make([]byte, l)
			r.Rng.Read(bs[j])
			if r.Rng.Intn(4) == 0 && l > 0 {
				bs[j][0] = 0
			}
			xs[j] = new(big.Int).SetBytes(bs[j])
		}
		r.Case("sha512_256/random", true, "sha512_256", val.BytesList(bs))
		r.Case("sha512_256i/random", true, "sha512_256i", val.Ints(xs))
		tag := make([]byte, r.Rng.Intn(40))
		r.Rng.Read(tag)
		r.Case("tagged/random", true, "tagged", val.B(tag), val.Ints(xs))
	}

	// --- 3. commitments: open only with exactly the committed sequence
	ncom := r.Pick(60, 600)
	for i := 0; i < ncom; i++ {
		n := 1 + r.Rng.Intn(6)
		secrets := make([]*big.Int, n)
		for j := range secrets {
			b := make([]byte, 1+r.Rng.Intn(33))
			r.Rng.Read(b)
			if r.Rng.Intn(5) == 0 {
				b = []byte{byte(r.Rng.Intn(3))}
			}
			secrets[j] = new(big.Int).SetBytes(b)
		}
		rb := make([]byte, 32)
		r.Rng.Read(rb)
		rr := new(big.Int).SetBytes(rb)
		obs := r.Case("commit", true, "commit", val.I(rr), val.Ints(secrets))
		ol := val.AsList(obs)
		C, D := val.AsInt(ol[0]), val.AsInts(ol[1])
		if o := r.Case("decommit/honest", true, "decommit", val.I(C), val.Ints(D)); o.String() != val.Ok(val.Some(val.Ints(secrets))).String() {
			r.Violate("commit|honest-open-fails", "an honest commitment does not open to the committed sequence", vc.Line("decommit", []val.V{val.I(C), val.Ints(D)}))
		}
		// single edits
		edits := map[string][]*big.Int{}
		for j := range D {
			e := cloneInts(D)
			e[j] = new(big.Int).Add(e[j], big.NewInt(1))
			edits[fmt.Sprintf("inc%d", j)] = e
			rm := append(cloneInts(D[:j]), cloneInts(D[j+1:])...)
			if len(rm) > 0 {
				edits[fmt.Sprintf("rm%d", j)] = rm
			}
			ins := append(append(cloneInts(D[:j]), big.NewInt(0)), cloneInts(D[j:])...)
			edits[fmt.Sprintf("ins0@%d", j)] = ins
			// regroup: split element j's bytes in two, merge j and j+1
			bz := D[j].Bytes()
			if len(bz) >= 2 {
				sp := append(append(cloneInts(D[:j]), new(big.Int).SetBytes(bz[:1]), new(big.Int).SetBytes(bz[1:])), cloneInts(D[j+1:])...)
				edits[fmt.Sprintf("split%d", j)] = sp
			}
			if j+1 < len(D) {
				m := append(append(cloneInts(D[:j]), new(big.Int).SetBytes(append(D[j].Bytes(), D[j+1].Bytes()...))), cloneInts(D[j+2:])...)
				edits[fmt.Sprintf("merge%d", j)] = m
				sw := cloneInts(D)
				sw[j], sw[j+1] = sw[j+1], sw[j]
				if sw[j].Cmp(sw[j+1]) != 0 {
					edits[fmt.Sprintf("swap%d", j)] = sw
				}
			}
		}
		edits["append0"] = append(cloneInts(D), big.NewInt(0))
		for name, e := range edits {
			kind := name[:2]
			o := r.Case("cverify/edit-"+kind, true, "cverify", val.I(C), val.Ints(e))
			if o.String() == val.Ok(val.Bool(true)).String() {
				r.Violate("commit|edited-opening-accepted|"+kind, "an edited decommitment ("+name+") still opens the commitment",
					vc.Line("cverify", []val.V{val.I(C), val.Ints(e)}))
			}
		}
		// a different commitment value
		r.Case("cverify/wrongC", true, "cverify", val.I(new(big.Int).Add(C, big.NewInt(1))), val.Ints(D))
	}

	// --- 4. builder: layouts, truncations, forged prefixes
	mk := func(n int) []*big.Int {
		p := make([]*big.Int, n)
		for i := range p {
			p[i] = big.NewInt(int64(r.Rng.Intn(1000)))
		}
		return p
	}
	maxPart := r.Pick(4, 7)
	var layouts [][][]*big.Int
	for a := 0; a <= maxPart; a++ {
		layouts = append(layouts, [][]*big.Int{mk(a)})
		for b := 0; b <= maxPart; b++ {
			layouts = append(layouts, [][]*big.Int{mk(a), mk(b)})
			for c := 0; c <= maxPart; c++ {
				layouts = append(layouts, [][]*big.Int{mk(a), mk(b), mk(c)})
			}
		}
	}
	layouts = append(layouts, [][]*big.Int{mk(1), mk(1), mk(1), mk(1)}, [][]*big.Int{}, [][]*big.Int{mk(300)})
	for _, ps := range layouts {
		pl := make(val.List, len(ps))
		for i, p := range ps {
			pl[i] = val.Ints(p)
		}
		obs := r.Case("bsecrets", len(ps) > 0, "bsecrets", pl)
		if ol, ok := obs.(val.List); ok && len(ol) == 2 {
			sec := val.AsInts(ol[1])
			back := r.Case("bparse/roundtrip", true, "bparse", val.Ints(sec))
			if len(sec) >= 2 && back.String() != val.Ok(pl).String() {
				r.Violate("builder|roundtrip", "ParseSecrets(Secrets(parts)) differs from parts", vc.Line("bparse", []val.V{val.Ints(sec)}))
			}
			// truncations
			for k := 0; k < len(sec) && k < 12; k++ {
				o := r.Case("bparse/truncated", true, "bparse", val.Ints(sec[:k]))
				noCrash(r, "ParseSecrets", "truncated", o, vc.Line("bparse", []val.V{val.Ints(sec[:k])}))
			}
		}
	}
	two := big.NewInt(2)
	forged := []*big.Int{
		big.NewInt(0), big.NewInt(1), big.NewInt(2), big.NewInt(3), big.NewInt(1 << 20), big.NewInt(1<<20 + 1),
		new(big.Int).Sub(new(big.Int).Exp(two, big.NewInt(63), nil), big.NewInt(1)),
		new(big.Int).Exp(two, big.NewInt(63), nil),
		new(big.Int).Add(new(big.Int).Exp(two, big.NewInt(63), nil), big.NewInt(5)),
		new(big.Int).Sub(new(big.Int).Exp(two, big.NewInt(64), nil), big.NewInt(1)),
		new(big.Int).Sub(new(big.Int).Exp(two, big.NewInt(64), nil), big.NewInt(2)),
		new(big.Int).Exp(two, big.NewInt(64), nil),
		new(big.Int).Add(new(big.Int).Exp(two, big.NewInt(64), nil), big.NewInt(1)),
		new(big.Int).Add(new(big.Int).Exp(two, big.NewInt(65), nil), big.NewInt(2)),
		new(big.Int).Exp(two, big.NewInt(200), nil),
		big.NewInt(-1), big.NewInt(-2),
	}
	// the size limit itself: one part of exactly MaxPartSize - 1, MaxPartSize, MaxPartSize + 1 elements, built and parsed back
	// (the builder and the parser must agree at the boundary)
	for _, n := range []int{1<<20 - 1, 1 << 20, 1<<20 + 1} {
		part := make([]*big.Int, n)
		for i := range part {
			part[i] = big.NewInt(int64(i%7 + 1))
		}
		for _, layout := range [][]val.V{{val.Ints(part)}, {val.Ints([]*big.Int{big.NewInt(9)}), val.Ints(part)}} {
			r.Case("builder/size-limit", true, "builder_rt", val.List(layout))
		}
	}
	for _, f := range forged {
		for tail := 0; tail <= 4; tail++ {
			for pos := 0; pos <= 2 && pos <= tail; pos++ {
				// a valid first part of size pos, then the forged length, then tail-pos elements
				s := []*big.Int{big.NewInt(int64(pos))}
				s = append(s, mk(pos)...)
				s = append(s, f)
				s = append(s, mk(tail-pos)...)
				o := r.Case("bparse/forged", true, "bparse", val.Ints(s))
				noCrash(r, "ParseSecrets", "forged-length", o, vc.Line("bparse", []val.V{val.Ints(s)}))
			}
		}
	}
	_ = bytes.Equal
}

func cloneInts(xs []*big.Int) []*big.Int {
	out := make([]*big.Int, len(xs))
	for i, x := range xs {
		out[i] = new(big.Int).Set(x)
	}
	return out
}

// noCrash is the direct oracle "the call returned": Panic / Diverge observations are violations.
func noCrash(r *vc.Run, site, class string, obs val.V, line string) {
	s := obs.String()
	if s == "Panic" || s == "Diverge" {
		r.Violate("crash|"+site+"|"+class, site+" "+s+" on "+class+" input", line)
	}
}
