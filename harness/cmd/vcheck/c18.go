package main

import (
	"bytes"
	"crypto/ecdsa"
	"crypto/hmac"
	"crypto/sha256"
	"crypto/sha512"
	"encoding/binary"
	"encoding/hex"
	"fmt"
	"math/big"
	"strings"

	"github.com/bnb-chain/tss-lib/v2/crypto/ckd"
	ecdsakeygen "github.com/bnb-chain/tss-lib/v2/ecdsa/keygen"
	ecdsasign "github.com/bnb-chain/tss-lib/v2/ecdsa/signing"
	"github.com/bnb-chain/tss-lib/v2/tss"
	"github.com/btcsuite/btcd/btcec/v2"
	"golang.org/x/crypto/ripemd160"

	"verif/harness/internal/sched"
	"verif/harness/internal/val"
	"verif/harness/internal/vc"
)

func init() {
	gens["C18"] = genC18
	vc.Register("ckd_derive", func(a []val.V) val.V {
		il, ck, err := ckd.DeriveChildKey(uint32(val.AsInt64(a[1])), xkeyOf(a[0]), tss.S256())
		if err != nil {
			return val.Err
		}
		return val.Ok(val.L(val.I(il), xkeyV(ck)))
	})
	vc.Register("ckd_path", func(a []val.V) val.V {
		var path []uint32
		for _, i := range val.AsInts(a[1]) {
			path = append(path, uint32(i.Int64()))
		}
		d, ck, err := ckd.DeriveChildKeyFromHierarchy(path, xkeyOf(a[0]), tss.S256().Params().N, tss.S256())
		if err != nil {
			return val.Err
		}
		return val.Ok(val.L(val.I(d), xkeyV(ck)))
	})
	vc.Register("ckd_string", func(a []val.V) val.V { return val.B([]byte(xkeyOf(a[0]).String())) })
}

func xkeyOf(v val.V) *ckd.ExtendedKey {
	l := val.AsList(v)
	return &ckd.ExtendedKey{PublicKey: ecdsa.PublicKey{Curve: tss.S256(), X: val.AsInt(l[0]), Y: val.AsInt(l[1])},
		Depth: uint8(val.AsInt64(l[2])), ChildIndex: uint32(val.AsInt64(l[3])), ChainCode: val.AsBytes(l[4]), ParentFP: val.AsBytes(l[5]), Version: val.AsBytes(l[6])}
}
func xkeyV(k *ckd.ExtendedKey) val.V {
	return val.L(val.I(k.X), val.I(k.Y), val.I64(int64(k.Depth)), val.I64(int64(k.ChildIndex)), val.B(k.ChainCode), val.B(k.ParentFP), val.B(k.Version))
}

// refCKDpub: BIP32 public parent key -> public child key, written from the BIP text on the standard library and btcec.
func refCKDpub(parent *btcec.PublicKey, cc []byte, idx uint32) (il *big.Int, child *btcec.PublicKey, childCC []byte, fp []byte, ok bool) {
	if idx >= 0x80000000 {
		return nil, nil, nil, nil, false
	}
	ser := parent.SerializeCompressed()
	data := make([]byte, 37)
	copy(data, ser)
	binary.BigEndian.PutUint32(data[33:], idx)
	m := hmac.New(sha512.New, cc)
	m.Write(data)
	I := m.Sum(nil)
	il = new(big.Int).SetBytes(I[:32])
	if il.Cmp(btcec.S256().N) >= 0 || il.Sign() == 0 {
		return nil, nil, nil, nil, false
	}
	var ilS btcec.ModNScalar
	ilS.SetByteSlice(I[:32])
	var ilG, pj, sum btcec.JacobianPoint
	btcec.ScalarBaseMultNonConst(&ilS, &ilG)
	parent.AsJacobian(&pj)
	btcec.AddNonConst(&ilG, &pj, &sum)
	if sum.Z.IsZero() {
		return nil, nil, nil, nil, false
	}
	sum.ToAffine()
	child = btcec.NewPublicKey(&sum.X, &sum.Y)
	h := sha256.Sum256(ser)
	rm := ripemd160.New()
	rm.Write(h[:])
	return il, child, I[32:], rm.Sum(nil)[:4], true
}

// published BIP32 test vectors: (parent xpub, index, child xpub) for the non-hardened steps
var bip32Vectors = [][3]string{
	// vector 1: m/0H -> m/0H/1 ; m/0H/1/2H -> m/0H/1/2H/2 ; m/0H/1/2H/2 -> m/0H/1/2H/2/1000000000
	{"xpub68Gmy5EdvgibQVfPdqkBBCHxA5htiqg55crXYuXoQRKfDBFA1WEjWgP6LHhwBZeNK1VTsfTFUHCdrfp1bgwQ9xv5ski8PX9rL2dZXvgGDnw", "1", "xpub6ASuArnXKPbfEwhqN6e3mwBcDTgzisQN1wXN9BJcM47sSikHjJf3UFHKkNAWbWMiGj7Wf5uMash7SyYq527Hqck2AxYysAA7xmALppuCkwQ"},
	{"xpub6D4BDPcP2GT577Vvch3R8wDkScZWzQzMMUm3PWbmWvVJrZwQY4VUNgqFJPMM3No2dFDFGTsxxpG5uJh7n7epu4trkrX7x7DogT5Uv6fcLW5", "2", "xpub6FHa3pjLCk84BayeJxFW2SP4XRrFd1JYnxeLeU8EqN3vDfZmbqBqaGJAyiLjTAwm6ZLRQUMv1ZACTj37sR62cfN7fe5JnJ7dh8zL4fiyLHV"},
	{"xpub6FHa3pjLCk84BayeJxFW2SP4XRrFd1JYnxeLeU8EqN3vDfZmbqBqaGJAyiLjTAwm6ZLRQUMv1ZACTj37sR62cfN7fe5JnJ7dh8zL4fiyLHV", "1000000000", "xpub6H1LXWLaKsWFhvm6RVpEL9P4KfRZSW7abD2ttkWP3SSQvnyA8FSVqNTEcYFgJS2UaFcxupHiYkro49S8yGasTvXEYBVPamhGW6cFJodrTHy"},
	// vector 2: m -> m/0 ; m/0/2147483647H -> m/0/2147483647H/1 ; m/0/2147483647H/1/2147483646H -> .../2
	{"xpub661MyMwAqRbcFW31YEwpkMuc5THy2PSt5bDMsktWQcFF8syAmRUapSCGu8ED9W6oDMSgv6Zz8idoc4a6mr8BDzTJY47LJhkJ8UB7WEGuduB", "0", "xpub69H7F5d8KSRgmmdJg2KhpAK8SR3DjMwAdkxj3ZuxV27CprR9LgpeyGmXUbC6wb7ERfvrnKZjXoUmmDznezpbZb7ap6r1D3tgFxHmwMkQTPH"},
	{"xpub6ASAVgeehLbnwdqV6UKMHVzgqAG8Gr6riv3Fxxpj8ksbH9ebxaEyBLZ85ySDhKiLDBrQSARLq1uNRts8RuJiHjaDMBU4Zn9h8LZNnBC5y4a", "1", "xpub6DF8uhdarytz3FWdA8TvFSvvAh8dP3283MY7p2V4SeE2wyWmG5mg5EwVvmdMVCQcoNJxGoWaU9DCWh89LojfZ537wTfunKau47EL2dhHKon"},
	{"xpub6ERApfZwUNrhLCkDtcHTcxd75RbzS1ed54G1LkBUHQVHQKqhMkhgbmJbZRkrgZw4koxb5JaHWkY4ALHY2grBGRjaDMzQLcgJvLJuZZvRcEL", "2", "xpub6FnCn6nSzZAw5Tw7cgR9bi15UV96gLZhjDstkXXxvCLsUXBGXPdSnLFbdpq8p9HmGsApME5hQTZ3emM2rnY5agb9rXpVGyy3bdW6EEgAtqt"},
}

func genC18(r *vc.Run) {
	r.Rule = "BIP32 public derivation: the library against the Coq model (HMAC/hash160/base58 as oracles) and against two independent oracles: the published BIP32 test vectors (every non-hardened step, xpub strings included) and a from-the-text CKDpub written on the standard library and btcec; parents {vector keys, k*G incl. X with a leading zero byte, random}, paths of length 0..5 with indices {0,1,2^31-1,2^31 (refused)}, depth 255 (refused); derive-then-sign sequences through NewLocalPartyWithKDD with signature checked under the child key and NOT under the parent key, stored shares unchanged; non-trivial = all cases"
	g := rng{r}
	q := tss.S256().Params().N
	ver, _ := hex.DecodeString("0488b21e")
	// 1. published vectors
	for i, v := range bip32Vectors {
		pk, err := ckd.NewExtendedKeyFromString(v[0], tss.S256())
		if err != nil {
			r.Violate("bip32-vector-parse", "a published BIP32 xpub does not parse: "+err.Error(), v[0])
			continue
		}
		if pk.String() != v[0] {
			r.Violate("bip32-string-roundtrip", "parsing and re-serialising a published xpub changes it", v[0])
		}
		var idx int64
		fmt.Sscanf(v[1], "%d", &idx)
		args := []val.V{xkeyV(pk), val.I64(idx)}
		o := r.Case("ckd_derive/bip32-vector", true, "ckd_derive", args...)
		ol, ok := o.(val.List)
		if !ok || len(ol) != 2 {
			r.Violate("bip32-vector-derive", fmt.Sprintf("derivation of published vector step %d failed", i), vc.Line("ckd_derive", args))
			continue
		}
		child := xkeyOf(val.AsList(ol[1])[1])
		if child.String() != v[2] {
			r.Violate("bip32-vector-mismatch", fmt.Sprintf("the derived child of published vector step %d is %s, expected %s", i, child.String(), v[2]), vc.Line("ckd_derive", args))
		}
		r.Case("ckd_string/bip32-vector", true, "ckd_string", xkeyV(child))
	}
	// 2. parents k*G (incl. leading-zero X), random chain codes, indices, against the from-the-text reference
	var parents []*btcec.PublicKey
	ks := []*big.Int{big.NewInt(1), big.NewInt(2), add(q, -1), g.below(q), g.below(q)}
	for k := int64(3); len(parents) < 2 && k < 5000; k++ { // X with a leading zero byte
		x, y := tss.S256().ScalarBaseMult(big.NewInt(k).Bytes())
		if x.BitLen() <= 248 {
			var fx, fy btcec.FieldVal
			fx.SetByteSlice(x.Bytes())
			fy.SetByteSlice(y.Bytes())
			parents = append(parents, btcec.NewPublicKey(&fx, &fy))
		}
	}
	for _, k := range ks {
		x, y := tss.S256().ScalarBaseMult(k.Bytes())
		var fx, fy btcec.FieldVal
		fx.SetByteSlice(x.Bytes())
		fy.SetByteSlice(y.Bytes())
		parents = append(parents, btcec.NewPublicKey(&fx, &fy))
	}
	for pi, par := range parents {
		cc := make([]byte, 32)
		r.Rng.Read(cc)
		xk := &ckd.ExtendedKey{PublicKey: ecdsa.PublicKey{Curve: tss.S256(), X: par.X(), Y: par.Y()}, Depth: uint8(pi), ChildIndex: 7, ChainCode: cc, ParentFP: []byte{0, 0, 0, 0}, Version: ver}
		for _, idx := range []int64{0, 1, 2147483647, 2147483648, 4294967295, int64(1 + r.Rng.Intn(1000000))} {
			args := []val.V{xkeyV(xk), val.I64(idx)}
			o := r.Case("ckd_derive/kG", true, "ckd_derive", args...)
			il, child, ccc, fp, okRef := refCKDpub(par, cc, uint32(idx))
			ol, okImpl := o.(val.List)
			if okRef != (okImpl && len(ol) == 2) {
				r.Violate("ckd-refusal-differs", fmt.Sprintf("index %d: library accepted=%v, BIP32 reference accepted=%v", idx, okImpl, okRef), vc.Line("ckd_derive", args))
				continue
			}
			if !okRef {
				continue
			}
			ck := xkeyOf(val.AsList(ol[1])[1])
			if val.AsInt(val.AsList(ol[1])[0]).Cmp(il) != 0 || ck.X.Cmp(child.X()) != 0 || ck.Y.Cmp(child.Y()) != 0 || !bytes.Equal(ck.ChainCode, ccc) || !bytes.Equal(ck.ParentFP, fp) || int(ck.Depth) != pi+1 || int64(ck.ChildIndex) != idx {
				r.Violate("ckd-differs-from-bip32", "derived child differs from the BIP32 reference derivation", vc.Line("ckd_derive", args))
			}
			// child = parent + il*G
			dx, dy := tss.S256().ScalarBaseMult(il.Bytes())
			sx, sy := tss.S256().Add(par.X(), par.Y(), dx, dy)
			if sx.Cmp(ck.X) != 0 || sy.Cmp(ck.Y) != 0 {
				r.Violate("ckd-offset-wrong", "child != parent + offset*G", vc.Line("ckd_derive", args))
			}
			r.Case("ckd_string/kG", true, "ckd_string", xkeyV(ck))
			back, err := ckd.NewExtendedKeyFromString(ck.String(), tss.S256())
			if err != nil || back.X.Cmp(ck.X) != 0 || back.Y.Cmp(ck.Y) != 0 || !bytes.Equal(back.ChainCode, ck.ChainCode) || back.Depth != ck.Depth || back.ChildIndex != ck.ChildIndex {
				r.Violate("ckd-string-roundtrip", "an extended key does not survive String / NewExtendedKeyFromString", vc.Line("ckd_string", []val.V{xkeyV(ck)}))
			}
		}
		// depth 255 is refused
		xk255 := *xk
		xk255.Depth = 255
		o := r.Case("ckd_derive/depth255", true, "ckd_derive", xkeyV(&xk255), val.I64(1))
		if o.String() != "Err" {
			r.Violate("ckd-depth-not-refused", "derivation beyond depth 255 is not refused", vc.Line("ckd_derive", []val.V{xkeyV(&xk255), val.I64(1)}))
		}
		// paths of length 0..5: accumulated offset
		for plen := 0; plen <= r.Pick(3, 5); plen++ {
			path := make([]*big.Int, plen)
			for i := range path {
				path[i] = big.NewInt(int64([]int{0, 1, 2147483647, r.Rng.Intn(100000)}[r.Rng.Intn(4)]))
			}
			args := []val.V{xkeyV(xk), val.Ints(path)}
			o := r.Case(fmt.Sprintf("ckd_path/len%d", plen), true, "ckd_path", args...)
			if ol, ok := o.(val.List); ok && len(ol) == 2 {
				d := val.AsInt(val.AsList(ol[1])[0])
				ck := xkeyOf(val.AsList(ol[1])[1])
				// reference: iterate refCKDpub
				cur, ccur := par, cc
				acc := big.NewInt(0)
				good := true
				for _, i := range path {
					il, ch, nc, _, okr := refCKDpub(cur, ccur, uint32(i.Int64()))
					if !okr {
						good = false
						break
					}
					acc.Add(acc, il).Mod(acc, q)
					cur, ccur = ch, nc
				}
				if good && (acc.Cmp(d) != 0 || cur.X().Cmp(ck.X) != 0 || cur.Y().Cmp(ck.Y) != 0) {
					r.Violate("ckd-path-differs-from-bip32", "multi-level derivation differs from iterating the BIP32 reference (offset or key)", vc.Line("ckd_path", args))
				}
				if plen > 0 || d.Sign() == 0 {
					dx, dy := tss.S256().ScalarBaseMult(d.Bytes())
					if d.Sign() != 0 {
						sx, sy := tss.S256().Add(par.X(), par.Y(), dx, dy)
						if sx.Cmp(ck.X) != 0 || sy.Cmp(ck.Y) != 0 {
							r.Violate("ckd-path-offset-wrong", "child != parent + accumulated offset * G", vc.Line("ckd_path", args))
						}
					}
				}
			}
		}
	}
	// 3. sessions on ONE parsed key object: derivations and serialisations interleaved; every step must give what the
	// same call gives on freshly parsed objects (the values are immutable in the model: no call may disturb another)
	c18Sessions(r)
	// 4. derive-then-sign sequences on the vendored key
	hdSign(r, g)
}

// c18Sessions: a parsed extended key and the children derived from it share byte slices with the decoded string;
// a history of Derive / String calls on the shared objects is compared step by step with the same calls made on
// fresh objects (parse the string again, derive along the recorded path), and each observed value goes to the model.
func c18Sessions(r *vc.Run) {
	type obj struct {
		k    *ckd.ExtendedKey
		path []uint32 // from the root string
	}
	fresh := func(root string, path []uint32) *ckd.ExtendedKey {
		k, err := ckd.NewExtendedKeyFromString(root, tss.S256())
		if err != nil {
			return nil
		}
		for _, i := range path {
			_, c, err := ckd.DeriveChildKey(i, k, tss.S256())
			if err != nil {
				return nil
			}
			k = c
		}
		return k
	}
	roots := []string{bip32Vectors[0][0], bip32Vectors[3][0], bip32Vectors[5][0]}
	for si := 0; si < r.Pick(6, 40); si++ {
		root := roots[si%len(roots)]
		p0, err := ckd.NewExtendedKeyFromString(root, tss.S256())
		if err != nil {
			continue
		}
		objs := []obj{{p0, nil}}
		var trace []string
		for step := 0; step < 4+r.Rng.Intn(6); step++ {
			o := objs[r.Rng.Intn(len(objs))]
			if step == 0 || (step > 1 && r.Rng.Intn(2) == 0 && int(o.k.Depth) < 250) {
				idx := uint32([]int{0, 1, 2, 2147483647, r.Rng.Intn(1 << 20)}[r.Rng.Intn(5)])
				f := fresh(root, o.path)
				args := []val.V{xkeyV(f), val.I64(int64(idx))}
				il, c, err := ckd.DeriveChildKey(idx, o.k, tss.S256())
				trace = append(trace, fmt.Sprintf("derive %v/%d", o.path, idx))
				var obs val.V = val.Err
				if err == nil {
					obs = val.Ok(val.L(val.I(il), xkeyV(c)))
					objs = append(objs, obj{c, append(append([]uint32{}, o.path...), idx)})
				}
				r.Record("ckd_session/derive", true, "ckd_derive", args, obs)
				want, _ := vc.Exec("ckd_derive", args)
				if want.String() != obs.String() {
					r.Violate("ckd-session-disturbed|derive", "a derivation on a key object that was used before differs from the same derivation on a freshly parsed key", root+" "+strings.Join(trace, "; "))
					break
				}
			} else {
				f := fresh(root, o.path)
				got := o.k.String()
				trace = append(trace, fmt.Sprintf("string %v", o.path))
				r.Record("ckd_session/string", true, "ckd_string", []val.V{xkeyV(f)}, val.B([]byte(got)))
				if got != f.String() {
					r.Violate("ckd-session-disturbed|string", "serialising a key object that was used before differs from serialising a freshly derived one", root+" "+strings.Join(trace, "; "))
					break
				}
			}
		}
		// at the end the root object still serialises to the string it was parsed from
		if p0.String() != root {
			r.Violate("ckd-session-disturbed|root", "after a history of derivations and serialisations the parsed key no longer serialises to its own string", root+" "+strings.Join(trace, "; "))
		}
	}
}

// hdSign: derive a child key of the group key, sign with the offset, verify under child and not under parent, shares unchanged; twice on the same loaded key.
func hdSign(r *vc.Run, g rng) {
	keys0, pids := fixtures()
	q := tss.S256().Params().N
	// work on a JSON-reloaded copy of the fixtures so that the vendored data in memory is never touched
	signers := []int{0, 1, 2}
	base := reloadKeys(keys0)
	before := snapshotKeys(base)
	for seq := 0; seq < r.Pick(3, 12); seq++ {
		cc := make([]byte, 32)
		r.Rng.Read(cc)
		// path lengths 3, 0, 1, 5, 2, 4 ... (the empty path gives offset 0 and child = parent)
		path := []uint32{uint32(12 + seq), 209, uint32(r.Rng.Intn(1000)), 0, 2147483647}[:[]int{3, 0, 1, 5, 2, 4}[seq%6]]
		ver, _ := hex.DecodeString("0488ade4")
		parent := &ckd.ExtendedKey{PublicKey: ecdsa.PublicKey{Curve: tss.S256(), X: base[0].ECDSAPub.X(), Y: base[0].ECDSAPub.Y()}, Depth: 0, ChildIndex: 0, ChainCode: cc, ParentFP: []byte{0, 0, 0, 0}, Version: ver}
		delta, child, err := ckd.DeriveChildKeyFromHierarchy(path, parent, q, tss.S256())
		if err != nil {
			continue
		}
		// the signing parties get their own working copies with the public data shifted by delta*G
		work := reloadKeys(base)
		sk, sp := pickKeys(work, pids, signers)
		replay0 := fmt.Sprintf("derive along path %v from the vendored group key (chain code %x), then UpdatePublicKeyAndAdjustBigXj(delta=%s)", path, cc, delta)
		if perr := func() (e interface{}) {
			defer func() { e = recover() }()
			if err := ecdsasign.UpdatePublicKeyAndAdjustBigXj(delta, sk, &child.PublicKey, tss.S256()); err != nil {
				return err
			}
			return nil
		}(); perr != nil {
			key := "hd-adjust-failed"
			if len(path) == 0 || delta.Sign() == 0 {
				key = "hd-adjust-zero-offset"
			}
			r.Violate(key, fmt.Sprintf("UpdatePublicKeyAndAdjustBigXj fails for a derived offset (path length %d, offset %s): %v", len(path), delta, perr), replay0)
			continue
		}
		m := g.below(q)
		kis, gs := make([]*big.Int, 3), make([]*big.Int, 3)
		first := make([][]*big.Int, 3)
		for i := range kis {
			kis[i], gs[i] = add(g.below(add(q, -1)), 1), add(g.below(add(q, -1)), 1)
			first[i] = []*big.Int{kis[i], gs[i]}
		}
		rc := buildECDSASign(sk, sp, 2, signOpts{msg: m, first: first, seed: fmt.Sprintf("c18-%d", seq), kdd: delta})
		rc.net.Rng = nil
		rc.net.Run(sched.FIFO, 200000)
		sr := &signRun{net: rc.net}
		for _, n := range rc.net.New {
			n.Results()
			for _, x := range rc.results[n.Name] {
				sr.sigs = append(sr.sigs, x.(*commonSig))
			}
			sr.errs = append(sr.errs, n.Errs...)
			sr.emitted += len(n.Emitted)
		}
		replay := fmt.Sprintf("hd derive-then-sign sequence %d path=%v", seq, path)
		childPub := &ecdsa.PublicKey{Curve: tss.S256(), X: child.X, Y: child.Y}
		var parentPub *ecdsa.PublicKey
		if delta.Sign() != 0 {
			parentPub = toECDSAPub(base[0])
		}
		ecdsaOracles(r, sr, childPub, m, 0, replay, parentPub)
		// model: signing with shares x_i + delta
		ids := make([]*big.Int, 3)
		xs := make([]*big.Int, 3)
		for i := range sp {
			ids[i] = sp[i].KeyInt()
			xs[i] = new(big.Int).Mod(new(big.Int).Add(sk[i].Xi, delta), q)
		}
		if len(sr.sigs) > 0 {
			args := []val.V{val.A("fixture"), val.Ints([]*big.Int{big.NewInt(0), big.NewInt(1), big.NewInt(2)}), val.Ints(kis), val.Ints(gs), val.I(m), val.I64(0), val.I(delta), val.Ints(ids), val.Ints(xs), val.L(val.I(child.X), val.I(child.Y))}
			r.Record("ecdsa_sign/hd-offset", true, "ecdsa_sign", args, sigV(sr.sigs[0]))
		}
		// the stored key data (base) is unchanged by the whole sequence
		if after := snapshotKeys(base); after != before {
			r.Violate("hd-stored-shares-changed", "the stored key data changed after a derive-then-sign sequence", replay)
		}
		r.Dist["hd-sequence"]++
	}
}

func reloadKeys(keys []ecdsakeygen.LocalPartySaveData) []ecdsakeygen.LocalPartySaveData {
	out := make([]ecdsakeygen.LocalPartySaveData, len(keys))
	for i, k := range keys {
		bz, err := jsonMarshal(k)
		if err != nil {
			panic(err)
		}
		if err := jsonUnmarshal(bz, &out[i]); err != nil {
			panic(err)
		}
		// the application knows which curve its key is on and says so after loading
		ec := k.ECDSAPub.Curve()
		for _, b := range out[i].BigXj {
			b.SetCurve(ec)
		}
		out[i].ECDSAPub.SetCurve(ec)
	}
	return out
}

func snapshotKeys(keys []ecdsakeygen.LocalPartySaveData) string {
	var sb bytes.Buffer
	for _, k := range keys {
		bz, _ := jsonMarshal(k)
		sb.Write(bz)
	}
	h := sha256.Sum256(sb.Bytes())
	return hex.EncodeToString(h[:])
}
