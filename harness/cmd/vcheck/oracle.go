package main

import (
	"bufio"
	"crypto/hmac"
	"crypto/sha256"
	"crypto/sha512"
	"encoding/hex"
	"fmt"
	"math/big"
	"os"
	"strings"

	"github.com/btcsuite/btcutil/base58"
	"golang.org/x/crypto/ripemd160"
)

// oracleServer answers "name hex [hex]" lines with one hex line, using only
// the Go standard library and x/crypto (never tss-lib code).
func oracleServer() {
	sc := bufio.NewScanner(os.Stdin)
	sc.Buffer(make([]byte, 1<<20), 1<<28)
	w := bufio.NewWriter(os.Stdout)
	for sc.Scan() {
		f := strings.Fields(sc.Text())
		if len(f) == 0 {
			continue
		}
		arg := func(i int) []byte {
			if i >= len(f) || f[i] == "-" {
				return []byte{}
			}
			b, _ := hex.DecodeString(f[i])
			return b
		}
		var out []byte
		switch f[0] {
		case "sha512_256":
			h := sha512.Sum512_256(arg(1))
			out = h[:]
		case "sha512":
			h := sha512.Sum512(arg(1))
			out = h[:]
		case "sha256":
			h := sha256.Sum256(arg(1))
			out = h[:]
		case "hmac_sha512": // key, data
			m := hmac.New(sha512.New, arg(1))
			m.Write(arg(2))
			out = m.Sum(nil)
		case "dsha256":
			h1 := sha256.Sum256(arg(1))
			h2 := sha256.Sum256(h1[:])
			out = h2[:]
		case "hash160":
			h := sha256.Sum256(arg(1))
			r := ripemd160.New()
			r.Write(h[:])
			out = r.Sum(nil)
		case "probably_prime":
			if new(big.Int).SetBytes(arg(1)).ProbablyPrime(30) {
				out = []byte{1}
			} else {
				out = []byte{0}
			}
		case "base58":
			out = []byte(base58.Encode(arg(1)))
		default:
			out = []byte{}
		}
		fmt.Fprintln(w, hex.EncodeToString(out))
		w.Flush()
	}
}
