package main

import (
	"fmt"
	"math/big"
	"math/rand"
	"reflect"
	"time"

	"github.com/bnb-chain/tss-lib/v2/crypto"
	ecdsakeygen "github.com/bnb-chain/tss-lib/v2/ecdsa/keygen"
	eddsakeygen "github.com/bnb-chain/tss-lib/v2/eddsa/keygen"
	"github.com/bnb-chain/tss-lib/v2/tss"

	"verif/harness/internal/sched"
	"verif/harness/internal/val"
	"verif/harness/internal/vc"
)

func init() {
	gens["C03"] = genC03
	vc.OpTimeout["keygen"] = 180 * time.Second
	// keygen curve n t [ks] [[u a1..at]...]
	vc.Register("keygen", func(a []val.V) val.V {
		o, _ := runKeygen(val.AsAtom(a[0]), int(val.AsInt64(a[1])), int(val.AsInt64(a[2])), val.AsInts(a[3]), polysOf(a[4]), sched.FIFO, 1)
		return o
	})
}

func polysOf(v val.V) [][]*big.Int {
	var out [][]*big.Int
	for _, p := range val.AsList(v) {
		out = append(out, val.AsInts(p))
	}
	return out
}

// pubView is what every party must agree on.
type pubView struct {
	Ks      []*big.Int
	BigXj   [][2]*big.Int
	Pub     [2]*big.Int
	NTildej []*big.Int
	H1j     []*big.Int
	H2j     []*big.Int
	PaiN    []*big.Int
}

type kgResult struct {
	xi    []*big.Int
	views []pubView
	paiN  []*big.Int // each party's own Paillier modulus
	errs  []string
	n     int
}

func ptPair(p *crypto.ECPoint) [2]*big.Int { return [2]*big.Int{p.X(), p.Y()} }

func runKeygen(curve string, n, t int, ks []*big.Int, polys [][]*big.Int, st sched.Strategy, seed int64) (val.V, *kgResult) {
	ui := make([]*big.Int, n)
	coefs := make([][]*big.Int, n)
	// polys are given in the order of the SORTED party ids
	for i := range polys {
		ui[i] = polys[i][0]
		coefs[i] = polys[i][1:]
	}
	o := kgOpts{keys: ks, ui: ui, coefs: coefs, seed: fmt.Sprintf("c03-%d", seed)}
	if curve == "p256" {
		o.ec = curveByName(curve)
	}
	var rc *runCtx
	if curve == "ed25519" {
		rc = buildEdDSAKeygen(n, t, o)
	} else {
		rc = buildECDSAKeygen(n, t, o)
	}
	rc.net.Rng = rand.New(rand.NewSource(seed))
	rc.net.Run(st, 200000)
	return collectKeygen(rc, n)
}

func collectKeygen(rc *runCtx, n int) (val.V, *kgResult) {
	res := &kgResult{n: n}
	for _, nd := range rc.net.New {
		nd.Results()
		res.errs = append(res.errs, nd.Errs...)
		for _, r := range rc.results[nd.Name] {
			switch k := r.(type) {
			case *eddsakeygen.LocalPartySaveData:
				v := pubView{Ks: k.Ks, Pub: ptPair(k.EDDSAPub)}
				for _, b := range k.BigXj {
					v.BigXj = append(v.BigXj, ptPair(b))
				}
				res.xi = append(res.xi, k.Xi)
				res.views = append(res.views, v)
			case *ecdsakeygen.LocalPartySaveData:
				v := pubView{Ks: k.Ks, Pub: ptPair(k.ECDSAPub), NTildej: k.NTildej, H1j: k.H1j, H2j: k.H2j}
				for _, b := range k.BigXj {
					v.BigXj = append(v.BigXj, ptPair(b))
				}
				for _, pk := range k.PaillierPKs {
					v.PaiN = append(v.PaiN, pk.N)
				}
				res.xi = append(res.xi, k.Xi)
				res.views = append(res.views, v)
				res.paiN = append(res.paiN, k.PaillierSK.N)
			}
		}
	}
	if len(res.xi) != n {
		return val.Err, res
	}
	var flat []*big.Int
	for _, b := range res.views[0].BigXj {
		flat = append(flat, b[0], b[1])
	}
	return val.Ok(val.L(val.Ints(res.xi), val.Ints(flat), val.L(val.I(res.views[0].Pub[0]), val.I(res.views[0].Pub[1])))), res
}

// keygenOracles: the C03 predicates, independent of the model.
func keygenOracles(r *vc.Run, res *kgResult, curve string, t int, replay string) {
	ec := curveByName(curve)
	q := ec.Params().N
	if len(res.xi) != res.n {
		r.Violate("keygen-incomplete|"+curve, fmt.Sprintf("only %d of %d parties finished key generation: %v", len(res.xi), res.n, res.errs), replay)
		return
	}
	for i := 1; i < len(res.views); i++ {
		if !reflect.DeepEqual(res.views[0], res.views[i]) {
			r.Violate("keygen-views-differ|"+curve, fmt.Sprintf("party %d holds a different public view than party 0", i), replay)
		}
	}
	v := res.views[0]
	for i, xi := range res.xi {
		P := crypto.ScalarBaseMult(ec, new(big.Int).Mod(xi, q))
		if P.X().Cmp(v.BigXj[i][0]) != 0 || P.Y().Cmp(v.BigXj[i][1]) != 0 {
			r.Violate("keygen-share-mismatch|"+curve, fmt.Sprintf("x_%d * G differs from the public share point X_%d", i, i), replay)
		}
	}
	// every (t+1)-subset interpolates to one x with x*G = pub; and the X_j lie on a degree-t polynomial in the exponent
	var x0 *big.Int
	for _, sub := range subsets(res.n) {
		if len(sub) != t+1 {
			continue
		}
		ids := make([]*big.Int, len(sub))
		sh := make([]*big.Int, len(sub))
		for k, i := range sub {
			ids[k] = v.Ks[i]
			sh[k] = res.xi[i]
		}
		x := lagrangeSecret(q, ids, sh)
		if x0 == nil {
			x0 = x
			if x.Sign() != 0 {
				P := crypto.ScalarBaseMult(ec, x)
				if P.X().Cmp(v.Pub[0]) != 0 || P.Y().Cmp(v.Pub[1]) != 0 {
					r.Violate("keygen-pub-mismatch|"+curve, "the interpolated private key does not match the group public key", replay)
				}
			}
		} else if x.Cmp(x0) != 0 {
			r.Violate("keygen-not-one-polynomial|"+curve, fmt.Sprintf("the (t+1)-subset %v interpolates to a different key", sub), replay)
		}
	}
	for i, n := range res.paiN {
		if n.Cmp(v.PaiN[i]) != 0 {
			r.Violate("keygen-paillier-mismatch", fmt.Sprintf("party %d's Paillier private key does not match the modulus recorded for it", i), replay)
		}
	}
}

func genC03(r *vc.Run) {
	r.Rule = "full key generation runs (EdDSA, ECDSA on secp256k1 and on NIST P-256, with the vendored pre-parameters) with every party's u_i and polynomial coefficients fixed through the readers, so that the Coq closed form predicts every x_j, X_j and the public key exactly; (n,t) in {(2,1),(3,1),(3,2),(4,2),(4,3),(5,2),(5,3),(5,4)}, party-key sets {1..n, random 256-bit, q-1.., >= q}; direct oracles: identical public views, x_i G = X_i, every (t+1)-subset interpolates to one key matching the public key, Paillier modulus consistency; non-trivial = all runs"
	g := rng{r}
	type cfg struct {
		curve string
		n, t  int
		keys  string
	}
	cfgs := []cfg{{"ed25519", 2, 1, "small"}, {"ed25519", 3, 1, "random"}, {"ed25519", 3, 2, "nearq"}, {"ed25519", 4, 2, "aboveq"}, {"ed25519", 5, 2, "small"}, {"ed25519", 5, 3, "random"}, {"ed25519", 5, 4, "small"}, {"ed25519", 4, 3, "random"},
		{"secp256k1", 2, 1, "small"}, {"secp256k1", 3, 2, "random"}, {"secp256k1", 4, 3, "nearq"},
		{"ed25519", 3, 1, "congruent"}, {"secp256k1", 3, 1, "congruent"}, {"ed25519", 3, 1, "zero"},
		// ECDSA key generation on a curve the application brings itself (NIST P-256): the order that reduces shares and ids is that of the run
		{"p256", 2, 1, "nearq"}, {"p256", 3, 2, "aboveq"}}
	if r.Thorough() {
		cfgs = append(cfgs, cfg{"secp256k1", 3, 1, "aboveq"}, cfg{"secp256k1", 4, 2, "random"}, cfg{"secp256k1", 5, 2, "small"}, cfg{"secp256k1", 5, 3, "random"}, cfg{"secp256k1", 5, 4, "nearq"},
			cfg{"ed25519", 5, 2, "aboveq"}, cfg{"ed25519", 5, 4, "nearq"}, cfg{"p256", 3, 1, "random"}, cfg{"p256", 4, 2, "small"}, cfg{"p256", 3, 1, "congruent"})
	}
	for ci, c := range cfgs {
		q := curveByName(c.curve).Params().N
		var ks []*big.Int
		for i := 0; i < c.n; i++ {
			switch c.keys {
			case "small":
				ks = append(ks, big.NewInt(int64(i+1)))
			case "random":
				ks = append(ks, add(g.below(pow2(255)), 1))
			case "nearq":
				ks = append(ks, add(q, int64(-1-i)))
			case "congruent": // two ids equal modulo the group order: key generation must refuse
				ks = append(ks, []*big.Int{big.NewInt(7), add(q, 7), big.NewInt(11)}[i])
			case "zero":
				ks = append(ks, []*big.Int{big.NewInt(3), q, big.NewInt(11)}[i])
			case "aboveq":
				ks = append(ks, new(big.Int).Add(mul(q, big.NewInt(int64(i+1))), big.NewInt(int64(3*i+2))))
			}
		}
		// the harness passes polynomials in sorted-id order
		sorted := mkPIDs(ks)
		sk := make([]*big.Int, c.n)
		for i, p := range sorted {
			sk[i] = p.KeyInt()
		}
		polys := make([][]*big.Int, c.n)
		pl := make(val.List, c.n)
		for i := range polys {
			for k := 0; k <= c.t; k++ {
				polys[i] = append(polys[i], add(g.below(add(q, -1)), 1))
			}
			pl[i] = val.Ints(polys[i])
		}
		args := []val.V{val.A(c.curve), val.I64(int64(c.n)), val.I64(int64(c.t)), val.Ints(sk), pl}
		obs, res := runKeygen(c.curve, c.n, c.t, sk, polys, sched.FIFO, r.Seed+int64(ci))
		r.Record(fmt.Sprintf("keygen/%s/n%d-t%d/%s", c.curve, c.n, c.t, c.keys), true, "keygen", args, obs)
		if c.keys == "congruent" || c.keys == "zero" {
			if len(res.xi) > 0 {
				r.Violate("keygen-accepts-bad-ids|"+c.keys, "key generation completed although an id is 0 or two ids coincide modulo the group order", vc.Line("keygen", args))
			}
			continue
		}
		keygenOracles(r, res, c.curve, c.t, vc.Line("keygen", args))
	}
	// a dealt share negated in transit (q - s: the mirrored point in every check that compares x coordinates only) must stop the run
	for _, fr := range faultRunners() {
		if fr.proto != "ecdsa_keygen" && fr.proto != "eddsa_keygen" {
			continue
		}
		f := fault{fr.proto, "N1", "KGRound2Message1", "share", 0, "negate"}
		res := runFault(fr, f, r.Seed+17)
		r.Dist["negated-share/"+fr.proto]++
		r.CountCase(f.String(), res.Applied > 0, fmt.Sprintf("%s => finished=%v culprits=%v", f.String(), res.Finished, res.Culprits))
		if res.BadOutput != "" {
			r.Violate("keygen-negated-share-accepted|"+fr.proto, "key generation completed with inconsistent key data although a dealt share was negated in transit: "+res.BadOutput, f.String())
		} else if res.Applied > 0 && len(res.Culprits) == 0 {
			r.Violate("keygen-negated-share-accepted|"+fr.proto, "a dealt share was negated in transit and nobody objected", f.String())
		}
		// a dealer that runs the honest code with threshold t+1 (or t-1): a polynomial of another degree, commitments, opening and
		// shares all consistent with each other. The result would not be a (t,n) sharing: somebody must object, nothing inconsistent may come out
		for _, kind := range []string{"config-threshold+1", "config-threshold-1"} {
			if kind == "config-threshold-1" && fr.cost > 2 && !r.Thorough() {
				continue
			}
			f2 := fault{fr.proto, "N1", "-", "config", 0, kind}
			res2 := runFault(fr, f2, r.Seed+29)
			r.Dist["wrong-degree-dealing/"+fr.proto]++
			r.CountCase(f2.String(), res2.Applied > 0, fmt.Sprintf("%s => finished=%v culprits=%v", f2.String(), res2.Finished, res2.Culprits))
			if res2.BadOutput != "" {
				r.Violate("keygen-wrong-degree-accepted|"+fr.proto, "key generation completed with inconsistent key data although one dealer used a polynomial of another degree: "+res2.BadOutput, f2.String())
			} else if kind == "config-threshold+1" && len(res2.Culprits) == 0 {
				// (with t-1 the deviator may be unable to deal at all - a threshold below 1 is refused locally - and then nothing is sent)
				r.Violate("keygen-wrong-degree-accepted|"+fr.proto, "one dealer used a polynomial of another degree (commitments and shares consistent with it) and nobody objected", f2.String())
			}
		}
	}
}

func checkEdDSAKeygenResult(r *vc.Run, rc *runCtx, cfg, schedName string) {
	var n, t int
	fmt.Sscanf(cfg, "n=%d,t=%d", &n, &t)
	_, res := collectKeygen(rc, n)
	keygenOracles(r, res, "ed25519", t, fmt.Sprintf("run eddsa_keygen %s schedule=%s", cfg, schedName))
}
func checkECDSAKeygenResult(r *vc.Run, rc *runCtx, cfg, schedName string) {
	var n, t int
	fmt.Sscanf(cfg, "n=%d,t=%d", &n, &t)
	_, res := collectKeygen(rc, n)
	keygenOracles(r, res, "secp256k1", t, fmt.Sprintf("run ecdsa_keygen %s schedule=%s", cfg, schedName))
}

var _ = tss.S256
