package main

// Implementation-side operations for the provers, Paillier, VSS dealing, MtA and the
// point codecs.  All randomness is supplied explicitly: the harness builds the exact
// byte stream that makes crypto/rand.Int return the chosen values.

import (
	"bytes"
	"encoding/gob"
	"encoding/json"
	"io"
	"math/big"

	"github.com/bnb-chain/tss-lib/v2/common"
	"github.com/bnb-chain/tss-lib/v2/crypto"
	"github.com/bnb-chain/tss-lib/v2/crypto/dlnproof"
	"github.com/bnb-chain/tss-lib/v2/crypto/facproof"
	"github.com/bnb-chain/tss-lib/v2/crypto/modproof"
	"github.com/bnb-chain/tss-lib/v2/crypto/mta"
	"github.com/bnb-chain/tss-lib/v2/crypto/schnorr"
	"github.com/bnb-chain/tss-lib/v2/crypto/vss"
	ecdsareshare "github.com/bnb-chain/tss-lib/v2/ecdsa/resharing"
	ecdsasign "github.com/bnb-chain/tss-lib/v2/ecdsa/signing"
	eddsakeygen "github.com/bnb-chain/tss-lib/v2/eddsa/keygen"
	eddsareshare "github.com/bnb-chain/tss-lib/v2/eddsa/resharing"
	eddsasign "github.com/bnb-chain/tss-lib/v2/eddsa/signing"
	"github.com/bnb-chain/tss-lib/v2/tss"

	"verif/harness/internal/val"
	"verif/harness/internal/vc"
)

// draw is one value to be returned by a sampler whose bound has `bits` bits.
type draw struct {
	v     *big.Int
	bits  int
	bound *big.Int // the sampler's bound, when known: a candidate equal to it must be rejected and redrawn
}

// streamFor builds the bytes consumed by successive MustGetRandomInt(rand, bits) calls.
// After the prefix the stream fails, so a prover that draws more than planned is noticed.
func streamFor(ds ...draw) io.Reader {
	var buf []byte
	for _, d := range ds {
		k := (d.bits + 7) / 8
		// first a candidate that the rejection loop must discard (the bound itself: it passes crypto/rand.Int's own
		// range test whenever bound < 2^bits - 1, and is then refused by `try < bound` / the unit test), then the value
		if d.bound != nil && d.bound.BitLen() == d.bits && d.bound.Cmp(add(pow2(uint(d.bits)), -1)) < 0 {
			buf = append(buf, beN(d.bound, k)...)
		}
		buf = append(buf, beN(d.v, k)...)
	}
	return &prefixReader{prefix: buf, rest: failReader{}}
}

type failReader struct{}

func (failReader) Read(p []byte) (int, error) { return 0, io.ErrUnexpectedEOF }

func d(v, bound *big.Int) draw { return draw{v, bound.BitLen(), bound} }

// safely runs f and converts a sampler panic on an exhausted stream into the atom StreamExhausted
func withStream(f func() val.V) (out val.V) {
	defer func() {
		if e := recover(); e != nil {
			if s, ok := e.(error); ok && bytes.Contains([]byte(s.Error()), []byte("rand.Int failure")) {
				out = val.A("StreamExhausted")
				return
			}
			panic(e)
		}
	}()
	return f()
}

func q3of(q *big.Int) *big.Int { return mul(q, mul(q, q)) }

func init() {
	// schnorr_prove curve #session x a -> [Ok [[alpha] t]]
	vc.Register("schnorr_prove", func(a []val.V) val.V {
		ec := curveByName(val.AsAtom(a[0]))
		q := ec.Params().N
		x := val.AsInt(a[2])
		X := crypto.ScalarBaseMult(ec, x)
		return withStream(func() val.V {
			pf, err := schnorr.NewZKProof(sessBuf(a[1]), x, X, streamFor(d(val.AsInt(a[3]), q)))
			if err != nil {
				return val.Err
			}
			return val.Ok(val.L(pointV(pf.Alpha), val.I(pf.T)))
		})
	})
	// schnorrv_prove curve #session [R] s l a b -> [Ok [[alpha] t u]]  with V = s*R + l*G
	vc.Register("schnorrv_prove", func(a []val.V) val.V {
		ec := curveByName(val.AsAtom(a[0]))
		q := ec.Params().N
		R := pointOf(ec, a[2])
		if R == nil {
			return val.Err
		}
		s, l := val.AsInt(a[3]), val.AsInt(a[4])
		V, err := R.ScalarMult(s).Add(crypto.ScalarBaseMult(ec, l))
		if err != nil {
			return val.Err
		}
		return withStream(func() val.V {
			pf, err := schnorr.NewZKVProof(sessBuf(a[1]), V, R, s, l, streamFor(d(val.AsInt(a[5]), q), d(val.AsInt(a[6]), q)))
			if err != nil {
				return val.Err
			}
			return val.Ok(val.L(pointV(pf.Alpha), val.I(pf.T), val.I(pf.U)))
		})
	})
	// vss_create curve t secret [ids] [coefs] -> [Ok [[flat vs] [shares]]]
	vc.Register("vss_create", func(a []val.V) val.V {
		ec := curveByName(val.AsAtom(a[0]))
		q := ec.Params().N
		var ds []draw
		for _, c := range val.AsInts(a[4]) {
			ds = append(ds, d(c, q))
		}
		return withStream(func() val.V {
			vs, shares, err := vss.Create(ec, int(val.AsInt64(a[1])), val.AsInt(a[2]), val.AsInts(a[3]), streamFor(ds...))
			if err != nil {
				return val.Err
			}
			flat, _ := crypto.FlattenECPoints(vs)
			sh := make([]*big.Int, len(shares))
			for i, s := range shares {
				sh[i] = s.Share
			}
			return val.Ok(val.L(val.Ints(flat), val.Ints(sh)))
		})
	})
	vc.Register("check_indexes", func(a []val.V) val.V {
		_, err := vss.CheckIndexes(curveByName(val.AsAtom(a[0])), val.AsInts(a[1]))
		return val.Bool(err == nil)
	})
	// ---- Paillier ----
	vc.Register("pai_encrypt", func(a []val.V) val.V {
		pk := paiPKObj(val.AsInt(a[0]))
		return withStream(func() val.V {
			c, _, err := pk.EncryptAndReturnRandomness(streamFor(d(val.AsInt(a[2]), pk.N)), val.AsInt(a[1]))
			if err != nil {
				return val.Err
			}
			return val.Ok(val.I(c))
		})
	})
	vc.Register("pai_homo_mult", func(a []val.V) val.V {
		pk := paiPKObj(val.AsInt(a[0]))
		c, err := pk.HomoMult(val.AsInt(a[1]), val.AsInt(a[2]))
		if err != nil {
			return val.Err
		}
		return val.Ok(val.I(c))
	})
	vc.Register("pai_homo_add", func(a []val.V) val.V {
		pk := paiPKObj(val.AsInt(a[0]))
		c, err := pk.HomoAdd(val.AsInt(a[1]), val.AsInt(a[2]))
		if err != nil {
			return val.Err
		}
		return val.Ok(val.I(c))
	})
	// pai_decrypt [N lambda phi P Q] c
	vc.Register("pai_decrypt", func(a []val.V) val.V {
		k := val.AsInts(a[0])
		sk := paiSKObj(k)
		m, err := sk.Decrypt(val.AsInt(a[1]))
		if err != nil {
			return val.Err
		}
		return val.Ok(val.I(m))
	})
	// pai_prove [N lambda phi P Q] k [pub] -> [Ok [13 ints]]
	vc.Register("pai_prove", func(a []val.V) val.V {
		k := val.AsInts(a[0])
		sk := paiSKObj(k)
		pub := pointOf(tss.S256(), a[2])
		if pub == nil {
			return val.Err
		}
		pf := sk.Proof(val.AsInt(a[1]), pub)
		return val.Ok(val.Ints(pf[:]))
	})
	// ---- MtA proofs ----
	// alice_prove curve N c NTilde h1 h2 m r [alpha beta gamma rho] -> [Ok [6]]
	vc.Register("alice_prove", func(a []val.V) val.V {
		ec := curveByName(val.AsAtom(a[0]))
		q := ec.Params().N
		N, NT := val.AsInt(a[1]), val.AsInt(a[3])
		r := val.AsInts(a[8])
		return withStream(func() val.V {
			pf, err := mta.ProveRangeAlice(ec, paiPKObj(N), val.AsInt(a[2]), NT, val.AsInt(a[4]), val.AsInt(a[5]), val.AsInt(a[6]), val.AsInt(a[7]),
				streamFor(d(r[0], q3of(q)), d(r[1], N), d(r[2], mul(q3of(q), NT)), d(r[3], mul(q, NT))))
			if err != nil {
				return val.Err
			}
			return val.Ok(val.Ints([]*big.Int{pf.Z, pf.U, pf.W, pf.S, pf.S1, pf.S2}))
		})
	})
	// bob_prove curve #session N NTilde h1 h2 c1 c2 x y r Xopt [alpha rho sigma tau rhoPrm beta gamma] -> [Ok [[10] [U]]]
	vc.Register("bob_prove", func(a []val.V) val.V {
		ec := curveByName(val.AsAtom(a[0]))
		q := ec.Params().N
		N, NT := val.AsInt(a[2]), val.AsInt(a[3])
		var X *crypto.ECPoint
		if l, ok := a[11].(val.List); ok && len(l) == 2 {
			X = pointOf(ec, a[11])
			if X == nil {
				return val.Err
			}
		}
		r := val.AsInts(a[12])
		q3 := q3of(q)
		q7 := mul(mul(q3, q3), q)
		return withStream(func() val.V {
			pf, err := mta.ProveBobWC(sessBuf(a[1]), ec, paiPKObj(N), NT, val.AsInt(a[4]), val.AsInt(a[5]), val.AsInt(a[6]), val.AsInt(a[7]),
				val.AsInt(a[8]), val.AsInt(a[9]), val.AsInt(a[10]), X,
				streamFor(d(r[0], q3), d(r[1], mul(q, NT)), d(r[2], mul(q, NT)), d(r[3], mul(q3, NT)), d(r[4], mul(q3, NT)), d(r[5], N), d(r[6], q7)))
			if err != nil {
				return val.Err
			}
			p := pf.ProofBob
			return val.Ok(val.L(val.Ints([]*big.Int{p.Z, p.ZPrm, p.T, p.V, p.W, p.S, p.S1, p.S2, p.T1, p.T2}), pointV(pf.U)))
		})
	})
	// fac_prove curve #session N0 NCap s t p q [alpha beta mu nu sigma r x y] -> [Ok [11]]
	vc.Register("fac_prove", func(a []val.V) val.V {
		ec := curveByName(val.AsAtom(a[0]))
		q := ec.Params().N
		N0, NC := val.AsInt(a[2]), val.AsInt(a[3])
		r := val.AsInts(a[8])
		q3 := q3of(q)
		b1 := mul(q3, new(big.Int).Sqrt(N0))
		qNC := mul(q, NC)
		q3NC := mul(q3, NC)
		return withStream(func() val.V {
			pf, err := facproof.NewProof(sessBuf(a[1]), ec, N0, NC, val.AsInt(a[4]), val.AsInt(a[5]), val.AsInt(a[6]), val.AsInt(a[7]),
				streamFor(d(r[0], b1), d(r[1], b1), d(r[2], qNC), d(r[3], qNC), d(r[4], mul(qNC, N0)), d(r[5], mul(q3NC, N0)), d(r[6], q3NC), d(r[7], q3NC)))
			if err != nil {
				return val.Err
			}
			return val.Ok(val.Ints([]*big.Int{pf.P, pf.Q, pf.A, pf.B, pf.T, pf.Sigma, pf.Z1, pf.Z2, pf.W1, pf.W2, pf.V}))
		})
	})
	// mod_prove #session N P Q W -> [Ok [163]]
	vc.Register("mod_prove", func(a []val.V) val.V {
		N := val.AsInt(a[1])
		return withStream(func() val.V {
			pm, err := modproof.NewProof(sessBuf(a[0]), N, val.AsInt(a[2]), val.AsInt(a[3]), streamFor(d(val.AsInt(a[4]), N)))
			if err != nil {
				return val.Err
			}
			for _, x := range pm.X {
				if x == nil {
					return val.Err
				}
			}
			mi := []*big.Int{pm.W}
			mi = append(mi, pm.X[:]...)
			mi = append(mi, pm.A, pm.B)
			mi = append(mi, pm.Z[:]...)
			return val.Ok(val.Ints(mi))
		})
	})
	// dln_prove h1 h2 x p q N [a*128] -> [Ok [[alpha] [t]]]
	vc.Register("dln_prove", func(a []val.V) val.V {
		p, q := val.AsInt(a[3]), val.AsInt(a[4])
		pq := mul(p, q)
		var ds []draw
		for _, x := range val.AsInts(a[6]) {
			ds = append(ds, d(x, pq))
		}
		return withStream(func() val.V {
			pf := dlnproof.NewDLNProof(val.AsInt(a[0]), val.AsInt(a[1]), val.AsInt(a[2]), p, q, val.AsInt(a[5]), streamFor(ds...))
			return val.Ok(val.L(val.Ints(pf.Alpha[:]), val.Ints(pf.T[:])))
		})
	})
	// ---- points ----
	vc.Register("new_ec_point", func(a []val.V) val.V {
		ec := curveByName(val.AsAtom(a[0]))
		p, err := crypto.NewECPoint(ec, val.AsInt(a[1]), val.AsInt(a[2]))
		if err != nil {
			return val.None
		}
		return val.Some(pointV(p))
	})
	// msg_point_door door curve x y : the point as the named message's decoder accepts it (Some [x y]) or refuses it (None).
	// doors: the Schnorr commitment of a proof carried by a message, the public key announced in resharing
	vc.Register("msg_point_door", func(a []val.V) val.V {
		ec := curveByName(val.AsAtom(a[1]))
		x, y := val.AsInt(a[2]).Bytes(), val.AsInt(a[3]).Bytes()
		t := []byte{1}
		var p *crypto.ECPoint
		var err error
		switch val.AsAtom(a[0]) {
		case "ecdsa-sign-r4":
			var pf *schnorr.ZKProof
			pf, err = (&ecdsasign.SignRound4Message{ProofAlphaX: x, ProofAlphaY: y, ProofT: t}).UnmarshalZKProof(ec)
			if err == nil {
				p = pf.Alpha
			}
		case "ecdsa-sign-r6":
			var pf *schnorr.ZKProof
			pf, err = (&ecdsasign.SignRound6Message{ProofAlphaX: x, ProofAlphaY: y, ProofT: t}).UnmarshalZKProof(ec)
			if err == nil {
				p = pf.Alpha
			}
		case "ecdsa-sign-r6v":
			var pf *schnorr.ZKVProof
			pf, err = (&ecdsasign.SignRound6Message{VProofAlphaX: x, VProofAlphaY: y, VProofT: t, VProofU: t}).UnmarshalZKVProof(ec)
			if err == nil {
				p = pf.Alpha
			}
		case "eddsa-keygen-r2":
			var pf *schnorr.ZKProof
			pf, err = (&eddsakeygen.KGRound2Message2{ProofAlphaX: x, ProofAlphaY: y, ProofT: t}).UnmarshalZKProof(ec)
			if err == nil {
				p = pf.Alpha
			}
		case "eddsa-sign-r2":
			var pf *schnorr.ZKProof
			pf, err = (&eddsasign.SignRound2Message{ProofAlphaX: x, ProofAlphaY: y, ProofT: t}).UnmarshalZKProof(ec)
			if err == nil {
				p = pf.Alpha
			}
		case "ecdsa-reshare-pub":
			p, err = (&ecdsareshare.DGRound1Message{EcdsaPubX: x, EcdsaPubY: y}).UnmarshalECDSAPub(ec)
		case "eddsa-reshare-pub":
			p, err = (&eddsareshare.DGRound1Message{EddsaPubX: x, EddsaPubY: y}).UnmarshalEDDSAPub(ec)
		default:
			return val.A("BadCase")
		}
		if err != nil || p == nil {
			return val.None
		}
		return val.Some(pointV(p))
	})
	vc.Register("unflatten", func(a []val.V) val.V {
		ec := curveByName(val.AsAtom(a[0]))
		ps, err := crypto.UnFlattenECPoints(ec, val.AsInts(a[1]))
		if err != nil {
			return val.Err
		}
		l := make(val.List, len(ps))
		for i, p := range ps {
			l[i] = pointV(p)
		}
		return val.Ok(l)
	})
	vc.Register("ec_add", func(a []val.V) val.V {
		ec := curveByName(val.AsAtom(a[0]))
		P, Q := pointOf(ec, a[1]), pointOf(ec, a[2])
		if P == nil || Q == nil {
			return val.A("BadPoint")
		}
		r, err := P.Add(Q)
		if err != nil {
			return val.Err
		}
		return val.Ok(pointV(r))
	})
	vc.Register("ec_smul", func(a []val.V) val.V {
		ec := curveByName(val.AsAtom(a[0]))
		P := pointOf(ec, a[1])
		if P == nil {
			return val.A("BadPoint")
		}
		return val.Ok(pointV(P.ScalarMult(val.AsInt(a[2]))))
	})
	vc.Register("ec_base_mul", func(a []val.V) val.V {
		return val.Ok(pointV(crypto.ScalarBaseMult(curveByName(val.AsAtom(a[0])), val.AsInt(a[1]))))
	})
	vc.Register("eight_inv_eight", func(a []val.V) val.V {
		ec := curveByName(val.AsAtom(a[0]))
		P := pointOf(ec, a[1])
		if P == nil {
			return val.A("BadPoint")
		}
		return val.Ok(pointV(P.EightInvEight()))
	})
	// json_point curvename x y : decode {"Curve":name,"Coords":[x,y]} ; name "" = omitted (global curve)
	vc.Register("json_point", func(a []val.V) val.V {
		name := val.AsAtom(a[0])
		type aux struct {
			Curve  string `json:",omitempty"`
			Coords [2]*big.Int
		}
		if name == "none" {
			name = ""
		}
		bz, _ := json.Marshal(&aux{Curve: name, Coords: [2]*big.Int{val.AsInt(a[1]), val.AsInt(a[2])}})
		var p crypto.ECPoint
		if err := json.Unmarshal(bz, &p); err != nil {
			return val.None
		}
		// re-encode: must give back the same point and curve
		bz2, err := json.Marshal(&p)
		if err != nil {
			return val.A("ReencodeFailed")
		}
		var back aux
		_ = json.Unmarshal(bz2, &back)
		cn := back.Curve
		return val.Some(val.L(val.A(cn), val.I(back.Coords[0]), val.I(back.Coords[1])))
	})
	// gob_roundtrip curve x y : encode a valid point of the curve with gob and decode it again (global curve = secp256k1)
	vc.Register("gob_roundtrip", func(a []val.V) val.V {
		ec := curveByName(val.AsAtom(a[0]))
		P := crypto.NewECPointNoCurveCheck(ec, val.AsInt(a[1]), val.AsInt(a[2]))
		var buf bytes.Buffer
		if err := gob.NewEncoder(&buf).Encode(P); err != nil {
			return val.A("EncodeFailed")
		}
		var back crypto.ECPoint
		if err := gob.NewDecoder(&buf).Decode(&back); err != nil {
			return val.None
		}
		return val.Some(pointV(&back))
	})
	// mta_run curve #session [skA: N lambda phi P Q] [NTA h1A h2A] [NTB h1B h2B] a b Bopt [randomness...]
	//   randomness: xA, [alice 4], betaPrm, xB, [bob 7]
	vc.Register("mta_run", func(a []val.V) val.V {
		ec := curveByName(val.AsAtom(a[0]))
		q := ec.Params().N
		session := sessBuf(a[1])
		k := val.AsInts(a[2])
		sk := paiSKObj(k)
		pk := &sk.PublicKey
		pa, pb := val.AsInts(a[3]), val.AsInts(a[4])
		av, bv := val.AsInt(a[5]), val.AsInt(a[6])
		var B *crypto.ECPoint
		if l, ok := a[7].(val.List); ok && len(l) == 2 {
			B = pointOf(ec, a[7])
			if B == nil {
				return val.Err
			}
		}
		rl := val.AsList(a[8])
		xA, ar := val.AsInt(rl[0]), val.AsInts(rl[1])
		betaPrm, xB, br := val.AsInt(rl[2]), val.AsInt(rl[3]), val.AsInts(rl[4])
		q3 := q3of(q)
		q5 := mul(q3, mul(q, q))
		q7 := mul(mul(q3, q3), q)
		// optional 10th argument: what happens to a ciphertext in transit (cA on its way to Bob / cB on its way back to Alice)
		tamper := "none"
		if len(a) > 9 {
			tamper = val.AsAtom(a[9])
		}
		alter := func(which string, c *big.Int) *big.Int {
			N2 := mul(pk.N, pk.N)
			switch tamper {
			case which + "-neg": // the integer -c (the hash of a proof transcript reads Bytes(), which drops the sign)
				return new(big.Int).Neg(c)
			case which + "-mirror": // N^2 - c
				return new(big.Int).Sub(N2, c)
			case which + "-plusN2": // c + N^2: the same residue, not in [0, N^2)
				return new(big.Int).Add(c, N2)
			case which + "+1":
				return add(c, 1)
			}
			return c
		}
		return withStream(func() val.V {
			cA, pfA, err := mta.AliceInit(ec, pk, av, pb[0], pb[1], pb[2],
				streamFor(d(xA, pk.N), d(ar[0], q3), d(ar[1], pk.N), d(ar[2], mul(q3, pb[0])), d(ar[3], mul(q, pb[0]))))
			if err != nil {
				return val.L(val.A("AliceInitErr"))
			}
			bobStream := streamFor(d(betaPrm, q5), d(xB, pk.N),
				d(br[0], q3), d(br[1], mul(q, pa[0])), d(br[2], mul(q, pa[0])), d(br[3], mul(q3, pa[0])), d(br[4], mul(q3, pa[0])), d(br[5], pk.N), d(br[6], q7))
			var beta, cB *big.Int
			var alpha *big.Int
			cA = alter("cA", cA)
			if B == nil {
				var pfB *mta.ProofBob
				beta, cB, _, pfB, err = mta.BobMid(session, ec, pk, pfA, bv, cA, pa[0], pa[1], pa[2], pb[0], pb[1], pb[2], bobStream)
				if err != nil {
					return val.L(val.A("BobMidErr"), val.I(cA))
				}
				cB = alter("cB", cB)
				alpha, err = mta.AliceEnd(session, ec, pk, pfB, pa[1], pa[2], cA, cB, pa[0], sk)
			} else {
				var pfB *mta.ProofBobWC
				beta, cB, _, pfB, err = mta.BobMidWC(session, ec, pk, pfA, bv, cA, pa[0], pa[1], pa[2], pb[0], pb[1], pb[2], B, bobStream)
				if err != nil {
					return val.L(val.A("BobMidErr"), val.I(cA))
				}
				cB = alter("cB", cB)
				alpha, err = mta.AliceEndWC(session, ec, pk, pfB, B, cA, cB, pa[0], pa[1], pa[2], sk)
			}
			if err != nil {
				return val.L(val.A("AliceEndErr"), val.I(cA), val.I(cB))
			}
			return val.L(val.A("Done"), val.I(cA), val.I(cB), val.I(alpha), val.I(beta))
		})
	})
	_ = common.ModInt
}
