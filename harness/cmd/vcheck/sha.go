package main

import "crypto/sha512"

func sha512sum(b []byte) []byte { h := sha512.Sum512(b); return h[:] }
