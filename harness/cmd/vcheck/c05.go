package main

import (
	"crypto/elliptic"
	"crypto/sha256"
	"encoding/hex"
	"encoding/json"
	"fmt"
	"github.com/bnb-chain/tss-lib/v2/crypto/commitments"
	"math/big"
	"math/rand"
	"os"
	"os/exec"
	"path/filepath"
	"sort"
	"strings"
	"time"

	"github.com/bnb-chain/tss-lib/v2/common"
	ecdsakeygen "github.com/bnb-chain/tss-lib/v2/ecdsa/keygen"
	eddsakeygen "github.com/bnb-chain/tss-lib/v2/eddsa/keygen"
	"github.com/bnb-chain/tss-lib/v2/tss"
	"google.golang.org/protobuf/proto"
	"google.golang.org/protobuf/reflect/protoreflect"
	"google.golang.org/protobuf/types/known/anypb"

	"verif/harness/internal/sched"
	"verif/harness/internal/vc"
)

func init() {
	gens["C05"] = func(r *vc.Run) { genFaults(r, "C05") }
}

type fault struct {
	Proto    string `json:"proto"`
	Deviator string `json:"deviator"`
	Type     string `json:"type"`
	Field    string `json:"field"`
	Index    int    `json:"index"`
	Kind     string `json:"kind"`
}

func (f fault) String() string {
	return fmt.Sprintf("fault %s deviator=%s type=%s field=%s[%d] kind=%s", f.Proto, f.Deviator, f.Type, f.Field, f.Index, f.Kind)
}

type faultResult struct {
	Fault     fault               `json:"fault"`
	Applied   int                 `json:"applied"`
	Finished  []string            `json:"finished"`
	Culprits  map[string][]string `json:"culprits"` // honest node -> culprit names of its first error
	ErrText   map[string]string   `json:"err_text"`
	BadOutput string              `json:"bad_output"`
	Erased    []string            `json:"erased"`
	Wall      float64             `json:"wall"`
	// recommit-torsion only: digests of the honest parties' outputs in the unaltered run and in the altered one (same seed)
	Baseline string `json:"baseline,omitempty"`
	Outcome  string `json:"outcome,omitempty"`
}

// outcomeDigest: what the honest parties emitted, as JSON (key data / signature data), in node order.
func outcomeDigest(rc *runCtx, deviator string) string {
	var sb strings.Builder
	for _, n := range rc.net.Nodes() {
		if n.Name == deviator {
			continue
		}
		n.Results()
		sb.WriteString(n.Name + ":")
		for _, x := range rc.results[n.Name] {
			b, _ := json.Marshal(x)
			sb.Write(b)
		}
		if len(n.Errs) > 0 {
			sb.WriteString(" error=" + n.Errs[0])
		}
		sb.WriteString("\n")
	}
	h := sha256.Sum256([]byte(sb.String()))
	return hex.EncodeToString(h[:8])
}

// torsionOpening: the opened list [randomness, x0, y0, ..., xt, yt] with the point of order two of the Edwards curve added to
// the LAST point ((x, y) + (0, -1) = (-x, -y)), and the commitment that opens to it.
func torsionOpening(d []*big.Int) ([]byte, [][]byte, bool) {
	if len(d) < 3 || len(d)%2 != 1 {
		return nil, nil, false
	}
	P := tss.Edwards().Params().P
	vals := make([]*big.Int, len(d)-1)
	copy(vals, d[1:])
	k := len(vals) - 2
	vals[k] = new(big.Int).Mod(new(big.Int).Neg(vals[k]), P)
	vals[k+1] = new(big.Int).Mod(new(big.Int).Neg(vals[k+1]), P)
	cmt := commitments.NewHashCommitmentWithRandomness(d[0], vals...)
	open := make([][]byte, len(cmt.D))
	for i, x := range cmt.D {
		open[i] = x.Bytes()
	}
	return cmt.C.Bytes(), open, true
}

// wireList reads a repeated bytes field of the content of a wire message.
func wireList(wire []byte, field string) []*big.Int {
	var a anypb.Any
	if proto.Unmarshal(wire, &a) != nil {
		return nil
	}
	m, err := a.UnmarshalNew()
	if err != nil {
		return nil
	}
	mr := m.ProtoReflect()
	fd := mr.Descriptor().Fields().ByName(protoreflect.Name(field))
	if fd == nil || !fd.IsList() {
		return nil
	}
	var out []*big.Int
	for i := 0; i < mr.Get(fd).List().Len(); i++ {
		out = append(out, new(big.Int).SetBytes(mr.Get(fd).List().Get(i).Bytes()))
	}
	return out
}

// alterField rewrites one field of the protobuf content inside an Any.
func alterField(wire []byte, field string, index int, kind string, rng *rand.Rand, donor []byte) ([]byte, bool) {
	var a anypb.Any
	if err := proto.Unmarshal(wire, &a); err != nil {
		return wire, false
	}
	m, err := a.UnmarshalNew()
	if err != nil {
		return wire, false
	}
	mr := m.ProtoReflect()
	fd := mr.Descriptor().Fields().ByName(protoreflect.Name(field))
	if fd == nil {
		return wire, false
	}
	var donorVal protoreflect.Value
	haveDonor := false
	if donor != nil {
		var da anypb.Any
		if proto.Unmarshal(donor, &da) == nil {
			if dm, err := da.UnmarshalNew(); err == nil {
				dfd := dm.ProtoReflect().Descriptor().Fields().ByName(protoreflect.Name(field))
				if dfd != nil && dm.ProtoReflect().Has(dfd) {
					donorVal = dm.ProtoReflect().Get(dfd)
					haveDonor = true
				}
			}
		}
	}
	mutate := func(b []byte, donorB []byte) []byte {
		switch kind {
		case "+1":
			x := new(big.Int).SetBytes(b)
			x.Add(x, big.NewInt(1))
			out := x.Bytes()
			if len(out) < len(b) {
				out = append(make([]byte, len(b)-len(out)), out...)
			}
			return out
		case "random":
			out := make([]byte, len(b))
			rng.Read(out)
			if len(out) > 0 && out[0] == 0 {
				out[0] = 1
			}
			return out
		case "other":
			if donorB != nil {
				return donorB
			}
			return b
		case "negate-p":
			// the other square root: p - y for a coordinate of the protocol's curve (the mirrored point)
			fp := tss.S256().Params().P
			if strings.Contains(string(a.TypeUrl), "eddsa") {
				fp = tss.Edwards().Params().P
			}
			x := new(big.Int).SetBytes(b)
			if x.Sign() == 0 || x.Cmp(fp) >= 0 {
				return b
			}
			return new(big.Int).Sub(fp, x).Bytes()
		case "negate":
			// the negation in the scalar group of the protocol's curve (q - v): a check that compares x coordinates only, or squares,
			// accepts it; left-padded to the original length
			ord := tss.S256().Params().N
			if strings.Contains(string(a.TypeUrl), "eddsa") {
				ord = tss.Edwards().Params().N
			}
			x := new(big.Int).SetBytes(b)
			if x.Sign() == 0 || x.Cmp(ord) >= 0 {
				return b
			}
			out := new(big.Int).Sub(ord, x).Bytes()
			if len(out) < len(b) {
				out = append(make([]byte, len(b)-len(out)), out...)
			}
			return out
		case "empty":
			return []byte{}
		case "zero-byte":
			return []byte{0}
		case "one":
			return []byte{1}
		case "huge":
			out := make([]byte, 4096)
			for i := range out {
				out[i] = 0xff
			}
			return out
		case "q":
			return tss.S256().Params().N.Bytes()
		case "2q":
			return new(big.Int).Lsh(tss.S256().Params().N, 1).Bytes()
		case "L":
			return tss.Edwards().Params().N.Bytes()
		case "2^256":
			return new(big.Int).Lsh(big.NewInt(1), 256).Bytes()
		}
		return b
	}
	if fd.IsList() {
		l := mr.Mutable(fd).List()
		if kind == "empty" && index < 0 {
			mr.Clear(fd)
		} else if kind == "drop-last" {
			if l.Len() > 0 {
				l.Truncate(l.Len() - 1)
			}
		} else if kind == "append" {
			l.Append(protoreflect.ValueOfBytes([]byte{1}))
		} else {
			if index >= l.Len() || index < 0 {
				return wire, false
			}
			var db []byte
			if haveDonor && donorVal.List().Len() > index {
				db = donorVal.List().Get(index).Bytes()
			}
			l.Set(index, protoreflect.ValueOfBytes(mutate(l.Get(index).Bytes(), db)))
		}
	} else if fd.Kind() == protoreflect.BytesKind {
		var db []byte
		if haveDonor {
			db = donorVal.Bytes()
		}
		mr.Set(fd, protoreflect.ValueOfBytes(mutate(mr.Get(fd).Bytes(), db)))
	} else {
		return wire, false
	}
	na, err := anypb.New(m)
	if err != nil {
		return wire, false
	}
	out, err := proto.Marshal(na)
	if err != nil {
		return wire, false
	}
	return out, true
}

// commit / de-commit message pairs: a deviator may commit to a list of its own choosing and later open it consistently
// (the hash matches), so every reader of a de-commitment must check the shape of what comes out.
type commitPair struct {
	commitType, commitField, openType, openField string
	values                                       int // number of committed values the protocol expects
}

var commitPairs = map[string][]commitPair{
	"ecdsa_signing": {{"SignRound1Message2", "commitment", "SignRound4Message", "de_commitment", 2},
		{"SignRound5Message", "commitment", "SignRound6Message", "de_commitment", 4},
		{"SignRound7Message", "commitment", "SignRound8Message", "de_commitment", 4}},
	"eddsa_signing":   {{"SignRound1Message", "commitment", "SignRound2Message", "de_commitment", 2}},
	"ecdsa_keygen":    {{"KGRound1Message", "commitment", "KGRound2Message2", "de_commitment", 4}},
	"eddsa_keygen":    {{"KGRound1Message", "commitment", "KGRound2Message2", "de_commitment", 4}},
	"ecdsa_resharing": {{"DGRound1Message", "v_commitment", "DGRound3Message2", "v_decommitment", 4}},
	"eddsa_resharing": {{"DGRound1Message", "v_commitment", "DGRound3Message2", "v_decommitment", 4}},
}

// recommitment returns the forged commitment and its consistent opening for a variant: short (one value fewer than expected),
// long (one more), none (no value), junk (the expected number of values, none of them a curve coordinate pair).
func recommitment(pair commitPair, variant string) ([]byte, [][]byte) {
	n := pair.values
	switch variant {
	case "short":
		n--
	case "long":
		n++
	case "none":
		n = 0
	}
	vals := make([]*big.Int, n)
	for i := range vals {
		vals[i] = big.NewInt(int64(1000 + i))
	}
	cmt := commitments.NewHashCommitmentWithRandomness(big.NewInt(424242), vals...)
	open := make([][]byte, len(cmt.D))
	for i, d := range cmt.D {
		open[i] = d.Bytes()
	}
	return cmt.C.Bytes(), open
}

// swapWireFields exchanges the values of pairs of fields (same kind) of a wire message.
func swapWireFields(wire []byte, pairs [][2]string) ([]byte, bool) {
	var a anypb.Any
	if err := proto.Unmarshal(wire, &a); err != nil {
		return wire, false
	}
	m, err := a.UnmarshalNew()
	if err != nil {
		return wire, false
	}
	mr := m.ProtoReflect()
	for _, pr := range pairs {
		f1 := mr.Descriptor().Fields().ByName(protoreflect.Name(pr[0]))
		f2 := mr.Descriptor().Fields().ByName(protoreflect.Name(pr[1]))
		if f1 == nil || f2 == nil || f1.IsList() != f2.IsList() {
			return wire, false
		}
		if f1.IsList() {
			var l1, l2 [][]byte
			for i := 0; i < mr.Get(f1).List().Len(); i++ {
				l1 = append(l1, append([]byte{}, mr.Get(f1).List().Get(i).Bytes()...))
			}
			for i := 0; i < mr.Get(f2).List().Len(); i++ {
				l2 = append(l2, append([]byte{}, mr.Get(f2).List().Get(i).Bytes()...))
			}
			mr.Clear(f1)
			mr.Clear(f2)
			for _, b := range l2 {
				mr.Mutable(f1).List().Append(protoreflect.ValueOfBytes(b))
			}
			for _, b := range l1 {
				mr.Mutable(f2).List().Append(protoreflect.ValueOfBytes(b))
			}
		} else {
			v1 := append([]byte{}, mr.Get(f1).Bytes()...)
			v2 := append([]byte{}, mr.Get(f2).Bytes()...)
			mr.Set(f1, protoreflect.ValueOfBytes(v2))
			mr.Set(f2, protoreflect.ValueOfBytes(v1))
		}
	}
	na, err := anypb.New(m)
	if err != nil {
		return wire, false
	}
	out, err := proto.Marshal(na)
	if err != nil {
		return wire, false
	}
	return out, true
}

// setWireField replaces one bytes / repeated-bytes field of a wire message.
func setWireField(wire []byte, field string, single []byte, list [][]byte) ([]byte, bool) {
	var a anypb.Any
	if err := proto.Unmarshal(wire, &a); err != nil {
		return wire, false
	}
	m, err := a.UnmarshalNew()
	if err != nil {
		return wire, false
	}
	mr := m.ProtoReflect()
	fd := mr.Descriptor().Fields().ByName(protoreflect.Name(field))
	if fd == nil {
		return wire, false
	}
	if fd.IsList() {
		mr.Clear(fd)
		l := mr.Mutable(fd).List()
		for _, b := range list {
			l.Append(protoreflect.ValueOfBytes(b))
		}
	} else {
		mr.Set(fd, protoreflect.ValueOfBytes(single))
	}
	na, err := anypb.New(m)
	if err != nil {
		return wire, false
	}
	out, err := proto.Marshal(na)
	if err != nil {
		return wire, false
	}
	return out, true
}

// fieldsOf lists (field, isList, length) of a wire message.
func fieldsOf(wire []byte) (string, []fieldInfo) {
	var a anypb.Any
	if proto.Unmarshal(wire, &a) != nil {
		return "", nil
	}
	m, err := a.UnmarshalNew()
	if err != nil {
		return "", nil
	}
	var out []fieldInfo
	fs := m.ProtoReflect().Descriptor().Fields()
	for i := 0; i < fs.Len(); i++ {
		fd := fs.Get(i)
		fi := fieldInfo{name: string(fd.Name())}
		if fd.IsList() {
			fi.list = true
			fi.n = m.ProtoReflect().Get(fd).List().Len()
		}
		out = append(out, fi)
	}
	return string(m.ProtoReflect().Descriptor().Name()), out
}

type fieldInfo struct {
	name string
	list bool
	n    int
}

// faultRunner builds one protocol run for fault injection and knows how to judge its outputs.
type faultRunner struct {
	proto  string
	build  func(seed int64) *runCtx
	judge  func(rc *runCtx, honest []*sched.Node) string // "" = every honest output is good
	erased func(rc *runCtx) []string
	cost   int // relative cost (1 = milliseconds, 100 = seconds)
}

func faultRunners() []faultRunner {
	var out []faultRunner
	// EdDSA keygen n=3,t=1
	// key generation: (3,1); shape 4 = (3,2), so that a dealer configured with t-1 still deals a polynomial of degree >= 1
	kgT := 1
	out = append(out, faultRunner{proto: "eddsa_keygen", cost: 1,
		build: func(seed int64) *runCtx {
			kgT = 1
			if faultShape == 4 {
				kgT = 2
			}
			return buildEdDSAKeygen(3, kgT, kgOpts{seed: fmt.Sprintf("f-%d", seed)})
		},
		judge: func(rc *runCtx, honest []*sched.Node) string { return judgeKeygen(rc, honest, "ed25519", kgT) }})
	out = append(out, faultRunner{proto: "eddsa_signing", cost: 1,
		build: func(seed int64) *runCtx {
			ks, pids := edKeys(3, 1, nil)
			return buildEdDSASign(ks[:3], subsetPIDs(pids, 3), 1, signOpts{msg: big.NewInt(5555), seed: fmt.Sprintf("f-%d", seed)})
		},
		judge: func(rc *runCtx, honest []*sched.Node) string {
			ks, _ := edKeys(3, 1, nil)
			return judgeEdDSASig(rc, honest, ks[0].EDDSAPub.X(), ks[0].EDDSAPub.Y())
		}})
	var edOld []*big.Int
	edNewT := 1
	out = append(out, faultRunner{proto: "eddsa_resharing", cost: 2,
		build: func(seed int64) *runCtx {
			edNewT = 1
			if faultShape == 3 {
				edNewT = 2
			}
			ks, pids := edKeys(3, 1, nil)
			old := []eddsakeygen.LocalPartySaveData{ks[0], ks[1]}
			edOld = nil
			for i := range old {
				old[i].Xi = new(big.Int).Set(old[i].Xi)
				edOld = append(edOld, old[i].Xi)
			}
			// committee shapes: 0 = 2 old -> 3 new; 1 = 3 old -> 2 new; 2 = 2 old -> 4 new (index bounds differ between the committees)
			switch faultShape {
			case 1:
				old = append(old, ks[2])
				old[2].Xi = new(big.Int).Set(old[2].Xi)
				edOld = append(edOld, old[2].Xi)
				return buildEdDSAReshareOpt(old, subsetPIDs(pids, 3), 3, 1, reshareOpts{newKeys: defaultKeys(2, 700), newT: 1, seed: fmt.Sprintf("f-%d", seed)}, false)
			case 2:
				return buildEdDSAReshareOpt(old, subsetPIDs(pids, 2), 3, 1, reshareOpts{newKeys: defaultKeys(4, 700), newT: 1, seed: fmt.Sprintf("f-%d", seed)}, false)
			case 3: // the threshold is raised: 2 old (t=1) -> 3 new (t'=2)
				return buildEdDSAReshareOpt(old, subsetPIDs(pids, 2), 3, 1, reshareOpts{newKeys: defaultKeys(3, 700), newT: 2, seed: fmt.Sprintf("f-%d", seed)}, false)
			}
			return buildEdDSAReshareOpt(old, subsetPIDs(pids, 2), 3, 1, reshareOpts{newKeys: defaultKeys(3, 700), newT: 1, seed: fmt.Sprintf("f-%d", seed)}, false)
		},
		judge: func(rc *runCtx, honest []*sched.Node) string {
			var hn []*sched.Node
			for _, n := range honest {
				if n.Comm == 'N' {
					hn = append(hn, n)
				}
			}
			return judgeKeygen(rc, hn, "ed25519", edNewT)
		},
		erased: func(rc *runCtx) []string {
			var out []string
			for i, x := range edOld {
				if x.Sign() == 0 {
					out = append(out, fmt.Sprintf("O%d", i))
				}
			}
			return out
		}})
	out = append(out, faultRunner{proto: "ecdsa_signing", cost: 100,
		build: func(seed int64) *runCtx {
			ks, pids := fixtures()
			return buildECDSASign(ks[:3], subsetPIDs(pids, 3), 2, signOpts{msg: big.NewInt(4242), seed: fmt.Sprintf("f-%d", seed)})
		},
		judge: func(rc *runCtx, honest []*sched.Node) string {
			ks, _ := fixtures()
			return judgeECDSASig(rc, honest, ks[0], big.NewInt(4242))
		}})
	ecKgT := 1
	out = append(out, faultRunner{proto: "ecdsa_keygen", cost: 400,
		build: func(seed int64) *runCtx {
			ecKgT = 1
			if faultShape == 4 {
				ecKgT = 2
			}
			return buildECDSAKeygen(3, ecKgT, kgOpts{seed: fmt.Sprintf("f-%d", seed)})
		},
		judge: func(rc *runCtx, honest []*sched.Node) string { return judgeKeygen(rc, honest, "secp256k1", ecKgT) }})
	var ecOld []*big.Int
	out = append(out, faultRunner{proto: "ecdsa_resharing", cost: 900,
		build: func(seed int64) *runCtx {
			ks, pids := fixtures()
			old := []ecdsakeygen.LocalPartySaveData{ks[0], ks[1], ks[2]}
			ecOld = nil
			for i := range old {
				old[i].Xi = new(big.Int).Set(old[i].Xi)
				ecOld = append(ecOld, old[i].Xi)
			}
			// committee shapes: 0 = 3 old -> 3 new; 1 = 3 old -> 2 new; 2 = 3 old -> 4 new
			nNew := []int{3, 2, 4}[faultShape%3]
			return buildECDSAReshareOpt(old, subsetPIDs(pids, 3), 5, 2, reshareOpts{newKeys: defaultKeys(nNew, 900), newT: 1, seed: fmt.Sprintf("f-%d", seed)}, false)
		},
		judge: func(rc *runCtx, honest []*sched.Node) string {
			var hn []*sched.Node
			for _, n := range honest {
				if n.Comm == 'N' {
					hn = append(hn, n)
				}
			}
			return judgeKeygen(rc, hn, "secp256k1", 1)
		},
		erased: func(rc *runCtx) []string {
			var out []string
			for i, x := range ecOld {
				if x.Sign() == 0 {
					out = append(out, fmt.Sprintf("O%d", i))
				}
			}
			return out
		}})
	return out
}

// judgeKeygen: every honest party that finished holds data consistent with the others and with itself.
func judgeKeygen(rc *runCtx, honest []*sched.Node, curve string, t int) string {
	ec := curveByName(curve)
	type kd struct {
		xi   *big.Int
		view pubView
		idx  int
	}
	var ds []kd
	for _, n := range honest {
		n.Results()
		for _, r := range rc.results[n.Name] {
			switch k := r.(type) {
			case *eddsakeygen.LocalPartySaveData:
				v := pubView{Ks: k.Ks, Pub: ptPair(k.EDDSAPub)}
				for _, b := range k.BigXj {
					v.BigXj = append(v.BigXj, ptPair(b))
				}
				ds = append(ds, kd{k.Xi, v, n.Idx})
			case *ecdsakeygen.LocalPartySaveData:
				v := pubView{Ks: k.Ks, Pub: ptPair(k.ECDSAPub)}
				for _, b := range k.BigXj {
					v.BigXj = append(v.BigXj, ptPair(b))
				}
				ds = append(ds, kd{k.Xi, v, n.Idx})
			}
		}
	}
	for i, d := range ds {
		if d.xi == nil {
			return fmt.Sprintf("honest party %d emitted key data without a secret share", d.idx)
		}
		if i > 0 && fmt.Sprint(d.view) != fmt.Sprint(ds[0].view) {
			return "two honest parties finished with different key data"
		}
		P := crypto2ScalarBaseMult(ec, d.xi)
		if P[0].Cmp(d.view.BigXj[d.idx][0]) != 0 || P[1].Cmp(d.view.BigXj[d.idx][1]) != 0 {
			return fmt.Sprintf("honest party %d finished with a share inconsistent with its public share point", d.idx)
		}
	}
	// if t+1 honest parties finished, their shares must interpolate to the group key
	if len(ds) >= t+1 {
		ids := make([]*big.Int, t+1)
		sh := make([]*big.Int, t+1)
		for i := 0; i <= t; i++ {
			ids[i] = ds[i].view.Ks[ds[i].idx]
			sh[i] = ds[i].xi
		}
		x := lagrangeSecret(ec.Params().N, ids, sh)
		if x.Sign() != 0 {
			P := crypto2ScalarBaseMult(ec, x)
			if P[0].Cmp(ds[0].view.Pub[0]) != 0 || P[1].Cmp(ds[0].view.Pub[1]) != 0 {
				return "the shares of the honest parties that finished do not interpolate to the group public key"
			}
		}
	}
	return ""
}

func judgeEdDSASig(rc *runCtx, honest []*sched.Node, px, py *big.Int) string {
	r := &vc.Run{}
	sr := &signRun{net: &sched.Net{New: nil}}
	for _, n := range honest {
		n.Results()
		for _, x := range rc.results[n.Name] {
			sr.sigs = append(sr.sigs, x.(*common.SignatureData))
		}
	}
	if len(sr.sigs) == 0 {
		return ""
	}
	sr.net.New = make([]*sched.Node, len(sr.sigs))
	eddsaOracles(r, sr, px, py, "")
	if len(r.Viol) > 0 {
		return r.Viol[0].What
	}
	return ""
}

func judgeECDSASig(rc *runCtx, honest []*sched.Node, key ecdsakeygen.LocalPartySaveData, m *big.Int) string {
	r := &vc.Run{Dist: map[string]int{}}
	sr := &signRun{net: &sched.Net{}}
	for _, n := range honest {
		n.Results()
		for _, x := range rc.results[n.Name] {
			sr.sigs = append(sr.sigs, x.(*common.SignatureData))
		}
	}
	if len(sr.sigs) == 0 {
		return ""
	}
	sr.net.New = make([]*sched.Node, len(sr.sigs))
	ecdsaOracles(r, sr, toECDSAPub(key), m, 0, "", nil)
	if len(r.Viol) > 0 {
		return r.Viol[0].What
	}
	return ""
}

// runFault executes one fault and summarises what the honest parties did.
// faultShape selects the committee sizes of the resharing runners (set per fault, read by build).
var faultShape int

func runFault(fr faultRunner, f fault, seed int64) faultResult {
	t0 := time.Now()
	faultShape = 0
	if f.Field == "inject" {
		// injected messages probe index bounds: use committees of different sizes, in both directions
		faultShape = 1 + int(seed%2)
	}
	if f.Kind == "index-sweep" {
		faultShape = f.Index
	}
	if f.Kind == "recommit-torsion" {
		faultShape = 3 // resharing: the new threshold is above the old one
	}
	if f.Kind == "config-threshold-1" && strings.HasSuffix(f.Proto, "keygen") {
		faultShape = 4 // key generation with t = 2: the deviator's t-1 is still a usable threshold
	}
	shape := faultShape
	// recommit-torsion, first pass: the same run (same seed, so the same values) unaltered, to learn what the deviator will open
	// and what the honest parties emit
	var torsionC []byte
	var torsionD [][]byte
	var torsionOrig []*big.Int
	baseline := ""
	if f.Kind == "recommit-torsion" {
		rc0 := fr.build(seed)
		rc0.net.Rng = rand.New(rand.NewSource(seed))
		for _, pair := range commitPairs[f.Proto] {
			if pair.commitType != f.Type {
				continue
			}
			rc0.net.Tamper = func(c *sched.Copy) {
				if c.From.Name == f.Deviator && c.Type == pair.openType && torsionOrig == nil {
					torsionOrig = wireList(c.Wire, pair.openField)
				}
			}
		}
		rc0.net.Run(sched.FIFO, 200000)
		baseline = outcomeDigest(rc0, f.Deviator)
		if torsionOrig != nil {
			torsionC, torsionD, _ = torsionOpening(torsionOrig)
		}
		faultShape = shape
	}
	if strings.HasPrefix(f.Kind, "config-threshold") {
		// the deviator runs the honest code with a threshold one above / below the agreed one (it deals a polynomial of another degree)
		cfgDeviator, cfgThresholdDelta = f.Deviator, 1
		if strings.HasSuffix(f.Kind, "-1") {
			cfgThresholdDelta = -1
		}
	}
	if strings.HasSuffix(f.Kind, "@conc1") {
		cfgConcurrency = 1
	}
	rc := fr.build(seed)
	cfgConcurrency = 0
	cfgDeviator, cfgThresholdDelta = "", 0
	faultShape = 0
	net := rc.net
	net.Rng = rand.New(rand.NewSource(seed))
	rng := rand.New(rand.NewSource(seed * 31))
	res := faultResult{Fault: f, Culprits: map[string][]string{}, ErrText: map[string]string{}}
	if f.Kind == "index-sweep" {
		// one honest run to collect one wire of every message type, then every wire is offered to every party of a FRESH
		// set of parties (not started: the message is validated and filed, nothing is computed) under every sender index
		// from 0 to two beyond the larger committee, as broadcast and as point-to-point, from both committees' identities
		type rec struct {
			wire  []byte
			bcast bool
			from  *tss.PartyID
		}
		wires := map[string]rec{}
		net.Tamper = func(c *sched.Copy) {
			if _, ok := wires[c.Type]; !ok {
				wires[c.Type] = rec{append([]byte{}, c.Wire...), c.Bcast, c.From.PID}
			}
		}
		net.Run(sched.FIFO, 200000)
		faultShape = shape
		fresh := fr.build(seed + 1)
		faultShape = 0
		max := len(fresh.net.Old)
		if len(fresh.net.New) > max {
			max = len(fresh.net.New)
		}
		var tnames []string
		for t := range wires {
			tnames = append(tnames, t)
		}
		sort.Strings(tnames)
		for _, n := range fresh.net.Nodes() {
			for _, t := range tnames {
				w := wires[t]
				for idx := 0; idx <= max+2; idx++ {
					pid := tss.NewPartyID(w.from.Id, w.from.Moniker, w.from.KeyInt())
					pid.Index = idx
					_, _ = n.Party.UpdateFromBytes(w.wire, pid, w.bcast)
					_, _ = n.Party.UpdateFromBytes(w.wire, pid, !w.bcast)
					res.Applied += 2
				}
			}
			_ = n.Party.WaitingFor()
		}
		res.Wall = time.Since(t0).Seconds()
		return res
	}
	seen := map[string][]byte{} // last wire per "type/sender/recipient-independent"
	// "@late": one honest party (the first that is not the deviator) calls Start only when nothing else can happen, so the
	// first-round messages - the altered one among them - are already in its inbox and are replayed by Start itself
	lateVictim := ""
	if strings.HasSuffix(f.Kind, "@late") {
		for _, n := range net.Nodes() {
			if n.Name != f.Deviator && (n.Comm == 'N' || len(net.Old) == 0 || !strings.HasPrefix(f.Deviator, "O")) {
				lateVictim = n.Name
				break
			}
		}
	}
	altered := map[string][]byte{} // original wire -> altered wire: every copy of one broadcast is altered identically (no equivocation)
	injected := false
	net.Tamper = func(c *sched.Copy) {
		key := c.Type + "/" + c.From.Name
		if f.Field == "inject" {
			if !injected && c.From.Name == f.Deviator && c.Type == f.Type {
				injected = true
				res.Applied++
				inject(net, c, f.Kind, rng)
			}
			return
		}
		if strings.HasPrefix(f.Kind, "config-") {
			res.Applied = 1
			return
		}
		if strings.HasPrefix(f.Kind, "recommit-") {
			if c.From.Name != f.Deviator {
				return
			}
			for _, pair := range commitPairs[f.Proto] {
				if pair.commitType != f.Type {
					continue
				}
				if f.Kind == "recommit-torsion" {
					if torsionC == nil {
						return
					}
					if c.Type == pair.commitType {
						if nw, ok := setWireField(c.Wire, pair.commitField, torsionC, nil); ok {
							c.Wire = nw
							res.Applied++
						}
					}
					if c.Type == pair.openType {
						// only if this run really is the same run as the first pass
						now := wireList(c.Wire, pair.openField)
						same := len(now) == len(torsionOrig)
						for i := range now {
							same = same && now[i].Cmp(torsionOrig[i]) == 0
						}
						if !same {
							res.Applied = -1000
							return
						}
						if nw, ok := setWireField(c.Wire, pair.openField, nil, torsionD); ok {
							c.Wire = nw
							res.Applied++
						}
					}
					continue
				}
				fc, fo := recommitment(pair, strings.TrimPrefix(f.Kind, "recommit-"))
				if c.Type == pair.commitType {
					if nw, ok := setWireField(c.Wire, pair.commitField, fc, nil); ok {
						c.Wire = nw
						res.Applied++
					}
				}
				if c.Type == pair.openType {
					if nw, ok := setWireField(c.Wire, pair.openField, nil, fo); ok {
						c.Wire = nw
						res.Applied++
					}
				}
			}
			return
		}
		if strings.HasSuffix(f.Kind, "@same") && c.To.Idx != idxOfName(f.Deviator) {
			seen[key] = c.Wire
			return
		}
		if lateVictim != "" && !c.Bcast && c.From.Name == f.Deviator && c.Type == f.Type && c.To.Name != lateVictim {
			// a point-to-point message: only the copy for the late starter is altered, so the other honest parties go on
			// and their next-round messages reach the party whose Start has failed
			return
		}
		if strings.HasSuffix(f.Kind, "@last") && c.From.Name == f.Deviator && c.Type == f.Type {
			peers := net.New
			if c.To.Comm == 'O' {
				peers = net.Old
			}
			var last *sched.Node
			for _, n := range peers {
				if n.Name != f.Deviator {
					last = n
				}
			}
			if c.To != last {
				return
			}
		}
		if c.From.Name == f.Deviator && c.Type == f.Type && !c.Dup {
			if aw, ok := altered[string(c.Wire)]; ok {
				c.Wire = aw
				res.Applied++
				c.Dup = true
				return
			}
			orig := string(c.Wire)
			defer func() { altered[orig] = c.Wire }()
			// the donor is the same-type message of the peer with the highest name (deterministic; for mirroring this makes a
			// deviator with a lower index copy a peer with a higher one whenever there is one)
			var donor []byte
			donorKey := ""
			for k, w := range seen {
				if strings.HasPrefix(k, c.Type+"/") && k != key && k > donorKey {
					donor, donorKey = w, k
				}
			}
			if f.Kind == "mirror-swap" {
				// the donor with the LOWEST name (so that the deviator's copy is examined after the original), with the two
				// ring-Pedersen generators and their two session-less DLN proofs exchanged: still the donor's own valid proofs
				var low []byte
				lowKey := ""
				for k, w := range seen {
					if strings.HasPrefix(k, c.Type+"/") && k != key && (lowKey == "" || k < lowKey) {
						low, lowKey = w, k
					}
				}
				if low != nil {
					if nw, ok := swapWireFields(low, [][2]string{{"h1", "h2"}, {"dlnproof_1", "dlnproof_2"}}); ok {
						c.Wire = nw
						res.Applied++
					}
				}
			} else if f.Kind == "mirror" {
				if donor != nil {
					c.Wire = donor
					res.Applied++
				}
			} else if nw, ok := alterField(c.Wire, f.Field, f.Index, strings.TrimSuffix(strings.TrimSuffix(strings.TrimSuffix(strings.TrimSuffix(f.Kind, "@same"), "@last"), "@late"), "@conc1"), rng, donor); ok {
				c.Wire = nw
				res.Applied++
			}
			c.Dup = true // mark as processed (Tamper is called once per delivery)
		} else {
			seen[key] = c.Wire
		}
	}
	// deviator's messages are delivered last within each round, so that a donor message is available
	net.Run(func(n *sched.Net, un []*sched.Node) int {
		if lateVictim != "" {
			for k, u := range un {
				if u.Name != lateVictim {
					return -k - 1
				}
			}
			if len(un) > 0 && len(n.Pending) == 0 {
				return -1
			}
		} else if len(un) > 0 {
			return -1
		}
		for i, c := range n.Pending {
			if c.From.Name != f.Deviator {
				return i
			}
		}
		return 0
	}, 200000)
	var honest []*sched.Node
	for _, n := range net.Nodes() {
		if n.Name == f.Deviator {
			continue
		}
		honest = append(honest, n)
		if n.Results() > 0 {
			res.Finished = append(res.Finished, n.Name)
		}
		if len(n.Culprits) > 0 {
			res.Culprits[n.Name] = n.Culprits[0]
			res.ErrText[n.Name] = n.Errs[0]
		} else if len(n.Errs) > 0 {
			res.Culprits[n.Name] = []string{}
			res.ErrText[n.Name] = n.Errs[0]
		}
	}
	res.BadOutput = fr.judge(rc, honest)
	if f.Kind == "recommit-torsion" {
		res.Baseline, res.Outcome = baseline, outcomeDigest(rc, f.Deviator)
	}
	if fr.erased != nil {
		res.Erased = fr.erased(rc)
	}
	res.Wall = time.Since(t0).Seconds()
	return res
}

func idxOfName(name string) int {
	var i int
	fmt.Sscanf(name[1:], "%d", &i)
	return i
}

// inject hands the recipient of c something it must survive, just before c itself is delivered.
func inject(net *sched.Net, c *sched.Copy, kind string, rng *rand.Rand) {
	victim := c.To
	call := func(wire []byte, from *tss.PartyID, bcast bool) {
		_, _ = victim.Party.UpdateFromBytes(wire, from, bcast)
		_ = victim.Party.WaitingFor()
	}
	withIndex := func(idx int) *tss.PartyID {
		p := tss.NewPartyID(c.From.PID.Id, c.From.PID.Moniker, c.From.PID.KeyInt())
		p.Index = idx
		return p
	}
	switch kind {
	case "foreign-type":
		// a well-formed message of another protocol
		var m tss.ParsedMessage
		if net.Proto == "eddsa_signing" {
			m = eddsakeygenMsg(c.From.PID)
		} else {
			m = eddsasignMsg(c.From.PID)
		}
		w, _, _ := m.WireBytes()
		call(w, c.From.PID, true)
	case "sender-oor":
		nOld, nNew := len(net.Old), len(net.New)
		for _, idx := range []int{nOld, nNew, nOld + 1, nNew + 1, nOld + nNew, 1000} {
			call(c.Wire, withIndex(idx), c.Bcast)
		}
	case "sender-oor-all-types":
		// every message type seen so far, offered with every index from 0 to max+2
		for idx := 0; idx <= len(net.Old)+len(net.New)+2; idx++ {
			call(c.Wire, withIndex(idx), c.Bcast)
			call(c.Wire, withIndex(idx), !c.Bcast)
		}
	case "garbage":
		for _, n := range []int{0, 1, 7, 64, 300} {
			b := make([]byte, n)
			rng.Read(b)
			call(b, c.From.PID, true)
		}
		for _, cut := range []int{1, len(c.Wire) / 2, len(c.Wire) - 1} {
			if cut > 0 && cut < len(c.Wire) {
				call(c.Wire[:cut], c.From.PID, c.Bcast)
			}
		}
		for k := 0; k < 8; k++ {
			w := append([]byte{}, c.Wire...)
			w[rng.Intn(len(w))] ^= byte(1 << uint(rng.Intn(8)))
			call(w, c.From.PID, c.Bcast)
		}
	}
}

// enumerateFaults lists the fault space of a protocol by observing one honest run.
func enumerateFaults(fr faultRunner, kinds []string, deviators []string, sampleIdx int) []fault {
	rc := fr.build(1)
	net := rc.net
	net.Rng = rand.New(rand.NewSource(1))
	types := map[string][]fieldInfo{}
	senders := map[string]map[string]bool{}
	p2pTypes := map[string]bool{}
	net.Tamper = func(c *sched.Copy) {
		if !c.Bcast {
			p2pTypes[c.Type] = true
		}
		if _, ok := types[c.Type]; !ok {
			_, fs := fieldsOf(c.Wire)
			types[c.Type] = fs
		}
		if senders[c.Type] == nil {
			senders[c.Type] = map[string]bool{}
		}
		senders[c.Type][c.From.Name] = true
	}
	net.Run(sched.FIFO, 200000)
	// the message types of the first round: the lowest type indices that were seen (the first one, and the second when it comes
	// from the same round: a point-to-point / broadcast pair)
	firstRound := map[string]bool{}
	for i, t := range net.Types {
		if _, seen := types[t]; seen {
			firstRound[t] = true
			if i+1 < len(net.Types) && strings.TrimRight(t, "12") == strings.TrimRight(net.Types[i+1], "12") && strings.HasSuffix(t, "1") {
				firstRound[net.Types[i+1]] = true
			}
			break
		}
	}
	var tnames []string
	for t := range types {
		tnames = append(tnames, t)
	}
	sort.Strings(tnames)
	var out []fault
	for _, d := range deviators {
		for _, t := range tnames {
			if !senders[t][d] {
				continue
			}
			for _, fi := range types[t] {
				idxs := []int{0}
				if fi.list {
					idxs = []int{0}
					if fi.n > 2 {
						idxs = append(idxs, fi.n/2, fi.n-1)
					} else if fi.n == 2 {
						idxs = append(idxs, 1)
					}
					if sampleIdx > 0 {
						for k := 0; k < sampleIdx && fi.n > 3; k++ {
							idxs = append(idxs, (k*37+3)%fi.n)
						}
					}
					if fi.n == 0 {
						continue
					}
				}
				for _, ix := range idxs {
					for _, k := range kinds {
						out = append(out, fault{fr.proto, d, t, fi.name, ix, k})
					}
				}
				if fi.list && strings.HasPrefix(fi.name, "dlnproof") && len(kinds) > 0 {
					// an undecodable DLN proof (the length prefix altered) met by parties that verify one proof at a time
					out = append(out, fault{fr.proto, d, t, fi.name, 0, kinds[0] + "@conc1"})
				}
				if firstRound[t] && len(kinds) > 0 {
					// the same alteration met by a party that has not called Start yet (the message waits in its inbox)
					out = append(out, fault{fr.proto, d, t, fi.name, 0, kinds[0] + "@late"})
				}
				if p2pTypes[t] && !fi.list {
					out = append(out, fault{fr.proto, d, t, fi.name, 0, "+1@same"})
					// only the copy addressed to the highest-index recipient is altered: one honest party objects, all the others see a clean run
					out = append(out, fault{fr.proto, d, t, fi.name, 0, "+1@last"})
				}
				if fi.list {
					out = append(out, fault{fr.proto, d, t, fi.name, -1, "empty"}, fault{fr.proto, d, t, fi.name, 0, "drop-last"}, fault{fr.proto, d, t, fi.name, 0, "append"})
				}
			}
			out = append(out, fault{fr.proto, d, t, "*", 0, "mirror"})
			if t == "KGRound1Message" && fr.proto == "ecdsa_keygen" || t == "DGRound2Message1" {
				out = append(out, fault{fr.proto, d, t, "*", 0, "mirror-swap"})
			}
			for _, k := range []string{"foreign-type", "sender-oor", "sender-oor-all-types", "garbage"} {
				out = append(out, fault{fr.proto, d, t, "inject", 0, k})
			}
		}
	}
	return out
}

func crypto2ScalarBaseMult(ec elliptic.Curve, k *big.Int) [2]*big.Int {
	x, y := ec.ScalarBaseMult(new(big.Int).Mod(k, ec.Params().N).Bytes())
	return [2]*big.Int{x, y}
}

// ---- child-process protocol: "vcheck faults <proto> <tier> <seed> <prop> <outfile> <startIndex>" ----
func faultList(fr faultRunner, tier, prop string) []fault {
	thorough := tier == "thorough"
	kinds := []string{"+1", "random", "other", "empty", "negate"}
	if prop == "C06" {
		kinds = []string{"zero-byte", "one", "huge", "q", "2q", "L", "2^256", "empty"}
	}
	devs := map[string][]string{
		"eddsa_keygen": {"N0", "N2"}, "eddsa_signing": {"N0", "N1"}, "eddsa_resharing": {"O0", "O1", "N0", "N2"},
		"ecdsa_signing": {"N1"}, "ecdsa_keygen": {"N1"}, "ecdsa_resharing": {"O1", "N1"},
	}
	if thorough {
		devs["ecdsa_signing"] = []string{"N0", "N1", "N2"}
		devs["ecdsa_keygen"] = []string{"N0", "N2"}
		devs["eddsa_keygen"] = []string{"N0", "N1", "N2"}
	}
	sample := 0
	if thorough {
		sample = 3
	}
	all0 := enumerateFaults(fr, kinds, devs[fr.proto], sample)
	var all []fault
	for _, f := range all0 {
		if prop == "C05" && f.Field == "inject" {
			continue
		}
		if prop == "C06" && strings.HasPrefix(f.Kind, "mirror") {
			continue
		}
		all = append(all, f)
	}
	if prop == "C06" {
		// index sweeps: one per committee shape (resharing has three shapes, the others one)
		shapes := []int{0}
		if strings.HasSuffix(fr.proto, "resharing") {
			shapes = []int{0, 1, 2}
		}
		var sw []fault
		for _, sh := range shapes {
			sw = append(sw, fault{fr.proto, "-", "*", "inject", sh, "index-sweep"})
		}
		all = append(sw, all...)
	}
	// consistent re-commitments of the deviator (both properties: no crash, and the deviator is the one blamed)
	var rec []fault
	for _, pair := range commitPairs[fr.proto] {
		for _, d := range devs[fr.proto] {
			if strings.HasSuffix(fr.proto, "resharing") && !strings.HasPrefix(d, "O") {
				continue // the dealing commitments come from the old committee
			}
			variants := []string{"short", "long", "none", "junk"}
			if !thorough && fr.cost >= 400 {
				variants = []string{"short", "none"}
			}
			for _, v := range variants {
				rec = append(rec, fault{fr.proto, d, pair.commitType, pair.commitField, 0, "recommit-" + v})
			}
			if strings.HasPrefix(fr.proto, "eddsa") {
				rec = append(rec, fault{fr.proto, d, pair.commitType, pair.commitField, 0, "recommit-torsion"})
			}
		}
	}
	if strings.HasSuffix(fr.proto, "keygen") || strings.HasSuffix(fr.proto, "resharing") {
		for _, d := range devs[fr.proto] {
			if strings.HasSuffix(fr.proto, "resharing") && !strings.HasPrefix(d, "O") {
				continue
			}
			rec = append(rec, fault{fr.proto, d, "-", "config", 0, "config-threshold+1"})
			if thorough || fr.cost <= 400 {
				rec = append(rec, fault{fr.proto, d, "-", "config", 0, "config-threshold-1"})
			}
		}
	}
	all = append(rec, all...)
	if thorough || fr.cost <= 2 {
		return all
	}
	// quick tier for the expensive protocols: a seeded stratified sample (every message type at least once)
	budget := map[int]int{100: 24, 400: 5, 900: 2}[fr.cost]
	if prop == "C06" {
		// the expensive protocols only get the injection faults of their first message type in the quick tier
		var inj []fault
		var firstInj *fault
		for _, f := range all {
			if f.Kind == "index-sweep" || strings.HasPrefix(f.Kind, "recommit-") || strings.HasPrefix(f.Kind, "config-") || (strings.HasSuffix(f.Kind, "@conc1") && fr.cost <= 400) {
				inj = append(inj, f)
				continue
			}
			if f.Field == "inject" && (firstInj == nil || firstInj.Type == f.Type && firstInj.Deviator == f.Deviator) {
				if firstInj == nil {
					ff := f
					firstInj = &ff
				}
				inj = append(inj, f)
			}
		}
		if fr.cost >= 400 {
			return inj
		}
	}
	var forced []fault
	for _, f := range all {
		if strings.HasSuffix(f.Kind, "@same") || strings.HasPrefix(f.Kind, "recommit-") || strings.HasPrefix(f.Kind, "config-") {
			forced = append(forced, f)
		}
		if strings.HasSuffix(f.Kind, "@late") && fr.cost <= 100 {
			forced = append(forced, f)
		}
		if strings.HasSuffix(f.Kind, "@conc1") && fr.cost <= 400 {
			forced = append(forced, f)
		}
		// the recorded known finding (duplicate h1/h2 blame) is re-confirmed on every run
		if prop == "C05" && f.Proto == "ecdsa_keygen" && f.Type == "KGRound1Message" && f.Kind == "mirror" {
			forced = append(forced, f)
		}
		// every recorded known finding is re-confirmed on every run: the single-field variants of the duplicate-h1/h2 blame ...
		if prop == "C05" && f.Kind == "other" && (f.Field == "h1" || f.Field == "h2") &&
			(f.Proto == "ecdsa_keygen" && f.Type == "KGRound1Message" || f.Proto == "ecdsa_resharing" && f.Type == "DGRound2Message1" && f.Deviator == "N1") {
			forced = append(forced, f)
		}
		// a replay with the generators and their proofs exchanged must be refused (the deviator is the later one here, so it is the one blamed)
		if prop == "C05" && f.Kind == "mirror-swap" && f.Deviator == "N1" {
			forced = append(forced, f)
		}
		// ... and the whole-message variant of the late factorisation-proof check
		if prop == "C05" && f.Proto == "ecdsa_resharing" && f.Type == "DGRound4Message1" && f.Deviator == "N1" && f.Kind == "mirror" {
			forced = append(forced, f)
		}
		// recorded known finding: factorisation proofs are verified after the ACKs (key loss with one deviating new member)
		if prop == "C05" && f.Proto == "ecdsa_resharing" && f.Type == "DGRound4Message1" && f.Deviator == "N1" && f.Field == "facProof" && f.Index == 0 && f.Kind == "+1" {
			forced = append(forced, f)
		}
		// the same pairwise check exists in ECDSA resharing round 4 (Gen/BlameSites.v pairwise_sites)
		if prop == "C05" && f.Proto == "ecdsa_resharing" && f.Type == "DGRound2Message1" && f.Kind == "mirror" {
			forced = append(forced, f)
		}
	}
	byType := map[string][]fault{}
	var order []string
	for _, f := range all {
		if _, ok := byType[f.Type]; !ok {
			order = append(order, f.Type)
		}
		byType[f.Type] = append(byType[f.Type], f)
	}
	var out []fault
	rng := rand.New(rand.NewSource(int64(len(all))*7 + seedOf(prop)))
	for len(out) < budget {
		progressed := false
		for _, t := range order {
			fs := byType[t]
			if len(fs) == 0 {
				continue
			}
			k := rng.Intn(len(fs))
			out = append(out, fs[k])
			byType[t] = append(fs[:k], fs[k+1:]...)
			progressed = true
			if len(out) >= budget {
				break
			}
		}
		if !progressed {
			break
		}
	}
	return append(forced, out...)
}

var faultSeed int64

func seedOf(prop string) int64 { return faultSeed + int64(len(prop)) }

func faultsChild(args []string) {
	protoName, tier, prop, outfile := args[0], args[1], args[3], args[4]
	fmt.Sscanf(args[2], "%d", &faultSeed)
	start := 0
	fmt.Sscanf(args[5], "%d", &start)
	var fr faultRunner
	for _, x := range faultRunners() {
		if x.proto == protoName {
			fr = x
		}
	}
	list := faultList(fr, tier, prop)
	if only := os.Getenv("VCHECK_ONLY_FAULT"); only != "" {
		// debugging aid: run only the faults whose description contains the given text
		var sel []fault
		for _, x := range list {
			if strings.Contains(x.String(), only) {
				sel = append(sel, x)
			}
		}
		list = sel
	}
	f, _ := os.OpenFile(outfile, os.O_APPEND|os.O_CREATE|os.O_WRONLY, 0o644)
	defer f.Close()
	for i := start; i < len(list); i++ {
		// progress marker first: if the process dies, the parent knows which fault killed it
		fmt.Fprintf(f, "START %d %s\n", i, mustJSON(list[i]))
		f.Sync()
		resCh := make(chan faultResult, 1)
		go func(i int) { resCh <- runFault(fr, list[i], faultSeed+int64(i)) }(i)
		limit := 30 * time.Second
		if fr.cost >= 100 {
			limit = 2 * time.Minute
		}
		select {
		case res := <-resCh:
			fmt.Fprintf(f, "DONE %d %s\n", i, mustJSON(res))
			f.Sync()
		case <-time.After(limit):
			fmt.Fprintf(f, "TIMEOUT %d\n", i)
			f.Sync()
			os.Exit(3)
		}
	}
	fmt.Fprintf(f, "END %d\n", len(list))
}

func mustJSON(v interface{}) string { b, _ := json.Marshal(v); return string(b) }

// mustBlame: (type, field) pairs whose alteration is covered by a commitment, share check or proof and must be attributed.
var mustBlame = map[string]bool{
	"KGRound2Message1/share": true, "KGRound2Message1/facProof": true, "KGRound2Message2/de_commitment": true, "KGRound2Message2/modProof": true,
	"KGRound2Message2/proof_alpha_x": true, "KGRound2Message2/proof_alpha_y": true, "KGRound2Message2/proof_t": true,
	"KGRound3Message/paillier_proof": true, "KGRound1Message/dlnproof_1": true, "KGRound1Message/dlnproof_2": true,
	"SignRound1Message1/range_proof_alice": true, "SignRound2Message/proof_bob": true, "SignRound2Message/proof_bob_wc": true,
	"SignRound4Message/de_commitment": true, "SignRound4Message/proof_t": true, "SignRound6Message/de_commitment": true,
	"SignRound6Message/proof_t": true, "SignRound6Message/v_proof_t": true, "SignRound6Message/v_proof_u": true,
	"SignRound2Message/de_commitment": true, "SignRound2Message/proof_t": true,
	"DGRound3Message1/share": true, "DGRound4Message1/facProof": true, "DGRound3Message2/v_decommitment": true,
}

func genFaults(r *vc.Run, prop string) {
	if prop == "C05" {
		r.Rule = "one deviating participant: for every protocol, deviator position, message type and field (sampled indices of repeated fields) a man-in-the-middle rewrites that field of every message of that type from the deviator with {+1, random same-size value, the corresponding value of another party's message, empty}, list truncation/extension, and whole-message mirroring; oracles on the honest parties: no bad output (signatures verify, key data consistent and equal), every reported culprit set is within {deviator}, covered fields (decommitments, shares, proofs) name exactly the deviator, in resharing an erased old share implies every honest new member finished; quick tier: all EdDSA faults, a stratified seeded sample for ECDSA; each case runs in a child process so that a panic in a library goroutine is observed"
	} else {
		r.Rule = "network-level crash injection: every field of every message type of every protocol replaced by boundary encodings {one zero byte, 1, 4 KiB of 0xff, q, 2q, L, 2^256, empty, truncated / extended lists}, foreign-protocol messages, out-of-range sender indices and mutated wire bytes delivered mid-protocol; the oracle is the property itself: the process survives, every call returns (watchdog), later deliveries are still processed"
	}
	self, _ := os.Executable()
	for _, fr := range faultRunners() {
		outfile := filepath.Join(r.Dir, fmt.Sprintf("faults-%s-%s.log", prop, fr.proto))
		os.Remove(outfile)
		start := 0
		total := -1
		// every crash or hang costs a child restart (a hang costs the watchdog's full period): after 6 of them in one protocol the
		// verdict is established and the remaining faults of that protocol are skipped
		for attempt := 0; attempt < 6; attempt++ {
			if attempt == 5 {
				r.Note("%s: 5 crashes/hangs observed, remaining faults of this protocol skipped", fr.proto)
			}
			cmd := exec.Command(self, "faults", fr.proto, r.Tier, fmt.Sprint(r.Seed), prop, outfile, fmt.Sprint(start))
			cmd.Env = os.Environ()
			var stderr strings.Builder
			cmd.Stderr = &stderr
			done := make(chan error, 1)
			_ = cmd.Start()
			go func() { done <- cmd.Wait() }()
			var err error
			timedOut := false
			// the child has its own per-fault watchdog; the parent is only the backstop for a child that stalls altogether
			// (no line written for 6 minutes). There is no limit on the total: on a loaded machine the thorough list of one
			// protocol can take more than an hour, and that is not a hang.
			lastSize, lastChange := int64(-1), time.Now()
		wait:
			for {
				select {
				case err = <-done:
					break wait
				case <-time.After(5 * time.Second):
					if st, e := os.Stat(outfile); e == nil && st.Size() != lastSize {
						lastSize, lastChange = st.Size(), time.Now()
					}
					if time.Since(lastChange) > 6*time.Minute {
						_ = cmd.Process.Kill()
						<-done
						timedOut = true
						break wait
					}
				}
			}
			lines := readLines(outfile)
			lastStart, lastDone := -1, -1
			var lastFault string
			for _, l := range lines {
				var i int
				if strings.HasPrefix(l, "START ") {
					fmt.Sscanf(l, "START %d", &i)
					lastStart = i
					lastFault = l[strings.Index(l, "{"):]
				} else if strings.HasPrefix(l, "DONE ") {
					fmt.Sscanf(l, "DONE %d", &i)
					lastDone = i
				} else if strings.HasPrefix(l, "END ") {
					fmt.Sscanf(l, "END %d", &total)
				}
			}
			if total >= 0 {
				break
			}
			if lastStart > lastDone {
				// the child died (or hung) inside fault lastStart
				var f fault
				_ = json.Unmarshal([]byte(lastFault), &f)
				what := "the process died (panic in a library goroutine)"
				if timedOut || strings.HasPrefix(lines[len(lines)-1], "TIMEOUT") {
					what = "a call never returned (hang / party mutex left locked)"
				}
				tail := stderr.String()
				if len(tail) > 1500 {
					tail = tail[:1500]
				}
				r.Violate(fmt.Sprintf("crash|%s|%s|%s|%s", f.Proto, f.Type, f.Field, f.Kind), fmt.Sprintf("%s: %s while honest parties processed %s", prop, what, f.String()), f.String(), tail)
				start = lastStart + 1
				continue
			}
			if err != nil && lastStart < 0 {
				r.Note("fault child for %s failed to start: %v %s", fr.proto, err, stderr.String())
				break
			}
			start = lastDone + 1
		}
		// judge the results
		for _, l := range readLines(outfile) {
			if !strings.HasPrefix(l, "DONE ") {
				continue
			}
			var res faultResult
			if json.Unmarshal([]byte(l[strings.Index(l, "{"):]), &res) != nil {
				continue
			}
			judgeFault(r, prop, res)
		}
	}
}

func readLines(path string) []string {
	b, err := os.ReadFile(path)
	if err != nil {
		return nil
	}
	return strings.Split(strings.TrimSpace(string(b)), "\n")
}

func judgeFault(r *vc.Run, prop string, res faultResult) {
	f := res.Fault
	cls := "completed"
	if len(res.Culprits) > 0 {
		cls = "aborted"
	}
	r.Dist[fmt.Sprintf("%s/%s/%s", f.Proto, f.Kind, cls)]++
	r.CountCase(f.String(), res.Applied > 0, fmt.Sprintf("%s => finished=%v culprits=%v", f.String(), res.Finished, res.Culprits))
	replay := f.String()
	if prop == "C06" {
		return // survival is the oracle; it was checked by the parent
	}
	if f.Kind == "config-threshold+1" && res.Applied > 0 {
		// a dealing of the wrong degree is covered by the share check: every honest party that examines it must name the dealer
		named := false
		for _, cs := range res.Culprits {
			for _, c := range cs {
				named = named || c == f.Deviator
			}
		}
		if !named {
			r.Violate(fmt.Sprintf("wrong-degree-dealing-accepted|%s", f.Proto), fmt.Sprintf("%s dealt a polynomial of degree t+1 (it runs the honest code with threshold t+1) and no honest party objected (%s)", f.Deviator, f.String()), replay)
		}
	}
	refusedThere := false
	for _, t := range res.ErrText {
		refusedThere = refusedThere || strings.Contains(t, f.Type)
	}
	if strings.HasPrefix(f.Kind, "mirror") && (f.Type == "KGRound1Message" && f.Proto == "ecdsa_keygen" || f.Type == "DGRound2Message1") && res.Applied > 0 && !refusedThere {
		r.Violate(fmt.Sprintf("replay-accepted|%s|%s|%s", f.Proto, f.Type, f.Kind), fmt.Sprintf("another participant's ring-Pedersen parameters and DLN proofs were replayed by %s and nobody objected (%s)", f.Deviator, f.String()), replay)
	}
	if f.Kind == "recommit-torsion" {
		// for C05 this is a tie: the defence the property rests on (the clearing map at the door) is not in force on this run; the
		// honest parties may still have named the deviator
		judgeTorsion(r, res, replay, "tie|")
	}
	if res.BadOutput != "" {
		r.Violate(fmt.Sprintf("bad-output|%s|%s|%s", f.Proto, f.Type, f.Field), fmt.Sprintf("an honest party produced a bad output under %s: %s", f.String(), res.BadOutput), replay)
	}
	for node, cs := range res.Culprits {
		for _, c := range cs {
			if c != f.Deviator && c != node {
				kind := f.Kind
				if kind == "mirror-swap" {
					// who is blamed by the duplicate check depends on whether the replaying party comes before or after the
					// party it copies (the lowest other index): the key names the deviator so that the two cases stay apart
					kind += "@" + f.Deviator
				}
				r.Violate(fmt.Sprintf("wrong-blame|%s|%s|%s|%s", f.Proto, f.Type, f.Field, kind), fmt.Sprintf("%s blames %v but the deviating party is %s (%s): %s", node, cs, f.Deviator, f.String(), res.ErrText[node]), replay)
			}
		}
		if mustBlame[f.Type+"/"+f.Field] && f.Kind != "other" {
			found := false
			for _, c := range cs {
				if c == f.Deviator {
					found = true
				}
			}
			if !found {
				r.Violate(fmt.Sprintf("blame-missing|%s|%s|%s", f.Proto, f.Type, f.Field), fmt.Sprintf("%s reports an error for a value covered by a commitment/share check/proof but does not name the deviating party %s (%v): %s", node, f.Deviator, cs, res.ErrText[node]), replay)
			}
		}
	}
	// resharing: an erased honest old share implies every honest new member finished
	if strings.HasSuffix(f.Proto, "resharing") && len(res.Erased) > 0 {
		for _, e := range res.Erased {
			if e == f.Deviator {
				continue
			}
			newFinished := 0
			for _, n := range res.Finished {
				if strings.HasPrefix(n, "N") {
					newFinished++
				}
			}
			honestNew := 3
			if strings.HasPrefix(f.Deviator, "N") {
				honestNew = 2
			}
			if newFinished < honestNew {
				r.Violate(fmt.Sprintf("reshare-key-loss|%s|%s|%s", f.Proto, f.Type, f.Field), fmt.Sprintf("honest old member %s erased its share but only %d of %d honest new members finished (%s)", e, newFinished, honestNew, f.String()), replay)
			}
		}
	}
}

// judgeTorsion: a deviation that consists only of a small-order component added to a committed point is removed at the door
// (every EdDSA round applies the cofactor-clearing map to every point it receives before any check): the honest parties must end
// exactly as in the unaltered run with the same seed - same outputs, no error.
func judgeTorsion(r *vc.Run, res faultResult, replay string, keyPrefix string) {
	f := res.Fault
	if res.Applied < 2 {
		if res.Applied < 0 {
			r.Note("%s: the second pass did not reproduce the first (different opening), case skipped", f.String())
		}
		return
	}
	if len(res.Culprits) > 0 || res.Outcome != res.Baseline {
		r.Violate(fmt.Sprintf("%storsion-not-cleared|%s|%s", keyPrefix, f.Proto, f.Type), fmt.Sprintf("a point of order two added to the last committed point of %s (commitment and opening consistent) changes the outcome for the honest parties: errors=%v, outputs %s vs %s in the unaltered run; the cofactor-clearing map at this door should have removed it", f.Deviator, res.ErrText, res.Outcome, res.Baseline), replay)
	}
}

// torsionRuns: the recommit-torsion faults of the EdDSA protocols, run in-process (C17: the message doors clear the cofactor).
func torsionRuns(r *vc.Run) {
	devs := map[string][]string{"eddsa_keygen": {"N0", "N2"}, "eddsa_signing": {"N1"}, "eddsa_resharing": {"O0", "O1"}}
	for _, fr := range faultRunners() {
		if !strings.HasPrefix(fr.proto, "eddsa") {
			continue
		}
		for _, pair := range commitPairs[fr.proto] {
			for di, d := range devs[fr.proto] {
				f := fault{fr.proto, d, pair.commitType, pair.commitField, 0, "recommit-torsion"}
				res := runFault(fr, f, r.Seed+int64(31+di))
				r.Dist["torsion-at-message-door/"+fr.proto]++
				r.CountCase(f.String(), res.Applied >= 2, fmt.Sprintf("%s => applied=%d culprits=%v same-outcome=%v", f.String(), res.Applied, res.Culprits, res.Outcome == res.Baseline))
				judgeTorsion(r, res, f.String(), "")
			}
		}
	}
}
