package main

import (
	"context"
	"fmt"
	"math/big"
	"time"

	"github.com/bnb-chain/tss-lib/v2/common"
	"github.com/bnb-chain/tss-lib/v2/crypto"
	"github.com/bnb-chain/tss-lib/v2/crypto/paillier"
	"github.com/bnb-chain/tss-lib/v2/tss"

	"verif/harness/internal/val"
	"verif/harness/internal/vc"
)

func init() {
	gens["C14"] = genC14
	gens["C13"] = genC13
	// pai_keygen bits seed -> [N lambda phi P Q] of a freshly generated key
	vc.OpTimeout["pai_keygen"] = 120 * time.Second
	vc.Register("pai_keygen", func(a []val.V) val.V {
		ctx, cancel := context.WithTimeout(context.Background(), 100*time.Second)
		defer cancel()
		sk, _, err := paillier.GenerateKeyPair(ctx, newDetRand(fmt.Sprintf("paikey-%s", a[1].String())), int(val.AsInt64(a[0])), 8)
		if err != nil {
			return val.Err
		}
		return val.Ok(skV(sk))
	})
}

// crtDecrypt is an independent decryption: m = L_p(c^(p-1) mod p^2) * h_p mod p combined by CRT (Paillier 1999, sec. 7).
func crtDecrypt(P, Q, c *big.Int) *big.Int {
	one := big.NewInt(1)
	N := mul(P, Q)
	g := add(N, 1)
	part := func(p *big.Int) *big.Int {
		p2 := mul(p, p)
		pm1 := new(big.Int).Sub(p, one)
		L := func(u *big.Int) *big.Int { return new(big.Int).Div(new(big.Int).Sub(u, one), p) }
		h := new(big.Int).ModInverse(L(new(big.Int).Exp(g, pm1, p2)), p)
		m := mul(L(new(big.Int).Exp(c, pm1, p2)), h)
		return m.Mod(m, p)
	}
	mp, mq := part(P), part(Q)
	// CRT
	qInv := new(big.Int).ModInverse(Q, P)
	t := new(big.Int).Sub(mp, mq)
	t.Mul(t, qInv).Mod(t, P)
	return new(big.Int).Add(mq, mul(t, Q))
}

func genC14(r *vc.Run) {
	r.Rule = "Paillier on the vendored 2048-bit keys and freshly generated small keys: m in {0,1,N-1,random} with the encryption unit fixed through the reader, homomorphic pairs/triples, every domain bound at -1/0/+1, ciphertexts sharing a factor with N; decryption cross-checked with an independent CRT implementation; generated keys checked for bit length, distinct safe primes far apart, lambda/phi; non-trivial = all cases"
	g := rng{r}
	keys, _ := fixtures()
	type kp struct {
		sk    *paillier.PrivateKey
		label string
	}
	var ks []kp
	for i := 0; i < r.Pick(2, 5); i++ {
		ks = append(ks, kp{keys[i].PaillierSK, fmt.Sprintf("fixture%d", i)})
	}
	// fresh small keys
	for i, bits := range []int{20, 22, 24, 28, 32, 40, 64, 128, 256} {
		if !r.Thorough() && i > 7 {
			break
		}
		reps := r.Pick(2, 6)
		if bits <= 40 {
			// tiny keys, many of them: the sieve's q += delta walk crosses a power of two often enough here for a size slip to show
			reps = r.Pick(40, 200)
		}
		for rep := 0; rep < reps; rep++ {
			ka := []val.V{val.I64(int64(bits)), val.I64(r.Seed*100 + int64(rep))}
			o, _ := vc.Exec("pai_keygen", ka)
			ol, ok := o.(val.List)
			if !ok || len(ol) != 2 {
				r.Violate("paillier-keygen-failed", "GenerateKeyPair failed: "+o.String(), vc.Line("pai_keygen", ka))
				continue
			}
			k := val.AsInts(ol[1])
			N, lam, phi, P, Q := k[0], k[1], k[2], k[3], k[4]
			r.Dist["keygen"]++
			bad := ""
			switch {
			case N.BitLen() != bits:
				bad = fmt.Sprintf("modulus has %d bits, requested %d", N.BitLen(), bits)
			case mul(P, Q).Cmp(N) != 0:
				bad = "N != P*Q"
			case P.Cmp(Q) == 0:
				bad = "P == Q"
			case !P.ProbablyPrime(30) || !Q.ProbablyPrime(30):
				bad = "P or Q is not prime"
			case !new(big.Int).Rsh(add(P, -1), 1).ProbablyPrime(30) || !new(big.Int).Rsh(add(Q, -1), 1).ProbablyPrime(30):
				bad = "P or Q is not a safe prime"
			case new(big.Int).Abs(new(big.Int).Sub(P, Q)).BitLen() < bits/2-3:
				bad = fmt.Sprintf("|P-Q| has only %d bits (primes not far apart)", new(big.Int).Abs(new(big.Int).Sub(P, Q)).BitLen())
			case mul(add(P, -1), add(Q, -1)).Cmp(phi) != 0:
				bad = "phi != (P-1)(Q-1)"
			case mul(lam, new(big.Int).GCD(nil, nil, add(P, -1), add(Q, -1))).Cmp(phi) != 0:
				bad = "lambda * gcd(P-1,Q-1) != phi"
			}
			if bad != "" {
				r.Violate("paillier-keygen-shape|"+bad[:8], "generated key: "+bad, vc.Line("pai_keygen", ka))
			}
			if rep < 2 && bits >= 32 {
				ks = append(ks, kp{&paillier.PrivateKey{PublicKey: paillier.PublicKey{N: N}, LambdaN: lam, PhiN: phi, P: P, Q: Q}, fmt.Sprintf("fresh%d", bits)})
			}
		}
	}
	for _, k := range ks {
		sk := k.sk
		N := sk.N
		N2 := mul(N, N)
		ms := []*big.Int{big.NewInt(0), big.NewInt(1), add(N, -1), g.below(N), g.below(N)}
		var cts []*big.Int
		seenC := map[string]bool{}
		for _, m := range ms {
			for rep := 0; rep < 2; rep++ {
				x := g.unit(N)
				ea := []val.V{val.I(N), val.I(m), val.I(x)}
				o := r.Case("encrypt/"+k.label, true, "pai_encrypt", ea...)
				c := val.AsInt(val.AsList(o)[1])
				if seenC[c.String()] {
					r.Violate("paillier-ciphertext-repeat", "two encryptions with different randomness give the same ciphertext", vc.Line("pai_encrypt", ea))
				}
				seenC[c.String()] = true
				if new(big.Int).GCD(nil, nil, c, N2).Cmp(big.NewInt(1)) != 0 || c.Sign() < 0 || c.Cmp(N2) >= 0 {
					r.Violate("paillier-cipher-not-unit", "ciphertext is not a unit modulo N^2", vc.Line("pai_encrypt", ea))
				}
				da := []val.V{skV(sk), val.I(c)}
				d := r.Case("decrypt/"+k.label, true, "pai_decrypt", da...)
				if d.String() != val.Ok(val.I(m)).String() {
					r.Violate("paillier-decrypt-wrong", "Decrypt(Encrypt(m)) != m: "+d.String(), vc.Line("pai_encrypt", ea), vc.Line("pai_decrypt", da))
				}
				if crt := crtDecrypt(sk.P, sk.Q, c); crt.Cmp(m) != 0 {
					r.Violate("paillier-crt-disagrees", "independent CRT decryption disagrees with the plaintext", vc.Line("pai_encrypt", ea))
				}
				cts = append(cts, c)
			}
		}
		// homomorphic laws on pairs / triples
		for i := 0; i+1 < len(cts); i += 2 {
			m1, m2 := ms[i/2], ms[(i/2+1)%len(ms)]
			c1, c2 := cts[i], cts[(i+2)%len(cts)]
			ha := []val.V{val.I(N), val.I(c1), val.I(c2)}
			s := r.Case("homo_add/"+k.label, true, "pai_homo_add", ha...)
			sd, _ := vc.Exec("pai_decrypt", []val.V{skV(sk), val.AsList(s)[1]})
			want := new(big.Int).Mod(new(big.Int).Add(m1, m2), N)
			if sd.String() != val.Ok(val.I(want)).String() {
				r.Violate("paillier-homo-add", "HomoAdd does not decrypt to the sum", vc.Line("pai_homo_add", ha))
			}
			kk := g.below(N)
			hm := []val.V{val.I(N), val.I(kk), val.I(c1)}
			p := r.Case("homo_mult/"+k.label, true, "pai_homo_mult", hm...)
			pd, _ := vc.Exec("pai_decrypt", []val.V{skV(sk), val.AsList(p)[1]})
			wantp := new(big.Int).Mod(mul(kk, m1), N)
			if pd.String() != val.Ok(val.I(wantp)).String() {
				r.Violate("paillier-homo-mult", "HomoMult does not decrypt to the product", vc.Line("pai_homo_mult", hm))
			}
			// triple: (c1 + c2) + c3 and k*(c1+c2)
			c3 := cts[(i+4)%len(cts)]
			s2, _ := vc.Exec("pai_homo_add", []val.V{val.I(N), val.AsList(s)[1], val.I(c3)})
			r.Case("homo_add3/"+k.label, true, "pai_decrypt", skV(sk), val.AsList(s2)[1])
		}
		// domain guards: just outside each bound must be refused with an error
		c0 := cts[0]
		outs := []struct {
			op   string
			args []val.V
			want string
		}{
			{"pai_encrypt", []val.V{val.I(N), val.I64(-1), val.I(big.NewInt(2))}, "Err"},
			{"pai_encrypt", []val.V{val.I(N), val.I(N), val.I(big.NewInt(2))}, "Err"},
			{"pai_encrypt", []val.V{val.I(N), val.I(add(N, 1)), val.I(big.NewInt(2))}, "Err"},
			{"pai_homo_mult", []val.V{val.I(N), val.I64(-1), val.I(c0)}, "Err"},
			{"pai_homo_mult", []val.V{val.I(N), val.I(N), val.I(c0)}, "Err"},
			{"pai_homo_mult", []val.V{val.I(N), val.I64(2), val.I(N2)}, "Err"},
			{"pai_homo_mult", []val.V{val.I(N), val.I64(2), val.I64(-1)}, "Err"},
			{"pai_homo_mult", []val.V{val.I(N), val.I(add(N, -1)), val.I(add(N2, -1))}, "ok"},
			{"pai_homo_add", []val.V{val.I(N), val.I(N2), val.I(c0)}, "Err"},
			{"pai_homo_add", []val.V{val.I(N), val.I(c0), val.I(add(N2, 1))}, "Err"},
			{"pai_homo_add", []val.V{val.I(N), val.I64(-1), val.I(c0)}, "Err"},
			{"pai_decrypt", []val.V{skV(sk), val.I(N2)}, "Err"},
			{"pai_decrypt", []val.V{skV(sk), val.I(add(N2, 1))}, "Err"},
			{"pai_decrypt", []val.V{skV(sk), val.I64(-1)}, "Err"},
			{"pai_decrypt", []val.V{skV(sk), val.I64(0)}, "Err"},
			{"pai_decrypt", []val.V{skV(sk), val.I(N)}, "Err"},
			{"pai_decrypt", []val.V{skV(sk), val.I(sk.P)}, "Err"},
			{"pai_decrypt", []val.V{skV(sk), val.I(sk.Q)}, "Err"},
			{"pai_decrypt", []val.V{skV(sk), val.I(mul(sk.Q, big.NewInt(12345)))}, "Err"},
			{"pai_decrypt", []val.V{skV(sk), val.I(mul(sk.P, g.below(N)))}, "Err"},
			{"pai_decrypt", []val.V{skV(sk), val.I(add(N2, -1))}, "ok"},
		}
		for _, o := range outs {
			obs := r.Case("domain/"+o.op, true, o.op, o.args...)
			if o.want == "Err" && obs.String() != "Err" {
				r.Violate("paillier-domain|"+o.op, o.op+" accepts an out-of-domain value: "+obs.String(), vc.Line(o.op, o.args))
			}
			if o.want == "ok" && obs.String() == "Err" {
				r.Violate("paillier-domain-overstrict|"+o.op, o.op+" refuses an in-domain value", vc.Line(o.op, o.args))
			}
		}
	}
}

func genC13(r *vc.Run) {
	r.Rule = "the full MtA exchange (AliceInit, BobMid / BobMidWC, AliceEnd / AliceEndWC) with all randomness fixed through the reader: a,b in {0,1,q-1,random}, ordered pairs of vendored parameter sets, with and without the public-point check, a wrong public point, and single alterations of cA and cB in transit; model and implementation must agree on cA, cB, alpha, beta; direct oracle alpha+beta = a*b mod q and rejection of altered ciphertexts; non-trivial = all cases"
	g := rng{r}
	keys, _ := fixtures()
	ec := tss.S256()
	q := ec.Params().N
	q3 := q3of(q)
	q5 := mul(q3, mul(q, q))
	q7 := mul(mul(q3, q3), q)
	np := r.Pick(2, 5)
	session := []byte("mta-session")
	for ai := 0; ai < np; ai++ {
		for bi := 0; bi < np; bi++ {
			if ai == bi {
				continue
			}
			kA, kB := keys[ai], keys[bi]
			N := kA.PaillierSK.N
			vals := []*big.Int{big.NewInt(0), big.NewInt(1), add(q, -1), g.below(q)}
			for _, av := range vals {
				for _, bv := range vals {
					if !r.Thorough() && (av.BitLen() > 1 && bv.BitLen() > 1 && av.Cmp(bv) == 0) {
						continue
					}
					rnd := func() val.V {
						return val.L(val.I(g.unit(N)),
							val.Ints([]*big.Int{g.below(q3), g.unit(N), g.below(mul(q3, kB.NTildei)), g.below(mul(q, kB.NTildei))}),
							val.I(g.below(q5)), val.I(g.unit(N)),
							val.Ints([]*big.Int{g.below(q3), g.below(mul(q, kA.NTildei)), g.below(mul(q, kA.NTildei)), g.below(mul(q3, kA.NTildei)), g.below(mul(q3, kA.NTildei)), g.unit(N), g.below(q7)}))
					}
					pa := val.Ints([]*big.Int{kA.NTildei, kA.H1i, kA.H2i})
					pb := val.Ints([]*big.Int{kB.NTildei, kB.H1i, kB.H2i})
					modes := []val.V{val.A("none")}
					if bv.Sign() != 0 {
						Bv, _ := vc.Exec("ec_base_mul", []val.V{val.A("secp256k1"), val.I(bv)})
						modes = append(modes, val.AsList(Bv)[1])
					}
					for mi, B := range modes {
						args := []val.V{val.A("secp256k1"), val.B(session), skV(kA.PaillierSK), pa, pb, val.I(av), val.I(bv), B, rnd()}
						o := r.Case(fmt.Sprintf("mta/wc=%v", mi == 1), true, "mta_run", args...)
						ol, ok := o.(val.List)
						if !ok || len(ol) != 5 || ol[0].String() != "Done" {
							r.Violate("mta-honest-failed", "an honest MtA exchange did not complete: "+o.String(), vc.Line("mta_run", args))
							continue
						}
						al, be := val.AsInt(ol[3]), val.AsInt(ol[4])
						sum := new(big.Int).Mod(new(big.Int).Add(al, be), q)
						if sum.Cmp(new(big.Int).Mod(mul(av, bv), q)) != 0 {
							r.Violate("mta-shares-wrong", "alpha + beta != a*b mod q", vc.Line("mta_run", args))
						}
					}
					// a ciphertext altered in transit (also to the negative integer, to the mirror N^2 - c, to c + N^2): never a completed exchange
					if av.BitLen() > 1 && bv.BitLen() > 1 || r.Thorough() {
						for _, tm := range []string{"cA-neg", "cB-neg", "cA-mirror", "cB-mirror", "cA-plusN2", "cB-plusN2", "cA+1", "cB+1"} {
							for mi, B := range modes {
								targs := []val.V{val.A("secp256k1"), val.B(session), skV(kA.PaillierSK), pa, pb, val.I(av), val.I(bv), B, rnd(), val.A(tm)}
								to := r.Case(fmt.Sprintf("mta/transit/%s/wc=%v", tm, mi == 1), true, "mta_run", targs...)
								if tl, ok := to.(val.List); ok && len(tl) > 0 && tl[0].String() == "Done" {
									r.Violate("mta-altered-ciphertext-accepted", "the exchange completes although a ciphertext was altered in transit ("+tm+")", vc.Line("mta_run", targs))
								}
							}
						}
					}
					// wrong public point: B' = (b+1)*G must be rejected by Alice
					Bw, _ := vc.Exec("ec_base_mul", []val.V{val.A("secp256k1"), val.I(add(bv, 1))})
					bwl, isl := Bw.(val.List)
					if !isl || len(bwl) != 2 {
						continue
					}
					wargs := []val.V{val.A("secp256k1"), val.B(session), skV(kA.PaillierSK), pa, pb, val.I(av), val.I(bv), bwl[1], rnd()}
					wo := r.Case("mta/wrong-point", true, "mta_run", wargs...)
					if wl, ok := wo.(val.List); ok && len(wl) > 0 && wl[0].String() == "Done" {
						r.Violate("mta-wrong-point-accepted", "Alice accepts Bob's proof although the public point is not b*G", vc.Line("mta_run", wargs))
					}
				}
			}
		}
	}
	// alterations of cA / cB in transit: verifier ops on a proof made for the original ciphertext
	insts := honestInstances(r, "c13")
	// several independent honest exchanges: an alteration such as cA -> N^2 - cA survives an even challenge only
	for k := 0; k < r.Pick(5, 12); k++ {
		for _, in := range honestInstances(r, fmt.Sprintf("c13-%d", k)) {
			if in.op == "alice_verify" || in.op == "bob_verify" || in.op == "bobwc_verify" {
				insts = append(insts, in)
			}
		}
	}
	for _, in := range insts {
		switch in.op {
		case "alice_verify":
			cA, N := val.AsInt(in.args[5]), val.AsInt(in.args[1])
			N2 := mul(N, N)
			alts := map[string]*big.Int{"+1": add(cA, 1), "-1": add(cA, -1), "negated": new(big.Int).Sub(N2, cA), "times-(N+1)": new(big.Int).Mod(mul(cA, add(N, 1)), N2), "squared": new(big.Int).Mod(mul(cA, cA), N2)}
			for name, v := range alts {
				args := substitute(in.args, leafPath{5}, val.I(v))
				o := r.Case("tamper/cA/"+name, true, in.op, args...)
				if o.String() == okb(true).String() {
					r.Violate("mta-altered-cA-accepted", "Bob accepts Alice's range proof for an altered ciphertext cA ("+name+")", vc.Line(in.op, args))
				}
			}
		case "bob_verify", "bobwc_verify":
			for _, pos := range []int{6, 7} {
				cv, N := val.AsInt(in.args[pos]), val.AsInt(in.args[2])
				N2 := mul(N, N)
				for _, v := range []*big.Int{add(cv, 1), add(cv, -1), new(big.Int).Sub(N2, cv), new(big.Int).Mod(mul(cv, add(N, 1)), N2)} {
					args := substitute(in.args, leafPath{pos}, val.I(v))
					o := r.Case(fmt.Sprintf("tamper/c%d", pos-5), true, in.op, args...)
					if o.String() == okb(true).String() {
						r.Violate("mta-altered-ciphertext-accepted", "Alice accepts Bob's proof for an altered ciphertext", vc.Line(in.op, args))
					}
				}
			}
		}
	}
	c13DishonestBob(r, g)
}

// c13DishonestBob: a Bob written here from Fig. 10 of the GG18 spec (math/big only) who multiplies by b but claims the public point X != b*G.
// He may pick his mask alpha freely (also 0 modulo q, where s1*G is the point at infinity) and any point U; Alice must reject every such response.
func c13DishonestBob(r *vc.Run, g rng) {
	keys, _ := fixtures()
	ec := tss.S256()
	q := ec.Params().N
	q3 := q3of(q)
	q5 := mul(q3, mul(q, q))
	q7 := mul(mul(q3, q3), q)
	session := []byte("mta-dishonest")
	kA := keys[0]
	N := kA.PaillierSK.N
	N2 := mul(N, N)
	nt, h1, h2 := kA.NTildei, kA.H1i, kA.H2i
	expm := func(b, e, m *big.Int) *big.Int { return new(big.Int).Exp(b, e, m) }
	mulm := func(a, b, m *big.Int) *big.Int { return new(big.Int).Mod(new(big.Int).Mul(a, b), m) }
	gamma := add(N, 1)
	enc := func(m, x *big.Int) *big.Int { return mulm(expm(gamma, m, N2), expm(x, N, N2), N2) }
	G := crypto.ScalarBaseMult(ec, big.NewInt(1))
	for _, bv := range []*big.Int{big.NewInt(0), big.NewInt(0), big.NewInt(1), g.below(q)} {
		for ai, alpha := range []*big.Int{mul(q, add(g.below(mul(q, q)), 1)), new(big.Int).Set(q), big.NewInt(0), g.below(q3)} {
			if ai == 2 && bv.Sign() != 0 {
				alpha = add(g.below(add(q, -1)), 1) // a unit, for the mirrored claim below
			}
			a := g.below(q)
			c1 := enc(a, g.unit(N))
			y, rB := g.below(q5), g.unit(N)
			c2 := mulm(expm(c1, bv, N2), enc(y, rB), N2)
			claimed := crypto.ScalarBaseMult(ec, add(bv, int64(5+ai))) // never b*G
			U := G
			if ai%2 == 1 {
				U = crypto.ScalarBaseMult(ec, add(g.below(add(q, -1)), 1))
			}
			// the mirrored claim: X = -b*G with U = -alpha*G (every x coordinate agrees with the honest transcript)
			if ai == 2 && bv.Sign() != 0 && new(big.Int).Mod(alpha, q).Sign() != 0 {
				claimed = crypto.ScalarBaseMult(ec, new(big.Int).Sub(q, new(big.Int).Mod(bv, q)))
				U = crypto.ScalarBaseMult(ec, new(big.Int).Sub(q, new(big.Int).Mod(alpha, q)))
			}
			control := bv.Sign() != 0 && ai == 3 && bv.BitLen() > 1 // the same Bob telling the truth: must be accepted (validates this forger)
			if control {
				claimed = crypto.ScalarBaseMult(ec, bv)
				U = crypto.ScalarBaseMult(ec, alpha)
			}
			rho, sigma := g.below(mul(q, nt)), g.below(mul(q, nt))
			tau, rhoP := g.below(mul(q3, nt)), g.below(mul(q3, nt))
			beta, gam := g.unit(N), g.below(q7)
			z := mulm(expm(h1, bv, nt), expm(h2, rho, nt), nt)
			zP := mulm(expm(h1, alpha, nt), expm(h2, rhoP, nt), nt)
			t := mulm(expm(h1, y, nt), expm(h2, sigma, nt), nt)
			v := mulm(mulm(expm(c1, alpha, N2), expm(gamma, gam, N2), N2), expm(beta, N, N2), N2)
			w := mulm(expm(h1, gam, nt), expm(h2, tau, nt), nt)
			e := common.RejectionSample(q, common.SHA512_256i_TAGGED(session, N, gamma, claimed.X(), claimed.Y(), c1, c2, U.X(), U.Y(), z, zP, t, v, w))
			s := mulm(expm(rB, e, N), beta, N)
			s1 := add(mul(e, bv), 0)
			s1.Add(s1, alpha)
			s2 := new(big.Int).Add(mul(e, rho), rhoP)
			t1 := new(big.Int).Add(mul(e, y), gam)
			t2 := new(big.Int).Add(mul(e, sigma), tau)
			args := []val.V{val.A("secp256k1"), val.B(session), val.I(N), val.I(nt), val.I(h1), val.I(h2), val.I(c1), val.I(c2),
				val.Ints([]*big.Int{z, zP, t, v, w, s, s1, s2, t1, t2}), pointV(U), pointV(claimed)}
			cls := "alpha-random"
			if new(big.Int).Mod(s1, q).Sign() == 0 {
				cls = "s1=0-mod-q"
			}
			if control {
				if o := r.Case("dishonest-bob/control-honest", true, "bobwc_verify", args...); o.String() != okb(true).String() {
					r.Note("the harness's own Bob is rejected when he tells the truth: %s", o.String())
				} else {
					r.Dist["dishonest-bob/control-accepted"]++
				}
				continue
			}
			o := r.Case("dishonest-bob/"+cls, true, "bobwc_verify", args...)
			if o.String() == okb(true).String() {
				r.Violate("mta-wrong-point-accepted", "Alice's verifier accepts a response whose public point is not b*G ("+cls+")", vc.Line("bobwc_verify", args))
			}
			// the adaptive variant: U chosen AFTER the challenge so that s1*G = e*X' + U holds for the wrong point X'
			// (works only if U does not enter the challenge)
			if new(big.Int).Mod(s1, q).Sign() != 0 {
				s1G := crypto.ScalarBaseMult(ec, new(big.Int).Mod(s1, q))
				eX := claimed.ScalarMult(new(big.Int).Mod(new(big.Int).Neg(e), q))
				if U2, err := s1G.Add(eX); err == nil {
					args2 := append([]val.V{}, args...)
					args2[9] = pointV(U2)
					o2 := r.Case("dishonest-bob/adaptive-U", true, "bobwc_verify", args2...)
					if o2.String() == okb(true).String() {
						r.Violate("mta-wrong-point-accepted", "Alice's verifier accepts a response whose public point is not b*G (U chosen after the challenge)", vc.Line("bobwc_verify", args2))
					}
				}
			}
		}
	}
}

// c11OverBound: provers written from the paper that tell the truth about everything but draw ONE mask from just outside
// its range, so that every equation of the verifier holds and exactly one bound (s1 <= q^3 or t1 <= q^7) is exceeded:
// alpha = q^3 + 1 gives s1 = e*x + alpha in (q^3, q^3 + q^2], gamma = q^7 + 1 gives t1 in (q^7, q^7 + q^6]. The bounds
// belong to the curve of the exchange: the cases run on secp256k1 first and then on NIST P-256 (a smaller order of the
// same bit length), each with an in-range control that must be accepted (it validates the forger).
func c11OverBound(r *vc.Run, g rng) {
	keys, _ := fixtures()
	kA := keys[0]
	N := kA.PaillierSK.N
	N2 := mul(N, N)
	nt, h1, h2 := kA.NTildei, kA.H1i, kA.H2i
	expm := func(b, e, m *big.Int) *big.Int { return new(big.Int).Exp(b, e, m) }
	mulm := func(a, b, m *big.Int) *big.Int { return new(big.Int).Mod(new(big.Int).Mul(a, b), m) }
	Gam := add(N, 1)
	enc := func(m, x *big.Int) *big.Int { return mulm(expm(Gam, m, N2), expm(x, N, N2), N2) }
	session := []byte("c11-over-bound")
	for _, cn := range []string{"secp256k1", "p256"} {
		ec := curveByName(cn)
		q := ec.Params().N
		q3 := q3of(q)
		q5 := mul(q3, mul(q, q))
		q7 := mul(mul(q3, q3), q)
		for _, variant := range []string{"control", "alpha=q3+1", "gamma=q7+1"} {
			// ---- Alice's range proof
			if variant != "gamma=q7+1" {
				m, rr := g.below(q), g.unit(N)
				c := enc(m, rr)
				alpha := g.below(q3)
				if variant != "control" {
					alpha = add(q3, 1)
				}
				beta, gamma, rho := g.unit(N), g.below(mul(q3, nt)), g.below(mul(q, nt))
				z := mulm(expm(h1, m, nt), expm(h2, rho, nt), nt)
				u := mulm(expm(Gam, alpha, N2), expm(beta, N, N2), N2)
				w := mulm(expm(h1, alpha, nt), expm(h2, gamma, nt), nt)
				e := common.RejectionSample(q, common.SHA512_256i(N, Gam, c, z, u, w))
				sv := mulm(expm(rr, e, N), beta, N)
				s1 := new(big.Int).Add(mul(e, m), alpha)
				s2 := new(big.Int).Add(mul(e, rho), gamma)
				args := []val.V{val.A(cn), val.I(N), val.I(nt), val.I(h1), val.I(h2), val.I(c), val.Ints([]*big.Int{z, u, w, sv, s1, s2})}
				o := r.Case("over-bound/alice/"+cn+"/"+variant, true, "alice_verify", args...)
				if variant == "control" && !accepted(o) {
					r.Note("the harness's own Alice is rejected when every mask is in range: %s", o.String())
				}
				if variant != "control" && accepted(o) {
					r.Violate("bound-not-enforced|alice_verify|S1|"+cn, "the range proof verifier accepts a transcript whose equations all hold and whose s1 exceeds q^3 of the exchange's curve", vc.Line("alice_verify", args))
				}
			}
			// ---- Bob's proof, with and without the public point
			bv := add(g.below(add(q, -1)), 1)
			a := g.below(q)
			c1 := enc(a, g.unit(N))
			y, rB := g.below(q5), g.unit(N)
			c2 := mulm(expm(c1, bv, N2), enc(y, rB), N2)
			alpha, gam := g.below(q3), g.below(q7)
			switch variant {
			case "alpha=q3+1":
				alpha = add(q3, 1)
			case "gamma=q7+1":
				gam = add(q7, 1)
			}
			X := crypto.ScalarBaseMult(ec, bv)
			U := crypto.ScalarBaseMult(ec, new(big.Int).Mod(alpha, q))
			rho, sigma := g.below(mul(q, nt)), g.below(mul(q, nt))
			tau, rhoP := g.below(mul(q3, nt)), g.below(mul(q3, nt))
			beta := g.unit(N)
			z := mulm(expm(h1, bv, nt), expm(h2, rho, nt), nt)
			zP := mulm(expm(h1, alpha, nt), expm(h2, rhoP, nt), nt)
			t := mulm(expm(h1, y, nt), expm(h2, sigma, nt), nt)
			v := mulm(mulm(expm(c1, alpha, N2), expm(Gam, gam, N2), N2), expm(beta, N, N2), N2)
			w := mulm(expm(h1, gam, nt), expm(h2, tau, nt), nt)
			for _, wc := range []bool{false, true} {
				var e *big.Int
				if wc {
					e = common.RejectionSample(q, common.SHA512_256i_TAGGED(session, N, Gam, X.X(), X.Y(), c1, c2, U.X(), U.Y(), z, zP, t, v, w))
				} else {
					e = common.RejectionSample(q, common.SHA512_256i_TAGGED(session, N, Gam, c1, c2, z, zP, t, v, w))
				}
				sv := mulm(expm(rB, e, N), beta, N)
				s1 := new(big.Int).Add(mul(e, bv), alpha)
				s2 := new(big.Int).Add(mul(e, rho), rhoP)
				t1 := new(big.Int).Add(mul(e, y), gam)
				t2 := new(big.Int).Add(mul(e, sigma), tau)
				pf := val.Ints([]*big.Int{z, zP, t, v, w, sv, s1, s2, t1, t2})
				op := "bob_verify"
				args := []val.V{val.A(cn), val.B(session), val.I(N), val.I(nt), val.I(h1), val.I(h2), val.I(c1), val.I(c2), pf}
				if wc {
					op = "bobwc_verify"
					args = append(args, pointV(U), pointV(X))
				}
				o := r.Case("over-bound/"+op+"/"+cn+"/"+variant, true, op, args...)
				if variant == "control" && !accepted(o) {
					r.Note("the harness's own Bob is rejected when every mask is in range: %s", o.String())
				}
				if variant != "control" && accepted(o) {
					r.Violate("bound-not-enforced|"+op+"|"+variant+"|"+cn, "Bob's proof verifier accepts a transcript whose equations all hold and in which one response exceeds its bound on the exchange's curve", vc.Line(op, args))
				}
			}
		}
	}
}
