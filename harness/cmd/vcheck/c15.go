package main

import (
	"fmt"
	"math/big"
	"strings"

	"verif/harness/internal/val"
	"verif/harness/internal/vc"
)

func init() {
	gens["C15"] = genC15
	gens["C17"] = genC17
}

func subsets(n int) [][]int {
	var out [][]int
	for m := 1; m < (1 << uint(n)); m++ {
		var s []int
		for i := 0; i < n; i++ {
			if m&(1<<uint(i)) != 0 {
				s = append(s, i)
			}
		}
		out = append(out, s)
	}
	return out
}

func genC15(r *vc.Run) {
	r.Rule = "Feldman VSS on secp256k1 and edwards25519 with dealer coefficients fixed through the reader: (t,n) in {(1,2),(1,3),(2,3),(2,4),(3,5)} with every subset of shares reconstructed (also permuted, and the pointwise unreduced sum of two dealings), id patterns {small, >= q, id = q, congruent mod q, 0}, every single alteration of share value / id / commitment coordinate, share verified under every other id; non-trivial = all cases; direct oracles: reconstruct(subset >= t+1, any order) = secret, reconstruct(dealing A + dealing B) = secret A + secret B, no altered component accepted, dealing refused for bad ids"
	g := rng{r}
	for _, cn := range []string{"secp256k1", "ed25519"} {
		q := curveByName(cn).Params().N
		cfgs := [][2]int{{1, 2}, {1, 3}, {2, 3}, {2, 4}}
		if r.Thorough() {
			cfgs = append(cfgs, [2]int{3, 5}, [2]int{4, 5})
		}
		for _, tn := range cfgs {
			t, n := tn[0], tn[1]
			idSets := [][]*big.Int{}
			small := make([]*big.Int, n)
			big1 := make([]*big.Int, n)
			for i := range small {
				small[i] = big.NewInt(int64(i + 1))
				big1[i] = new(big.Int).Add(mul(q, big.NewInt(int64(i+2))), big.NewInt(int64(7*i+3))) // >= q, distinct mod q
			}
			idSets = append(idSets, small, big1)
			rnd := make([]*big.Int, n)
			for i := range rnd {
				rnd[i] = g.below(new(big.Int).Lsh(big.NewInt(1), 256))
			}
			idSets = append(idSets, rnd)
			for _, ids := range idSets {
				secrets := []*big.Int{big.NewInt(1), add(q, -1), g.below(q)}
				if cn == "ed25519" {
					secrets = append(secrets, big.NewInt(0))
				}
				var prevShares []*big.Int
				var prevSecret *big.Int
				for _, secret := range secrets {
					coefs := make([]*big.Int, t)
					for i := range coefs {
						coefs[i] = g.below(q)
						if coefs[i].Sign() == 0 {
							coefs[i] = big.NewInt(9)
						}
					}
					cargs := []val.V{val.A(cn), val.I64(int64(t)), val.I(secret), val.Ints(ids), val.Ints(coefs)}
					obs := r.Case("create/"+cn, true, "vss_create", cargs...)
					ol, ok := obs.(val.List)
					if !ok || len(ol) != 2 {
						r.Violate("vss-create-failed|"+cn, "vss.Create failed on admissible input: "+obs.String(), vc.Line("vss_create", cargs))
						continue
					}
					flat := val.AsList(ol[1])[0]
					shares := val.AsInts(val.AsList(ol[1])[1])
					// first commitment = secret*G
					if secret.Sign() != 0 {
						sg, _ := vc.Exec("ec_base_mul", []val.V{val.A(cn), val.I(secret)})
						fl := val.AsInts(flat)
						if sl, ok := sg.(val.List); ok && len(sl) == 2 {
							p := val.AsList(sl[1])
							if val.AsInt(p[0]).Cmp(fl[0]) != 0 || val.AsInt(p[1]).Cmp(fl[1]) != 0 {
								r.Violate("vss-first-commitment|"+cn, "the first commitment is not secret*G", vc.Line("vss_create", cargs))
							}
						}
					}
					// every share verifies under its own id and under no other id
					for i := 0; i < n; i++ {
						for j := 0; j < n; j++ {
							va := []val.V{val.A(cn), val.I64(int64(t)), val.I(ids[j]), val.I(shares[i]), flat}
							o := r.Case("verify/"+cn, true, "vss_verify", va...)
							want := i == j
							if (o.String() == okb(true).String()) != want && shares[i].Cmp(shares[j]) != 0 {
								r.Violate(fmt.Sprintf("vss-verify-id|%s|own=%v", cn, want), fmt.Sprintf("share %d verified under id %d: %s", i, j, o.String()), vc.Line("vss_create", cargs), vc.Line("vss_verify", va))
							}
						}
						// alterations
						alts := map[string][]val.V{
							"share+1": {val.A(cn), val.I64(int64(t)), val.I(ids[i]), val.I(add(shares[i], 1)), flat},
							"share-1": {val.A(cn), val.I64(int64(t)), val.I(ids[i]), val.I(add(shares[i], -1)), flat},
							"id+1":    {val.A(cn), val.I64(int64(t)), val.I(add(ids[i], 1)), val.I(shares[i]), flat},
							"t-1":     {val.A(cn), val.I64(int64(t - 1)), val.I(ids[i]), val.I(shares[i]), flat},
							"share+q": {val.A(cn), val.I64(int64(t)), val.I(ids[i]), val.I(new(big.Int).Add(shares[i], q)), flat},
							// ids and shares that are 0 modulo the order in any representation: refused (the points id^j*V_j and share*G are the identity)
							"id=0":     {val.A(cn), val.I64(int64(t)), val.I64(0), val.I(shares[i]), flat},
							"id=q":     {val.A(cn), val.I64(int64(t)), val.I(q), val.I(shares[i]), flat},
							"id=5q":    {val.A(cn), val.I64(int64(t)), val.I(mul(q, big.NewInt(5))), val.I(shares[i]), flat},
							"share=0":  {val.A(cn), val.I64(int64(t)), val.I(ids[i]), val.I64(0), flat},
							"share=q":  {val.A(cn), val.I64(int64(t)), val.I(ids[i]), val.I(q), flat},
							"share=2q": {val.A(cn), val.I64(int64(t)), val.I(ids[i]), val.I(mul(q, big.NewInt(2))), flat},
						}
						fl := val.AsInts(flat)
						for c := 0; c <= t; c++ {
							// replace commitment c by another valid point (c-th commitment doubled)
							dbl, _ := vc.Exec("ec_add", []val.V{val.A(cn), val.L(val.I(fl[2*c]), val.I(fl[2*c+1])), val.L(val.I(fl[2*c]), val.I(fl[2*c+1]))})
							if dl, ok := dbl.(val.List); ok && len(dl) == 2 {
								nf := append([]*big.Int{}, fl...)
								p := val.AsList(dl[1])
								nf[2*c], nf[2*c+1] = val.AsInt(p[0]), val.AsInt(p[1])
								if nf[2*c].Cmp(fl[2*c]) == 0 && nf[2*c+1].Cmp(fl[2*c+1]) == 0 {
									continue // doubling the identity is not an alteration
								}
								alts[fmt.Sprintf("commit%d", c)] = []val.V{val.A(cn), val.I64(int64(t)), val.I(ids[i]), val.I(shares[i]), val.Ints(nf)}
							}
						}
						for name, va := range alts {
							o := r.Case("tamper/"+cn, true, "vss_verify", va...)
							accepted := o.String() == okb(true).String()
							if name == "share+q" {
								if !accepted {
									r.Violate("vss-equivalent-share-rejected|"+cn, "share + q (the same residue) is rejected", vc.Line("vss_verify", va))
								}
							} else if accepted {
								r.Violate("vss-tamper-accepted|"+cn+"|"+strings.SplitN(name, "=", 2)[0][:2], "an altered component ("+name+") still verifies", vc.Line("vss_create", cargs), vc.Line("vss_verify", va))
							}
						}
					}
					// reconstruction from every subset
					for _, sub := range subsets(n) {
						var sh []val.V
						for _, i := range sub {
							sh = append(sh, val.L(val.I64(int64(t)), val.I(ids[i]), val.I(shares[i])))
						}
						ra := []val.V{val.A(cn), val.List(sh)}
						o := r.Case("reconstruct/"+cn, true, "vss_reconstruct", ra...)
						want := new(big.Int).Mod(secret, q)
						if len(sub) >= t+1 {
							if o.String() != val.Ok(val.I(want)).String() {
								r.Violate("vss-reconstruct|"+cn, fmt.Sprintf("%d >= t+1 shares do not reconstruct the secret: %s", len(sub), o.String()), vc.Line("vss_create", cargs), vc.Line("vss_reconstruct", ra))
							}
						} else if o.String() == val.Ok(val.I(want)).String() && want.Sign() != 0 {
							r.Violate("vss-too-few-reconstruct|"+cn, fmt.Sprintf("%d < t+1 shares reconstruct the secret", len(sub)), vc.Line("vss_create", cargs), vc.Line("vss_reconstruct", ra))
						}
					}
					// committee independence (reconstruct_subset_independent): the reversed full set and a rotated
					// (t+1)-subset give the same secret as the ordered ones
					perms := [][]int{}
					rev := make([]int, n)
					for i := range rev {
						rev[i] = n - 1 - i
					}
					perms = append(perms, rev)
					rot := make([]int, t+1)
					for i := range rot {
						rot[i] = (i + n - 1) % n
					}
					perms = append(perms, rot)
					for _, sub := range perms {
						var sh []val.V
						for _, i := range sub {
							sh = append(sh, val.L(val.I64(int64(t)), val.I(ids[i]), val.I(shares[i])))
						}
						ra := []val.V{val.A(cn), val.List(sh)}
						o := r.Case("reconstruct-permuted/"+cn, true, "vss_reconstruct", ra...)
						if want := new(big.Int).Mod(secret, q); o.String() != val.Ok(val.I(want)).String() {
							r.Violate("vss-reconstruct-order|"+cn, "a permuted qualifying share set does not reconstruct the secret: "+o.String(), vc.Line("vss_create", cargs), vc.Line("vss_reconstruct", ra))
						}
					}
					// additivity (reconstruct_additive): the pointwise, unreduced sum of this dealing and the previous one on
					// the same ids reconstructs the sum of the two secrets
					if prevShares != nil {
						var sh []val.V
						for i := 0; i < n; i++ {
							sh = append(sh, val.L(val.I64(int64(t)), val.I(ids[i]), val.I(new(big.Int).Add(shares[i], prevShares[i]))))
						}
						ra := []val.V{val.A(cn), val.List(sh)}
						o := r.Case("reconstruct-sum/"+cn, true, "vss_reconstruct", ra...)
						want := new(big.Int).Mod(new(big.Int).Add(secret, prevSecret), q)
						if o.String() != val.Ok(val.I(want)).String() {
							r.Violate("vss-reconstruct-sum|"+cn, "the sum of two dealings does not reconstruct the sum of the secrets: "+o.String(), vc.Line("vss_create", cargs), vc.Line("vss_reconstruct", ra))
						}
					}
					prevShares, prevSecret = shares, secret
				}
			}
			// refused id sets
			bad := map[string][]*big.Int{
				"zero":      {big.NewInt(0), big.NewInt(1), big.NewInt(2)},
				"q":         {big.NewInt(1), q, big.NewInt(2)},
				"2q":        {big.NewInt(1), mul(q, big.NewInt(2)), big.NewInt(2)},
				"dup":       {big.NewInt(1), big.NewInt(2), big.NewInt(1)},
				"congruent": {big.NewInt(5), big.NewInt(2), add(q, 5)},
				"cong2q":    {big.NewInt(5), add(mul(q, big.NewInt(2)), 5), big.NewInt(7)},
			}
			for name, ids := range bad {
				ca := []val.V{val.A(cn), val.Ints(ids)}
				o := r.Case("check_indexes/"+name, true, "check_indexes", ca...)
				if o.String() != "false" {
					r.Violate("vss-bad-ids-accepted|"+name, "CheckIndexes accepts an id set with an id "+name, vc.Line("check_indexes", ca))
				}
				cargs := []val.V{val.A(cn), val.I64(1), val.I64(5), val.Ints(ids), val.Ints([]*big.Int{big.NewInt(3)})}
				o2 := r.Case("create-refused/"+name, true, "vss_create", cargs...)
				if o2.String() != "Err" {
					r.Violate("vss-bad-ids-dealt|"+name, "Create deals shares for an id set with an id "+name, vc.Line("vss_create", cargs))
				}
			}
		}
	}
}

// c17ThirdCurve: the generic doors and the arithmetic on a curve outside the library's registry (NIST P-256, a = -3,
// served by Go's constant-time implementation rather than btcec): the checks of NewECPoint and the results of
// Add / ScalarMult / ScalarBaseMult against the Coq arithmetic with the curve's own a, b, p, q.
func c17ThirdCurve(r *vc.Run, g rng) {
	cn := "p256"
	ec := curveByName(cn)
	q, P := ec.Params().N, ec.Params().P
	ks := []*big.Int{big.NewInt(1), big.NewInt(2), big.NewInt(3), add(q, -1), g.below(q), g.below(q)}
	for len(ks) < r.Pick(6, 16) {
		ks = append(ks, g.below(q))
	}
	var pts []val.V
	for _, k := range ks {
		o := r.Case("base_mul/"+cn, true, "ec_base_mul", val.A(cn), val.I(k))
		if ol, ok := o.(val.List); ok && len(ol) == 2 {
			pts = append(pts, ol[1])
		}
	}
	for pi, pv := range pts {
		pl := val.AsList(pv)
		x, y := val.AsInt(pl[0]), val.AsInt(pl[1])
		variants := map[string][2]*big.Int{
			"ok": {x, y}, "x+1": {add(x, 1), y}, "y+1": {x, add(y, 1)}, "swap": {y, x},
			"x+p": {new(big.Int).Add(x, P), y}, "y+p": {x, new(big.Int).Add(y, P)}, "-x": {new(big.Int).Neg(x), y}, "-y": {x, new(big.Int).Neg(y)},
			"x+2^256": {new(big.Int).Add(x, pow2(256)), y}, "p-y": {x, new(big.Int).Sub(P, y)}, "zero": {big.NewInt(0), big.NewInt(0)},
		}
		for name, xy := range variants {
			if !r.Thorough() && pi > 2 && name != "ok" && name != "y+p" && name != "p-y" {
				continue
			}
			a := []val.V{val.A(cn), val.I(xy[0]), val.I(xy[1])}
			o := r.Case("new_ec_point/p256/"+name, true, "new_ec_point", a...)
			if s := o.String(); s != "None" && s != "Err" && !canonicalOnCurve(cn, xy[0], xy[1]) {
				r.Violate("point-accepted-off-curve|new_ec_point|"+cn, fmt.Sprintf("NewECPoint accepts (%s, %s) which is not a canonical point of %s", xy[0], xy[1], cn), vc.Line("new_ec_point", a))
			}
			// the registered curves must refuse it unless it happens to be theirs
			for _, other := range []string{"secp256k1", "ed25519"} {
				a2 := []val.V{val.A(other), val.I(xy[0]), val.I(xy[1])}
				o2 := r.Case("new_ec_point/other-curve", true, "new_ec_point", a2...)
				if s := o2.String(); s != "None" && s != "Err" && !canonicalOnCurve(other, xy[0], xy[1]) {
					r.Violate("point-accepted-off-curve|new_ec_point|"+other, fmt.Sprintf("NewECPoint accepts (%s, %s) which is not a canonical point of %s", xy[0], xy[1], other), vc.Line("new_ec_point", a2))
				}
			}
		}
		fl := []*big.Int{x, y, x, y}
		r.Case("unflatten/ok", true, "unflatten", val.A(cn), val.Ints(fl))
		bad := []*big.Int{x, y, x, add(y, 1)}
		if ub := r.Case("unflatten/bad", true, "unflatten", val.A(cn), val.Ints(bad)); ub.String() != "Err" {
			r.Violate("unflatten-accepts-off-curve|"+cn, "UnFlattenECPoints accepts an off-curve pair", vc.Line("unflatten", []val.V{val.A(cn), val.Ints(bad)}))
		}
	}
	scal := []*big.Int{big.NewInt(0), q, big.NewInt(1), big.NewInt(2), big.NewInt(8), add(q, -1), add(q, 1), mul(q, big.NewInt(3)), pow2(256), add(pow2(300), 12345), g.below(q), big.NewInt(-5)}
	for i, p := range pts {
		for _, k := range scal {
			if !r.Thorough() && i > 2 && k.BitLen() > 8 {
				continue
			}
			r.Case("smul/"+cn, true, "ec_smul", val.A(cn), p, val.I(k))
		}
		qv := pts[(i*5+3)%len(pts)]
		sum := r.Case("add/"+cn, true, "ec_add", val.A(cn), p, qv)
		sum2, _ := vc.Exec("ec_add", []val.V{val.A(cn), qv, p})
		if sum.String() != sum2.String() {
			r.Violate("group-law-comm|"+cn, "P+Q != Q+P", vc.Line("ec_add", []val.V{val.A(cn), p, qv}))
		}
		// doubling and the sum with the inverse (the point at infinity has no representation)
		r.Case("add/"+cn+"/double", true, "ec_add", val.A(cn), p, p)
		pl := val.AsList(p)
		r.Case("add/"+cn+"/inverse", true, "ec_add", val.A(cn), p, val.L(pl[0], val.I(new(big.Int).Sub(P, val.AsInt(pl[1])))))
	}
}

// ---------------- C17 ----------------
func genC17(r *vc.Run) {
	r.Rule = "every door through which a point enters (NewECPoint, UnFlattenECPoints, JSON with and without curve name, Gob) on on-curve points, perturbed / swapped / out-of-range / negative coordinates, the other curve's points, the 8 torsion points; Add / ScalarMult / ScalarBaseMult / EightInvEight against the Coq curve arithmetic (an independent affine implementation) with scalars {0,1,2,q-1,q,q+1,>q,random}; group laws checked on random triples; EdDSA keygen / signing / resharing (threshold raised) runs in which one participant adds the point of order two to a committed point, consistently opened, which must leave the honest outcome unchanged; the generic doors and the arithmetic again on NIST P-256 (a = -3, outside the registry); non-trivial = all cases"
	g := rng{r}
	npts := r.Pick(6, 30)
	c17ThirdCurve(r, g)
	// the doors inside the EdDSA rounds: a small-order component on a committed point must be gone before any check
	torsionRuns(r)
	for _, cn := range []string{"secp256k1", "ed25519"} {
		ec := curveByName(cn)
		q, P := ec.Params().N, ec.Params().P
		other := "ed25519"
		if cn == "ed25519" {
			other = "secp256k1"
		}
		// sample points k*G
		var pts []val.V
		ks := []*big.Int{big.NewInt(1), big.NewInt(2), add(q, -1), g.below(q)}
		for len(ks) < npts {
			ks = append(ks, g.below(q))
		}
		for _, k := range ks {
			o := r.Case("base_mul/"+cn, true, "ec_base_mul", val.A(cn), val.I(k))
			if ol, ok := o.(val.List); ok && len(ol) == 2 {
				pts = append(pts, ol[1])
			}
		}
		// points whose X or Y encoding is shorter than the other (a leading zero byte): the boundary for length-prefixed codecs
		shortX, shortY := 0, 0
		for k := int64(3); k < 3000 && (shortX < 2 || shortY < 2); k++ {
			o, _ := vc.Exec("ec_base_mul", []val.V{val.A(cn), val.I64(k)})
			ol, ok := o.(val.List)
			if !ok || len(ol) != 2 {
				continue
			}
			pl := val.AsList(ol[1])
			lx, ly := len(val.AsInt(pl[0]).Bytes()), len(val.AsInt(pl[1]).Bytes())
			if lx < ly && shortX < 2 {
				shortX++
				pts = append(pts, ol[1])
			} else if ly < lx && shortY < 2 {
				shortY++
				pts = append(pts, ol[1])
			}
		}
		if cn == "ed25519" {
			pts = append(pts, val.L(val.I64(0), val.I64(1)))
			pts = append(pts, edTorsion()...)
			// prime-order point + torsion component
			for _, T := range edTorsion()[:3] {
				s, _ := vc.Exec("ec_add", []val.V{val.A(cn), pts[3], T})
				if sl, ok := s.(val.List); ok && len(sl) == 2 {
					pts = append(pts, sl[1])
				}
			}
		}
		accept := func(door string, args []val.V, obs val.V, x, y *big.Int, curve string) {
			// direct oracle: an accepted pair must satisfy the canonical curve equation of the stated curve
			s := obs.String()
			if s == "None" || s == "Err" {
				return
			}
			if !canonicalOnCurve(curve, x, y) {
				r.Violate("point-accepted-off-curve|"+door+"|"+curve, fmt.Sprintf("%s accepts (%s, %s) which is not a canonical point of %s", door, x.String(), y.String(), curve), vc.Line(door, args))
			}
		}
		for pi, pv := range pts {
			pl := val.AsList(pv)
			x, y := val.AsInt(pl[0]), val.AsInt(pl[1])
			variants := map[string][2]*big.Int{
				"ok": {x, y}, "x+1": {add(x, 1), y}, "y+1": {x, add(y, 1)}, "swap": {y, x},
				"x+p": {new(big.Int).Add(x, P), y}, "y+p": {x, new(big.Int).Add(y, P)}, "-x": {new(big.Int).Neg(x), y}, "-y": {x, new(big.Int).Neg(y)},
				"x+2^255": {new(big.Int).Add(x, pow2(255)), y}, "x+2^256": {new(big.Int).Add(x, pow2(256)), y}, "p-y": {x, new(big.Int).Sub(P, y)}, "zero": {big.NewInt(0), big.NewInt(0)},
			}
			for name, xy := range variants {
				if !r.Thorough() && pi > 3 && name != "ok" && name != "-x" && name != "x+p" {
					continue
				}
				a := []val.V{val.A(cn), val.I(xy[0]), val.I(xy[1])}
				o := r.Case("new_ec_point/"+name, true, "new_ec_point", a...)
				accept("new_ec_point", a, o, xy[0], xy[1], cn)
				// the doors inside messages (proof commitments, announced public keys): wire bytes are non-negative numbers
				if xy[0].Sign() >= 0 && xy[1].Sign() >= 0 && (pi < 2 || r.Thorough()) {
					doors := []string{"ecdsa-sign-r4", "ecdsa-sign-r6", "ecdsa-sign-r6v", "ecdsa-reshare-pub"}
					if cn == "ed25519" {
						doors = []string{"eddsa-keygen-r2", "eddsa-sign-r2", "eddsa-reshare-pub"}
					}
					for _, door := range doors {
						da := []val.V{val.A(door), val.A(cn), val.I(xy[0]), val.I(xy[1])}
						do := r.Case("message-door/"+door+"/"+name, true, "msg_point_door", da...)
						accept("msg_point_door", da, do, xy[0], xy[1], cn)
					}
				}
				// the other curve must refuse this curve's points
				a2 := []val.V{val.A(other), val.I(xy[0]), val.I(xy[1])}
				o2 := r.Case("new_ec_point/other-curve", true, "new_ec_point", a2...)
				accept("new_ec_point", a2, o2, xy[0], xy[1], other)
				// JSON with the curve name, without it (global curve), with the other curve's name
				for _, nm := range []string{cn, "none", other, "nosuchcurve"} {
					ja := []val.V{val.A(nm), val.I(xy[0]), val.I(xy[1])}
					jo := r.Case("json/"+name, true, "json_point", ja...)
					stated := nm
					if nm == "none" {
						stated = "secp256k1"
					}
					if nm != "nosuchcurve" {
						accept("json_point", ja, jo, xy[0], xy[1], stated)
					}
					if jl, ok := jo.(val.List); ok && len(jl) == 2 {
						back := val.AsList(jl[1])
						if back[0].String() != stated || val.AsInt(back[1]).Cmp(xy[0]) != 0 || val.AsInt(back[2]).Cmp(xy[1]) != 0 {
							r.Violate("json-reencode-differs|"+cn, "re-encoding a decoded JSON point gives a different point or curve: "+jo.String(), vc.Line("json_point", ja))
						}
					}
				}
				if xy[0].Sign() >= 0 && xy[1].Sign() >= 0 {
					ga := []val.V{val.A(cn), val.I(xy[0]), val.I(xy[1])}
					gobs := r.Case("gob/"+name, true, "gob_roundtrip", ga...)
					accept("gob_roundtrip", ga, gobs, xy[0], xy[1], "secp256k1")
					if gl, ok := gobs.(val.List); ok && len(gl) == 2 {
						bp := val.AsList(gl[1])
						if val.AsInt(bp[0]).Cmp(xy[0]) != 0 || val.AsInt(bp[1]).Cmp(xy[1]) != 0 {
							r.Violate("gob-roundtrip-differs", "gob decoding returns a different point", vc.Line("gob_roundtrip", ga))
						}
					} else if name == "ok" && cn == "secp256k1" {
						r.Violate("gob-roundtrip-refused", "a valid secp256k1 point does not survive gob encoding", vc.Line("gob_roundtrip", ga))
					}
				}
			}
			// unflatten lists: this point twice, and with one bad coordinate / odd length
			fl := []*big.Int{x, y, x, y}
			r.Case("unflatten/ok", true, "unflatten", val.A(cn), val.Ints(fl))
			r.Case("unflatten/odd", true, "unflatten", val.A(cn), val.Ints(fl[:3]))
			bad := []*big.Int{x, y, add(x, 1), y}
			ub := r.Case("unflatten/bad", true, "unflatten", val.A(cn), val.Ints(bad))
			if ub.String() != "Err" && !canonicalOnCurve(cn, add(x, 1), y) {
				r.Violate("unflatten-accepts-off-curve|"+cn, "UnFlattenECPoints accepts an off-curve pair", vc.Line("unflatten", []val.V{val.A(cn), val.Ints(bad)}))
			}
		}
		// arithmetic against the model, and group laws as direct oracles
		scal := []*big.Int{big.NewInt(0), big.NewInt(1), big.NewInt(2), big.NewInt(8), add(q, -1), q, add(q, 1), mul(q, big.NewInt(3)), pow2(256), add(pow2(300), 12345), g.below(q), big.NewInt(-5)}
		for i, p := range pts {
			for _, k := range scal {
				if !r.Thorough() && i > 4 && k.BitLen() > 8 && k.Cmp(q) != 0 {
					continue
				}
				r.Case("smul/"+cn, true, "ec_smul", val.A(cn), p, val.I(k))
			}
			qv := pts[(i*7+3)%len(pts)]
			sum := r.Case("add/"+cn, true, "ec_add", val.A(cn), p, qv)
			sum2, _ := vc.Exec("ec_add", []val.V{val.A(cn), qv, p})
			if sum.String() != sum2.String() {
				r.Violate("group-law-comm|"+cn, "P+Q != Q+P", vc.Line("ec_add", []val.V{val.A(cn), p, qv}))
			}
			rv := pts[(i*5+1)%len(pts)]
			// associativity when all intermediate sums are representable
			ab, _ := vc.Exec("ec_add", []val.V{val.A(cn), p, qv})
			bc, _ := vc.Exec("ec_add", []val.V{val.A(cn), qv, rv})
			if al, ok := ab.(val.List); ok && len(al) == 2 {
				if bl, ok := bc.(val.List); ok && len(bl) == 2 {
					l, _ := vc.Exec("ec_add", []val.V{val.A(cn), al[1], rv})
					rr, _ := vc.Exec("ec_add", []val.V{val.A(cn), p, bl[1]})
					if l.String() != rr.String() {
						r.Violate("group-law-assoc|"+cn, "(P+Q)+R != P+(Q+R)", vc.Line("ec_add", []val.V{val.A(cn), al[1], rv}), vc.Line("ec_add", []val.V{val.A(cn), p, bl[1]}))
					}
				}
			}
			if cn == "ed25519" {
				e := r.Case("eight_inv_eight", true, "eight_inv_eight", val.A(cn), p)
				// direct oracle: the result has no small-order component: L * result = identity, and prime-order points are fixed
				if el, ok := e.(val.List); ok && len(el) == 2 {
					lr, _ := vc.Exec("ec_smul", []val.V{val.A(cn), el[1], val.I(q)})
					if lr.String() != val.Ok(val.L(val.I64(0), val.I64(1))).String() {
						r.Violate("cofactor-not-cleared", "EightInvEight leaves a small-order component", vc.Line("eight_inv_eight", []val.V{val.A(cn), p}))
					}
					lp, _ := vc.Exec("ec_smul", []val.V{val.A(cn), p, val.I(q)})
					if lp.String() == val.Ok(val.L(val.I64(0), val.I64(1))).String() && el[1].String() != p.String() {
						r.Violate("cofactor-moves-prime-order-point", "EightInvEight changes a prime-order point", vc.Line("eight_inv_eight", []val.V{val.A(cn), p}))
					}
				}
			}
		}
	}
}

// canonicalOnCurve: 0 <= x,y < p and the curve equation, computed with math/big only.
func canonicalOnCurve(curve string, x, y *big.Int) bool {
	ec := curveByName(curve)
	P := ec.Params().P
	if x.Sign() < 0 || y.Sign() < 0 || x.Cmp(P) >= 0 || y.Cmp(P) >= 0 {
		return false
	}
	x2 := new(big.Int).Mul(x, x)
	y2 := new(big.Int).Mul(y, y)
	if curve == "secp256k1" {
		rhs := new(big.Int).Mul(x2, x)
		rhs.Add(rhs, big.NewInt(7))
		return new(big.Int).Mod(new(big.Int).Sub(y2, rhs), P).Sign() == 0
	}
	if curve == "p256" {
		// y^2 = x^3 - 3x + b
		rhs := new(big.Int).Mul(x2, x)
		rhs.Sub(rhs, new(big.Int).Mul(big.NewInt(3), x))
		rhs.Add(rhs, ec.Params().B)
		return new(big.Int).Mod(new(big.Int).Sub(y2, rhs), P).Sign() == 0
	}
	d := bi("37095705934669439343138083508754565189542113879843219016388785533085940283555")
	lhs := new(big.Int).Sub(y2, x2)
	rhs := new(big.Int).Mul(d, new(big.Int).Mul(x2, y2))
	rhs.Add(rhs, big.NewInt(1))
	return new(big.Int).Mod(new(big.Int).Sub(lhs, rhs), P).Sign() == 0
}
