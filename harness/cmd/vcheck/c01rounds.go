package main

import (
	"crypto/elliptic"
	"fmt"
	"math/big"

	"github.com/bnb-chain/tss-lib/v2/crypto"
	"github.com/bnb-chain/tss-lib/v2/crypto/commitments"
	ecdsasign "github.com/bnb-chain/tss-lib/v2/ecdsa/signing"
	eddsasign "github.com/bnb-chain/tss-lib/v2/eddsa/signing"
	"github.com/bnb-chain/tss-lib/v2/tss"

	"verif/harness/internal/sched"
	"verif/harness/internal/vc"
)

// roundValues: what the signers put on the wire in rounds 3..9 of ECDSA signing, per sender.
type roundValues struct {
	theta  map[int]*big.Int           // round 3: delta_i
	gamma  map[int]*crypto.ECPoint    // round 4: Gamma_i (de-committed)
	va     map[int][2]*crypto.ECPoint // round 6: V_i, A_i
	ut     map[int][2]*crypto.ECPoint // round 8: U_i, T_i
	s      map[int]*big.Int           // round 9: s_i
	broken []string
	ec     elliptic.Curve // nil = secp256k1
}

func newRoundValues() *roundValues {
	return &roundValues{theta: map[int]*big.Int{}, gamma: map[int]*crypto.ECPoint{}, va: map[int][2]*crypto.ECPoint{}, ut: map[int][2]*crypto.ECPoint{}, s: map[int]*big.Int{}}
}

// record reads one delivered copy (the wire as the recipient gets it).
func (rv *roundValues) record(c *sched.Copy) {
	msg, err := tss.ParseWireMessage(c.Wire, c.From.PID, c.Bcast)
	if err != nil {
		return
	}
	i := c.From.Idx
	pt := func(xs []*big.Int, k int) *crypto.ECPoint {
		if len(xs) < k+2 {
			return nil
		}
		p, err := crypto.NewECPoint(curveOr(rv.ec), xs[k], xs[k+1])
		if err != nil {
			return nil
		}
		return p
	}
	switch m := msg.Content().(type) {
	case *ecdsasign.SignRound3Message:
		rv.theta[i] = new(big.Int).SetBytes(m.GetTheta())
	case *ecdsasign.SignRound4Message:
		// de-commitment = [randomness, Gamma.x, Gamma.y]
		d := commitments.HashDeCommitment(m.UnmarshalDeCommitment())
		if len(d) == 3 {
			rv.gamma[i] = pt(d, 1)
		} else {
			rv.broken = append(rv.broken, fmt.Sprintf("round 4 de-commitment of signer %d has %d parts", i, len(d)))
		}
	case *ecdsasign.SignRound6Message:
		d := commitments.HashDeCommitment(m.UnmarshalDeCommitment())
		if len(d) == 5 {
			rv.va[i] = [2]*crypto.ECPoint{pt(d, 1), pt(d, 3)}
		} else {
			rv.broken = append(rv.broken, fmt.Sprintf("round 6 de-commitment of signer %d has %d parts", i, len(d)))
		}
	case *ecdsasign.SignRound8Message:
		d := commitments.HashDeCommitment(m.UnmarshalDeCommitment())
		if len(d) == 5 {
			rv.ut[i] = [2]*crypto.ECPoint{pt(d, 1), pt(d, 3)}
		} else {
			rv.broken = append(rv.broken, fmt.Sprintf("round 8 de-commitment of signer %d has %d parts", i, len(d)))
		}
	case *ecdsasign.SignRound9Message:
		rv.s[i] = new(big.Int).SetBytes(m.GetS())
	}
}

func sumPoints(ps []*crypto.ECPoint) (*crypto.ECPoint, bool) {
	var acc *crypto.ECPoint
	for _, p := range ps {
		if p == nil {
			return nil, false
		}
		if acc == nil {
			acc = p
			continue
		}
		var err error
		acc, err = acc.Add(p)
		if err != nil {
			return nil, false
		}
	}
	return acc, acc != nil
}

// roundOracles: the per-round algebra of Proofs/SignRoundsProofs.v checked on the values observed on the wire.
// kis, gs: the nonce shares fixed through the reader (sorted-signer order); x: the secret the signers' shares interpolate to.
func roundOracles(r *vc.Run, rv *roundValues, n int, kis, gs []*big.Int, m, x *big.Int, sigR, sigS []byte, replay string) {
	ec := curveOr(rv.ec)
	q := ec.Params().N
	if m.Cmp(q) >= 0 || len(sigR) == 0 {
		return
	}
	for _, b := range rv.broken {
		r.Violate("ecdsa-round-shape", b, replay)
	}
	if len(rv.theta) != n || len(rv.gamma) != n || len(rv.va) != n || len(rv.ut) != n || len(rv.s) != n {
		r.Violate("ecdsa-round-values-missing", fmt.Sprintf("a completed signing run did not show all round values on the wire (theta %d, Gamma %d, V/A %d, U/T %d, s %d of %d)", len(rv.theta), len(rv.gamma), len(rv.va), len(rv.ut), len(rv.s), n), replay)
		return
	}
	mod := func(v *big.Int) *big.Int { return new(big.Int).Mod(v, q) }
	k, g := big.NewInt(0), big.NewInt(0)
	for i := range kis {
		k.Add(k, kis[i])
		g.Add(g, gs[i])
	}
	k, g = mod(k), mod(g)
	// 1. sum delta_i = k * gamma
	delta := big.NewInt(0)
	for i := 0; i < n; i++ {
		delta.Add(delta, rv.theta[i])
	}
	delta = mod(delta)
	if delta.Cmp(mod(new(big.Int).Mul(k, g))) != 0 {
		r.Violate("ecdsa-round3-delta", "the broadcast delta_i do not sum to (sum k_i)(sum gamma_i) mod q", replay)
	}
	// 2. sum Gamma_i = gamma*G ; R = delta^-1 * Gamma = k^-1 * G ; r = R.x
	var gammas []*crypto.ECPoint
	for i := 0; i < n; i++ {
		gammas = append(gammas, rv.gamma[i])
	}
	G, ok := sumPoints(gammas)
	if !ok || !G.Equals(crypto.ScalarBaseMult(ec, g)) {
		r.Violate("ecdsa-round4-gamma", "the de-committed Gamma_i do not sum to (sum gamma_i)*G", replay)
		return
	}
	if delta.Sign() == 0 {
		return
	}
	R := G.ScalarMult(new(big.Int).ModInverse(delta, q))
	if !R.Equals(crypto.ScalarBaseMult(ec, new(big.Int).ModInverse(k, q))) {
		r.Violate("ecdsa-round5-R", "delta^-1 * Gamma is not k^-1 * G", replay)
	}
	rx := R.X()
	if new(big.Int).SetBytes(sigR).Cmp(rx) != 0 {
		r.Violate("ecdsa-round5-R", "the released R is not the x coordinate of delta^-1 * Gamma", replay)
	}
	// 3. sum s_i = k (m + r x) ; released S is that value or its negation (low S)
	s := big.NewInt(0)
	for i := 0; i < n; i++ {
		s.Add(s, rv.s[i])
	}
	s = mod(s)
	want := mod(new(big.Int).Mul(k, mod(new(big.Int).Add(m, new(big.Int).Mul(rx, x)))))
	if s.Cmp(want) != 0 {
		r.Violate("ecdsa-round9-s", "the broadcast s_i do not sum to k(m + r x) mod q", replay)
	}
	rel := new(big.Int).SetBytes(sigS)
	if rel.Cmp(s) != 0 && rel.Cmp(mod(new(big.Int).Neg(s))) != 0 {
		r.Violate("ecdsa-round9-s", "the released S is neither sum s_i nor its negation", replay)
	}
	// 4. phase 5: sum U_i = sum T_i
	var us, ts []*crypto.ECPoint
	for i := 0; i < n; i++ {
		us = append(us, rv.ut[i][0])
		ts = append(ts, rv.ut[i][1])
	}
	U, ok1 := sumPoints(us)
	T, ok2 := sumPoints(ts)
	if !ok1 || !ok2 || !U.Equals(T) {
		r.Violate("ecdsa-phase5-UT", "sum U_i differs from sum T_i in a run that released a signature", replay)
	}
	r.Dist["ecdsa-round-algebra-checked"]++
}

// ---- EdDSA signing: R_i (round 2, de-committed) and s_i (round 3) on the wire ----
type edRoundValues struct {
	r map[int]*crypto.ECPoint
	s map[int]*big.Int
}

func newEdRoundValues() *edRoundValues {
	return &edRoundValues{r: map[int]*crypto.ECPoint{}, s: map[int]*big.Int{}}
}

func (rv *edRoundValues) record(c *sched.Copy) {
	msg, err := tss.ParseWireMessage(c.Wire, c.From.PID, c.Bcast)
	if err != nil {
		return
	}
	switch m := msg.Content().(type) {
	case *eddsasign.SignRound2Message:
		d := commitments.HashDeCommitment(m.UnmarshalDeCommitment())
		if len(d) == 3 {
			if p, err := crypto.NewECPoint(tss.Edwards(), d[1], d[2]); err == nil {
				rv.r[c.From.Idx] = p
			}
		}
	case *eddsasign.SignRound3Message:
		rv.s[c.From.Idx] = new(big.Int).SetBytes(m.GetS())
	}
}

// edRoundOracles: sum R_i = (sum r_i) B, its encoding is the released R; sum s_i = released S (mod L).
func edRoundOracles(r *vc.Run, rv *edRoundValues, n int, ris []*big.Int, sig []byte, replay string) {
	if len(sig) != 64 {
		return
	}
	L := tss.Edwards().Params().N
	if len(rv.r) != n || len(rv.s) != n {
		r.Violate("eddsa-round-values-missing", fmt.Sprintf("a completed EdDSA signing run did not show all round values on the wire (R_i %d, s_i %d of %d)", len(rv.r), len(rv.s), n), replay)
		return
	}
	var rs []*crypto.ECPoint
	rsum, ssum := big.NewInt(0), big.NewInt(0)
	for i := 0; i < n; i++ {
		rs = append(rs, rv.r[i])
		rsum.Add(rsum, ris[i])
		ssum.Add(ssum, rv.s[i])
	}
	rsum.Mod(rsum, L)
	ssum.Mod(ssum, L)
	R, ok := sumPoints(rs)
	if !ok || (rsum.Sign() != 0 && !R.Equals(crypto.ScalarBaseMult(tss.Edwards(), rsum))) {
		r.Violate("eddsa-round2-R", "the de-committed R_i do not sum to (sum r_i)*B", replay)
		return
	}
	if enc := edPub32(R.X(), R.Y()); string(enc) != string(sig[:32]) {
		r.Violate("eddsa-round2-R", "the released R is not the encoding of sum R_i", replay)
	}
	sLE := make([]byte, 32)
	bz := ssum.Bytes()
	for i := range bz {
		sLE[i] = bz[len(bz)-1-i]
	}
	if string(sLE) != string(sig[32:]) {
		r.Violate("eddsa-round3-s", "the released S is not sum s_i mod L (little endian)", replay)
	}
	r.Dist["eddsa-round-algebra-checked"]++
}
