package main

import (
	"math/big"

	eddsakeygen "github.com/bnb-chain/tss-lib/v2/eddsa/keygen"
	eddsasign "github.com/bnb-chain/tss-lib/v2/eddsa/signing"
	"github.com/bnb-chain/tss-lib/v2/tss"
)

func eddsakeygenMsg(from *tss.PartyID) tss.ParsedMessage {
	return eddsakeygen.NewKGRound1Message(from, big.NewInt(123456789))
}
func eddsasignMsg(from *tss.PartyID) tss.ParsedMessage {
	return eddsasign.NewSignRound1Message(from, big.NewInt(987654321))
}
