package main

import (
	"bytes"
	"fmt"
	"math/big"
	"math/rand"
	"regexp"
	"sort"
	"strconv"
	"strings"

	ecdsakeygen "github.com/bnb-chain/tss-lib/v2/ecdsa/keygen"
	eddsakeygen "github.com/bnb-chain/tss-lib/v2/eddsa/keygen"
	"github.com/bnb-chain/tss-lib/v2/tss"
	"google.golang.org/protobuf/proto"

	"verif/harness/internal/sched"
	"verif/harness/internal/vc"
)

func init() { gens["C08"] = genC08 }

var roundOfType = regexp.MustCompile(`Round(\d+)`)

// runFlagFlip: like runOne, but every copy is first offered with the transport's broadcast flag inverted.
func runFlagFlip(r *vc.Run, rc *runCtx, proto, cfg string, st sched.Strategy) {
	net := rc.net
	delivered := map[string]map[string]bool{} // node -> "type/from" delivered with the right flag
	for steps := 0; steps < 100000; steps++ {
		var un []*sched.Node
		for _, n := range net.Nodes() {
			if !n.Started {
				un = append(un, n)
			}
		}
		if len(net.Pending) == 0 && len(un) == 0 {
			return
		}
		k := st(net, un)
		if k < 0 {
			net.StartNode(un[-k-1])
			continue
		}
		c := net.Pending[k]
		net.Pending = append(net.Pending[:k], net.Pending[k+1:]...)
		// wire round trip: what is parsed at the receiver is what was sent
		if pm, err := tss.ParseWireMessage(c.Wire, c.From.PID, c.Bcast); err != nil {
			r.Violate("wire-roundtrip|"+proto, "a sent message does not parse back from its wire bytes: "+err.Error(), fmt.Sprintf("run %s %s type=%s", proto, cfg, c.Type))
		} else if !proto2Equal(pm, c.Msg) {
			r.Violate("wire-roundtrip-differs|"+proto, "wire encoding changes the content of "+c.Type, fmt.Sprintf("run %s %s type=%s", proto, cfg, c.Type))
		}
		// flipped first
		before := sched.RoundOf(c.To.Party)
		endsBefore := c.To.Results()
		flipped := *c
		flipped.Bcast = !c.Bcast
		net.Deliver(&flipped)
		// a freshly started party is not settled yet (Start does not run Update): its first delivery of any kind may
		// complete rounds that need nothing; the oracle applies once the party has processed a delivery
		settled := len(c.To.Events) >= 3
		if after := sched.RoundOf(c.To.Party); settled && (after != before || c.To.Results() != endsBefore) {
			r.Violate("flag-flip-advances|"+proto+"|"+c.Type, fmt.Sprintf("%s %s: a %s handed over with the broadcast flag inverted moved %s from round %d to %d", proto, cfg, c.Type, c.To.Name, before, after),
				fmt.Sprintf("run %s %s flag-flip", proto, cfg), strings.Join(net.Log, "\n"))
		}
		if before != 0 && !delivered[c.To.Name][c.Type+"/"+c.From.Name] {
			// the sender must still be awaited if this type belongs to the current round
			if m := roundOfType.FindStringSubmatch(c.Type); m != nil {
				if tr, _ := strconv.Atoi(m[1]); tr == before {
					found := false
					for _, pid := range c.To.Party.WaitingFor() {
						if pid.KeyInt().Cmp(c.From.PID.KeyInt()) == 0 {
							found = true
						}
					}
					if !found {
						r.Violate("flag-flip-consumed|"+proto+"|"+c.Type, fmt.Sprintf("%s %s: after only a flag-inverted %s from %s, %s no longer waits for it", proto, cfg, c.Type, c.From.Name, c.To.Name),
							fmt.Sprintf("run %s %s flag-flip", proto, cfg), strings.Join(net.Log, "\n"))
					}
				}
			}
		}
		net.Deliver(c)
		if delivered[c.To.Name] == nil {
			delivered[c.To.Name] = map[string]bool{}
		}
		delivered[c.To.Name][c.Type+"/"+c.From.Name] = true
		// independent WaitingFor oracle (single-committee protocols): peers with a message of the current round missing
		if len(net.Old) == 0 {
			cur := sched.RoundOf(c.To.Party)
			if cur > 0 {
				want := map[string]bool{}
				for _, ty := range net.Types {
					m := roundOfType.FindStringSubmatch(ty)
					if m == nil {
						continue
					}
					if tr, _ := strconv.Atoi(m[1]); tr != cur {
						continue
					}
					for _, peer := range net.New {
						if peer != c.To && !delivered[c.To.Name][ty+"/"+peer.Name] {
							want[peer.Name] = true
						}
					}
				}
				got := map[string]bool{}
				for _, pid := range c.To.Party.WaitingFor() {
					for _, peer := range net.New {
						if peer.PID.KeyInt().Cmp(pid.KeyInt()) == 0 {
							got[peer.Name] = true
						}
					}
				}
				if keysOf(want) != keysOf(got) {
					r.Violate("waiting-not-exact|"+proto, fmt.Sprintf("%s %s: %s in round %d reports waiting for [%s] but messages of this round are missing from [%s]", proto, cfg, c.To.Name, cur, keysOf(got), keysOf(want)),
						fmt.Sprintf("run %s %s flag-flip", proto, cfg), strings.Join(net.Log, "\n"))
				}
			}
		}
	}
}

func keysOf(m map[string]bool) string {
	var ks []string
	for k := range m {
		ks = append(ks, k)
	}
	sort.Strings(ks)
	return strings.Join(ks, " ")
}

func proto2Equal(a, b tss.ParsedMessage) bool {
	return proto.Equal(a.Content(), b.Content()) && a.Type() == b.Type() && a.IsBroadcast() == b.IsBroadcast()
}

// secretsOf lists the long-term secrets of a node that must never appear in its outgoing messages.
func secretsOf(rc *runCtx, n *sched.Node, inputs map[string][]*big.Int) []*big.Int {
	out := append([]*big.Int{}, inputs[n.Name]...)
	n.Results()
	for _, res := range rc.results[n.Name] {
		switch k := res.(type) {
		case *ecdsakeygen.LocalPartySaveData:
			out = append(out, k.Xi)
			if k.PaillierSK != nil {
				out = append(out, k.PaillierSK.P, k.PaillierSK.Q, k.PaillierSK.LambdaN, k.PaillierSK.PhiN)
			}
			out = append(out, k.Alpha, k.Beta, k.P, k.Q)
		case *eddsakeygen.LocalPartySaveData:
			out = append(out, k.Xi)
		}
	}
	return out
}

func genC08(r *vc.Run) {
	r.Rule = "the C07 trace replay with a flag-flip stream: every message is first handed over with the transport's broadcast flag inverted, then correctly; after every single delivery round / WaitingFor / emissions are compared with the engine model built from the regenerated tables; independent oracles: WaitingFor versus the delivery log (types of the current round not yet delivered), no round change on a flipped delivery, wire round trip of every message, routing of every emitted message, byte search of every outgoing message for the sender's long-term secrets; non-trivial = more than 2 events"
	for pi, pr := range protoRuns(r) {

		strats := []struct {
			name string
			st   sched.Strategy
		}{{"fifo", sched.FIFO}, {"random", sched.Random}, {"lifo", sched.LIFO}}
		if pr.heavy {
			strats = strats[:1]
		}
		for si, s := range strats {
			rc := pr.build()
			rc.net.Rng = rand.New(rand.NewSource(r.Seed*77 + int64(pi*10+si)))
			// record every emitted wire per sender for the secret search
			wires := map[string][][]byte{}
			rc.net.OnStep = func(n *sched.Node) {
				for _, c := range rc.net.Pending {
					if c.From == n {
						wires[n.Name] = append(wires[n.Name], c.Wire)
					}
				}
			}
			inputs := map[string][]*big.Int{}
			if pr.proto == "ecdsa_signing" || pr.proto == "ecdsa_resharing" {
				ks, _ := fixtures()
				for i, n := range rc.net.Nodes() {
					if i < len(ks) && (n.Comm == 'O' || pr.proto == "ecdsa_signing") {
						k := ks[n.Idx]
						inputs[n.Name] = []*big.Int{new(big.Int).Set(k.Xi), k.PaillierSK.P, k.PaillierSK.Q, k.PaillierSK.LambdaN, k.PaillierSK.PhiN, k.Alpha, k.Beta, k.P, k.Q}
					}
				}
			}
			runFlagFlip(r, rc, pr.proto, pr.cfg, s.st)
			engineCases(r, rc, pr.proto+"/flagflip-"+s.name)
			scheduleOracles(r, rc, pr.proto, pr.cfg, "flagflip-"+s.name)
			// routing errors noticed by the scheduler (p2p with != 1 recipients, nil destination in resharing)
			// secrets
			for _, n := range rc.net.Nodes() {
				for _, sec := range secretsOf(rc, n, inputs) {
					if sec == nil || sec.BitLen() < 120 {
						continue
					}
					sb := sec.Bytes()
					for _, w := range wires[n.Name] {
						if bytes.Contains(w, sb) {
							r.Violate("secret-in-message|"+pr.proto, fmt.Sprintf("%s %s: an outgoing message of %s contains one of its long-term secrets", pr.proto, pr.cfg, n.Name), fmt.Sprintf("run %s %s", pr.proto, pr.cfg))
						}
					}
				}
			}
		}
	}
}
