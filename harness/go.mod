module verif/harness

go 1.16

require (
	github.com/bnb-chain/tss-lib/v2 v2.0.0
	github.com/btcsuite/btcd/btcec/v2 v2.3.2
	github.com/btcsuite/btcutil v1.0.2
	golang.org/x/crypto v0.13.0
	google.golang.org/protobuf v1.31.0
)

replace github.com/bnb-chain/tss-lib/v2 => /repo

replace github.com/agl/ed25519 => github.com/binance-chain/edwards25519 v0.0.0-20200305024217-f36fc4b53d43
