open Main_common
open Big_int_Z

let curve_of v = match as_atom v with
  | "secp256k1" -> Model.secp256k1
  | "ed25519" -> Model.ed25519
  | s -> raise (Bad ("curve " ^ s))
let as_pt v : Model.pt = match as_list v with
  | [x; y] -> Some (as_int x, as_int y)
  | _ -> raise (Bad "point")
(* a point argument as decoded by the checked constructor: None = refused *)
let dec_pt c v : Model.pt option = match as_list v with
  | [x; y] -> Model.new_ec_point c (as_int x) (as_int y)
  | _ -> raise (Bad "point")
let vpt (p : Model.pt) = match p with
  | Some (x, y) -> L [I x; I y]
  | None -> A "infinity"
let arity () = raise (Bad "arity")
let nat_of_int n = let rec go k acc = if k = 0 then acc else go (k-1) (Model.S acc) in go n Model.O
let h_is_prime (n : big_int) : bool = (ask "probably_prime" [Z.to_bits n |> fun s -> (* little endian -> big endian *)
    String.init (String.length s) (fun i -> s.[String.length s - 1 - i])]) = "\001"

let () =
  reg "vss_verify" (fun a -> match a with [c; t; id; sh; flat] ->
    let c = curve_of c in
    (match Model.unflatten c (as_ints flat) with
     | Model.Ok vs -> vout vbool (Model.vss_verify c (as_int t) (as_int t) (as_int id) (as_int sh) vs)
     | _ -> A "Err") | _ -> arity ());
  reg "schnorr_verify" (fun a -> match a with [c; s; x; al; t] ->
    let c = curve_of c in
    (match dec_pt c x, dec_pt c al with
     | Some x, Some al -> vout vbool (Model.zk_verify h_sha512_256 c (as_bytes s) x al (as_int t))
     | _ -> A "Err") | _ -> arity ());
  reg "schnorrv_verify" (fun a -> match a with [c; s; v; r; al; t; u] ->
    let c = curve_of c in
    (match dec_pt c v, dec_pt c r, dec_pt c al with
     | Some v, Some r, Some al -> vout vbool (Model.zkv_verify h_sha512_256 c (as_bytes s) v r al (as_int t) (as_int u))
     | _ -> A "Err") | _ -> arity ());
  reg "alice_verify" (fun a -> match a with [c; n; nt; h1; h2; ca; pf] ->
    (match as_ints pf with
     | [z; u; w; s; s1; s2] ->
       vout vbool (Model.alice_verify h_sha512_256 (curve_of c) (as_int n) (as_int nt) (as_int h1) (as_int h2) (as_int ca)
                     { Model.aZ = z; aU = u; aW = w; aS = s; aS1 = s1; aS2 = s2 })
     | _ -> raise (Bad "alice pf")) | _ -> arity ());
  let bobpf l = match l with
    | [z; zp; t; v; w; s; s1; s2; t1; t2] -> { Model.bZ = z; bZPrm = zp; bT = t; bV = v; bW = w; bS = s; bS1 = s1; bS2 = s2; bT1 = t1; bT2 = t2 }
    | _ -> raise (Bad "bob pf") in
  reg "bob_verify" (fun a -> match a with [c; s; n; nt; h1; h2; c1; c2; pf] ->
    vout vbool (Model.bob_verify h_sha512_256 (curve_of c) (as_bytes s) (as_int n) (as_int nt) (as_int h1) (as_int h2) (as_int c1) (as_int c2)
                  (bobpf (as_ints pf)) None None) | _ -> arity ());
  reg "bobwc_verify" (fun a -> match a with [c; s; n; nt; h1; h2; c1; c2; pf; u; x] ->
    let c = curve_of c in
    (match dec_pt c u, dec_pt c x with
     | Some u, Some x ->
       vout vbool (Model.bob_verify h_sha512_256 c (as_bytes s) (as_int n) (as_int nt) (as_int h1) (as_int h2) (as_int c1) (as_int c2)
                     (bobpf (as_ints pf)) (Some u) (Some x))
     | _ -> A "Err") | _ -> arity ());
  reg "fac_verify" (fun a -> match a with [c; s; n0; ncap; sv; tv; pf] ->
    (match as_ints pf with
     | [p; q; a'; b; t; sg; z1; z2; w1; w2; v] ->
       vout vbool (Model.fac_verify h_sha512_256 (curve_of c) (as_bytes s) (as_int n0) (as_int ncap) (as_int sv) (as_int tv)
                     { Model.fP = p; fQ = q; fA = a'; fB = b; fT = t; fSigma = sg; fZ1 = z1; fZ2 = z2; fW1 = w1; fW2 = w2; fV = v })
     | _ -> raise (Bad "fac pf")) | _ -> arity ());
  reg "mod_verify" (fun a -> match a with [s; n; pf] ->
    let l = Array.of_list (as_ints pf) in
    if Array.length l <> 163 then A "BadCase" else
    let sub i k = Array.to_list (Array.sub l i k) in
    vout vbool (Model.mod_verify h_sha512_256 h_is_prime (as_bytes s) (as_int n)
                  { Model.mW = l.(0); mX = sub 1 80; mA = l.(81); mB = l.(82); mZ = sub 83 80 })
    | _ -> arity ());
  reg "dln_verify" (fun a -> match a with [h1; h2; n; al; t] ->
    vout vbool (Model.dln_verify h_sha512_256 (as_int h1) (as_int h2) (as_int n) (as_ints al) (as_ints t)) | _ -> arity ());
  reg "pai_verify" (fun a -> match a with [n; k; pub; pf] ->
    (match dec_pt Model.secp256k1 pub with
     | Some (Some (sx, sy)) ->
       vout vbool (Model.pai_verify h_sha512_256 (nat_of_int 2000) (as_int n) (as_int k) sx sy (as_ints pf))
     | _ -> A "Err") | _ -> arity ());
  reg "vss_reconstruct" (fun a -> match a with [c; shares] ->
    let sh = List.map (fun s -> match as_list s with [t; id; v] -> (as_int t, as_int id, as_int v) | _ -> raise (Bad "share")) (as_list shares) in
    let thr0 = match sh with (t, _, _) :: _ -> t | [] -> zero_big_int in
    vout (fun x -> I x) (Model.vss_reconstruct (curve_of c) thr0 (List.map (fun (_, id, _) -> id) sh) (List.map (fun (_, _, v) -> v) sh))
    | _ -> arity ())
