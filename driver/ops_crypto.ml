open Main_common
open Big_int_Z

let curve_of v = match as_atom v with
  | "secp256k1" -> Model.secp256k1
  | "ed25519" -> Model.ed25519
  | "p256" -> Model.p256
  | s -> raise (Bad ("curve " ^ s))
let as_pt v : Model.pt = match as_list v with
  | [x; y] -> Some (as_int x, as_int y)
  | _ -> raise (Bad "point")
(* a point argument as decoded by the checked constructor: None = refused *)
let dec_pt c v : Model.pt option = match as_list v with
  | [x; y] -> Model.new_ec_point c (as_int x) (as_int y)
  | _ -> raise (Bad "point")
let vpt (p : Model.pt) = match p with
  | Some (x, y) -> L [I x; I y]
  | None -> A "infinity"
let arity () = raise (Bad "arity")
let nat_of_int n = let rec go k acc = if k = 0 then acc else go (k-1) (Model.S acc) in go n Model.O
let h_is_prime (n : big_int) : bool = (ask "probably_prime" [Z.to_bits n |> fun s -> (* little endian -> big endian *)
    String.init (String.length s) (fun i -> s.[String.length s - 1 - i])]) = "\001"

let () =
  reg "vss_verify" (fun a -> match a with [c; t; id; sh; flat] ->
    let c = curve_of c in
    (match Model.unflatten c (as_ints flat) with
     | Model.Ok vs -> vout vbool (Model.vss_verify c (as_int t) (as_int t) (as_int id) (as_int sh) vs)
     | _ -> A "Err") | _ -> arity ());
  reg "schnorr_verify" (fun a -> match a with [c; s; x; al; t] ->
    let c = curve_of c in
    (match dec_pt c x, dec_pt c al with
     | Some x, Some al -> vout vbool (Model.zk_verify h_sha512_256 c (as_bytes s) x al (as_int t))
     | _ -> A "Err") | _ -> arity ());
  reg "schnorrv_verify" (fun a -> match a with [c; s; v; r; al; t; u] ->
    let c = curve_of c in
    (match dec_pt c v, dec_pt c r, dec_pt c al with
     | Some v, Some r, Some al -> vout vbool (Model.zkv_verify h_sha512_256 c (as_bytes s) v r al (as_int t) (as_int u))
     | _ -> A "Err") | _ -> arity ());
  reg "alice_verify" (fun a -> match a with [c; n; nt; h1; h2; ca; pf] ->
    (match as_ints pf with
     | [z; u; w; s; s1; s2] ->
       vout vbool (Model.alice_verify h_sha512_256 (curve_of c) (as_int n) (as_int nt) (as_int h1) (as_int h2) (as_int ca)
                     { Model.aZ = z; aU = u; aW = w; aS = s; aS1 = s1; aS2 = s2 })
     | _ -> raise (Bad "alice pf")) | _ -> arity ());
  let bobpf l = match l with
    | [z; zp; t; v; w; s; s1; s2; t1; t2] -> { Model.bZ = z; bZPrm = zp; bT = t; bV = v; bW = w; bS = s; bS1 = s1; bS2 = s2; bT1 = t1; bT2 = t2 }
    | _ -> raise (Bad "bob pf") in
  reg "bob_verify" (fun a -> match a with [c; s; n; nt; h1; h2; c1; c2; pf] ->
    vout vbool (Model.bob_verify h_sha512_256 (curve_of c) (as_bytes s) (as_int n) (as_int nt) (as_int h1) (as_int h2) (as_int c1) (as_int c2)
                  (bobpf (as_ints pf)) None None) | _ -> arity ());
  reg "bobwc_verify" (fun a -> match a with [c; s; n; nt; h1; h2; c1; c2; pf; u; x] ->
    let c = curve_of c in
    (match dec_pt c u, dec_pt c x with
     | Some u, Some x ->
       vout vbool (Model.bob_verify h_sha512_256 c (as_bytes s) (as_int n) (as_int nt) (as_int h1) (as_int h2) (as_int c1) (as_int c2)
                     (bobpf (as_ints pf)) (Some u) (Some x))
     | _ -> A "Err") | _ -> arity ());
  reg "fac_verify" (fun a -> match a with [c; s; n0; ncap; sv; tv; pf] ->
    (match as_ints pf with
     | [p; q; a'; b; t; sg; z1; z2; w1; w2; v] ->
       vout vbool (Model.fac_verify h_sha512_256 (curve_of c) (as_bytes s) (as_int n0) (as_int ncap) (as_int sv) (as_int tv)
                     { Model.fP = p; fQ = q; fA = a'; fB = b; fT = t; fSigma = sg; fZ1 = z1; fZ2 = z2; fW1 = w1; fW2 = w2; fV = v })
     | _ -> raise (Bad "fac pf")) | _ -> arity ());
  reg "mod_verify" (fun a -> match a with [s; n; pf] ->
    let l = Array.of_list (as_ints pf) in
    if Array.length l <> 163 then A "BadCase" else
    let sub i k = Array.to_list (Array.sub l i k) in
    vout vbool (Model.mod_verify h_sha512_256 h_is_prime (as_bytes s) (as_int n)
                  { Model.mW = l.(0); mX = sub 1 80; mA = l.(81); mB = l.(82); mZ = sub 83 80 })
    | _ -> arity ());
  reg "dln_verify" (fun a -> match a with [h1; h2; n; al; t] ->
    vout vbool (Model.dln_verify h_sha512_256 (as_int h1) (as_int h2) (as_int n) (as_ints al) (as_ints t)) | _ -> arity ());
  (* dln_unmarshal_verify [wire parts as bytes] h1 h2 N: decode (numbers = big-endian values of the parts), then verify *)
  reg "dln_unmarshal_verify" (fun a -> match a with [w; h1; h2; n] ->
    let nums = List.map (fun b -> Model.be_value (as_bytes b)) (as_list w) in
    (match Model.dln_unmarshal nums with
     | Model.Ok (al, t) -> (match Model.dln_verify h_sha512_256 (as_int h1) (as_int h2) (as_int n) al t with
                            | Model.Ok b -> L [A "Ok"; vout vbool (Model.Ok b)]
                            | Model.Err -> A "Err" | Model.Panic -> A "Panic" | Model.Diverge -> A "Diverge")
     | Model.Err -> A "Err" | Model.Panic -> A "Panic" | Model.Diverge -> A "Diverge") | _ -> arity ());
  (* non_empty_multi [parts] n | non_empty_multi [parts] none *)
  reg "non_empty_multi" (fun a -> match a with
    | [w; A "none"] -> vbool (Model.non_empty_multi_any (List.map as_bytes (as_list w)))
    | [w; n] -> let k = Big_int_Z.int_of_big_int (as_int n) in
        if k < 0 then vbool false else vbool (Model.non_empty_multi (List.map as_bytes (as_list w)) (nat_of_int k))
    | _ -> arity ());
  reg "pai_verify" (fun a -> match a with [n; k; pub; pf] ->
    (match dec_pt Model.secp256k1 pub with
     | Some (Some (sx, sy)) ->
       vout vbool (Model.pai_verify h_sha512_256 (nat_of_int 2000) (as_int n) (as_int k) sx sy (as_ints pf))
     | _ -> A "Err") | _ -> arity ());
  reg "vss_reconstruct" (fun a -> match a with [c; shares] ->
    let sh = List.map (fun s -> match as_list s with [t; id; v] -> (as_int t, as_int id, as_int v) | _ -> raise (Bad "share")) (as_list shares) in
    let thr0 = match sh with (t, _, _) :: _ -> t | [] -> zero_big_int in
    vout (fun x -> I x) (Model.vss_reconstruct (curve_of c) thr0 (List.map (fun (_, id, _) -> id) sh) (List.map (fun (_, _, v) -> v) sh))
    | _ -> arity ())

(* ---------------- provers, Paillier, codecs, MtA ---------------- *)
let sk_of v = match as_ints v with
  | [n; l; phi; p; q] -> { Model.skN = n; skLambda = l; skPhi = phi; skP = p; skQ = q }
  | _ -> raise (Bad "sk")
let vpts ps = L (List.map vpt ps)
let flat_of (ps : Model.pt list) : v = vints (Model.flatten ps)
let vbob (p : Model.bob_pf) = vints [p.Model.bZ; p.bZPrm; p.bT; p.bV; p.bW; p.bS; p.bS1; p.bS2; p.bT1; p.bT2]
let valice (p : Model.alice_pf) = vints [p.Model.aZ; p.aU; p.aW; p.aS; p.aS1; p.aS2]
let opt_pt c v = match v with L [_; _] -> (match dec_pt c v with Some p -> Some p | None -> raise (Bad "refused point")) | _ -> None

let () =
  reg "schnorr_prove" (fun a -> match a with [c; s; x; r] ->
    let c = curve_of c in
    (match Model.ec_base_mul c (as_int x) with
     | Model.Ok xp -> vout (fun (al, t) -> L [vpt al; I t]) (Model.zk_prove h_sha512_256 c (as_bytes s) (as_int x) xp (as_int r))
     | _ -> A "Panic") | _ -> arity ());
  reg "schnorrv_prove" (fun a -> match a with [c; s; r; sv; l; ra; rb] ->
    let c = curve_of c in
    (match dec_pt c r with
     | None -> A "Err"
     | Some rp ->
       (match Model.ec_smul c rp (as_int sv), Model.ec_base_mul c (as_int l) with
        | Model.Ok sr, Model.Ok lg ->
          (match Model.ec_add c sr lg with
           | Model.Ok v -> vout (fun ((al, t), u) -> L [vpt al; I t; I u])
                             (Model.zkv_prove h_sha512_256 c (as_bytes s) v rp (as_int sv) (as_int l) (as_int ra) (as_int rb))
           | _ -> A "Err")
        | _ -> A "Panic")) | _ -> arity ());
  reg "vss_create" (fun a -> match a with [c; t; sec; ids; tail] ->
    vout (fun (vs, sh) -> L [flat_of vs; vints sh]) (Model.vss_create (curve_of c) (as_int t) (as_int sec) (as_ints ids) (as_ints tail)) | _ -> arity ());
  reg "check_indexes" (fun a -> match a with [c; ids] -> vbool (Model.check_indexes (curve_of c) (as_ints ids)) | _ -> arity ());
  reg "pai_encrypt" (fun a -> match a with [n; m; x] -> vout (fun z -> I z) (Model.encrypt (as_int n) (as_int m) (as_int x)) | _ -> arity ());
  reg "pai_homo_mult" (fun a -> match a with [n; m; c] -> vout (fun z -> I z) (Model.homo_mult (as_int n) (as_int m) (as_int c)) | _ -> arity ());
  reg "pai_homo_add" (fun a -> match a with [n; c1; c2] -> vout (fun z -> I z) (Model.homo_add (as_int n) (as_int c1) (as_int c2)) | _ -> arity ());
  reg "pai_decrypt" (fun a -> match a with [k; c] -> vout (fun z -> I z) (Model.decrypt (sk_of k) (as_int c)) | _ -> arity ());
  reg "pai_prove" (fun a -> match a with [k; kk; pub] ->
    (match dec_pt Model.secp256k1 pub with
     | Some (Some (sx, sy)) -> vout vints (Model.pai_prove h_sha512_256 (nat_of_int 2000) (sk_of k) (as_int kk) sx sy)
     | _ -> A "Err") | _ -> arity ());
  reg "alice_prove" (fun a -> match a with [c; n; ca; nt; h1; h2; m; r; rnd] ->
    (match as_ints rnd with
     | [al; be; ga; rho] ->
       L [A "Ok"; valice (Model.alice_prove h_sha512_256 (curve_of c) (as_int n) (as_int ca) (as_int nt) (as_int h1) (as_int h2) (as_int m) (as_int r) al be ga rho)]
     | _ -> raise (Bad "alice randomness")) | _ -> arity ());
  reg "bob_prove" (fun a -> match a with [c; s; n; nt; h1; h2; c1; c2; x; y; r; xo; rnd] ->
    let c = curve_of c in
    (match as_ints rnd with
     | [al; rho; sg; tau; rp; be; ga] ->
       vout (fun (pf, u) -> L [vbob pf; vpt u])
         (Model.bob_prove h_sha512_256 c (as_bytes s) (as_int n) (as_int nt) (as_int h1) (as_int h2) (as_int c1) (as_int c2) (as_int x) (as_int y) (as_int r)
            (opt_pt c xo) al rho sg tau rp be ga)
     | _ -> raise (Bad "bob randomness")) | _ -> arity ());
  reg "fac_prove" (fun a -> match a with [c; s; n0; nc; sv; tv; p; q; rnd] ->
    (match as_ints rnd with
     | [al; be; mu; nu; sg; r; x; y] ->
       let pf = Model.fac_prove h_sha512_256 (curve_of c) (as_bytes s) (as_int n0) (as_int nc) (as_int sv) (as_int tv) (as_int p) (as_int q) al be mu nu sg r x y in
       L [A "Ok"; vints [pf.Model.fP; pf.fQ; pf.fA; pf.fB; pf.fT; pf.fSigma; pf.fZ1; pf.fZ2; pf.fW1; pf.fW2; pf.fV]]
     | _ -> raise (Bad "fac randomness")) | _ -> arity ());
  reg "mod_prove" (fun a -> match a with [s; n; p; q; w] ->
    vout (fun pf -> vints ([pf.Model.mW] @ pf.mX @ [pf.mA; pf.mB] @ pf.mZ))
      (Model.mod_prove h_sha512_256 (as_bytes s) (as_int n) (as_int p) (as_int q) (as_int w)) | _ -> arity ());
  reg "dln_prove" (fun a -> match a with [h1; h2; x; p; q; n; rs] ->
    let (al, t) = Model.dln_prove h_sha512_256 (as_int h1) (as_int h2) (as_int x) (as_int p) (as_int q) (as_int n) (as_ints rs) in
    L [A "Ok"; L [vints al; vints t]] | _ -> arity ());
  reg "new_ec_point" (fun a -> match a with [c; x; y] -> vopt vpt (Model.new_ec_point (curve_of c) (as_int x) (as_int y)) | _ -> arity ());
  reg "msg_point_door" (fun a -> match a with [_; c; x; y] -> vopt vpt (Model.new_ec_point (curve_of c) (as_int x) (as_int y)) | _ -> arity ());
  reg "unflatten" (fun a -> match a with [c; l] -> vout vpts (Model.unflatten (curve_of c) (as_ints l)) | _ -> arity ());
  reg "ec_add" (fun a -> match a with [c; p; q] ->
    let c = curve_of c in
    (match dec_pt c p, dec_pt c q with
     | Some p, Some q -> vout vpt (Model.ec_add c p q)
     | _ -> A "BadPoint") | _ -> arity ());
  reg "ec_smul" (fun a -> match a with [c; p; k] ->
    let c = curve_of c in
    (match dec_pt c p with Some p -> vout vpt (Model.ec_smul c p (as_int k)) | None -> A "BadPoint") | _ -> arity ());
  reg "ec_base_mul" (fun a -> match a with [c; k] -> vout vpt (Model.ec_base_mul (curve_of c) (as_int k)) | _ -> arity ());
  reg "eight_inv_eight" (fun a -> match a with [c; p] ->
    let c = curve_of c in
    (match dec_pt c p with Some p -> vout vpt (Model.eight_inv_eight c p) | None -> A "BadPoint") | _ -> arity ());
  reg "json_point" (fun a -> match a with [name; x; y] ->
    let nm = as_atom name in
    let c = (match nm with "secp256k1" | "none" -> Some Model.secp256k1 | "ed25519" -> Some Model.ed25519 | _ -> None) in
    (match c with
     | None -> A "None"
     | Some c ->
       (match Model.new_ec_point c (as_int x) (as_int y) with
        | Some _ -> L [A "Some"; L [A (if nm = "none" then "secp256k1" else nm); x; y]]
        | None -> A "None")) | _ -> arity ());
  reg "gob_roundtrip" (fun a -> match a with [_; x; y] ->
    (* GobDecode always checks against the global curve (secp256k1 by default) *)
    (match Model.new_ec_point Model.secp256k1 (as_int x) (as_int y) with
     | Some p -> L [A "Some"; vpt p]
     | None -> A "None") | _ -> arity ());
  reg "mta_run" (fun a0 -> let (a, tamper) = (match a0 with [c; s; k; pa; pb; av; bv; bo; rnd; t] -> ([c; s; k; pa; pb; av; bv; bo; rnd], as_atom t) | _ -> (a0, "none")) in
    match a with [c; s; k; pa; pb; av; bv; bo; rnd] ->
    let c = curve_of c in
    let sk = sk_of k in
    let n = sk.Model.skN in
    let session = as_bytes s in
    (match as_ints pa, as_ints pb, as_list rnd with
     | [nta; h1a; h2a], [ntb; h1b; h2b], [xa; ar; bp; xb; br] ->
       (match as_ints ar, as_ints br with
        | [a1; a2; a3; a4], [b1; b2; b3; b4; b5; b6; b7] ->
          let bpt = opt_pt c bo in
          let n2 = mult_big_int n n in
          let alter which v =
            if tamper = which ^ "-neg" then minus_big_int v
            else if tamper = which ^ "-mirror" then sub_big_int n2 v
            else if tamper = which ^ "-plusN2" then add_big_int v n2
            else if tamper = which ^ "+1" then succ_big_int v
            else v in
          (match Model.alice_init h_sha512_256 c n (as_int av) (as_int xa) ntb h1b h2b a1 a2 a3 a4 with
           | Model.Ok (ca0, pfa) ->
             let ca = alter "cA" ca0 in
             (match Model.bob_mid h_sha512_256 c session n pfa (as_int bv) ca nta h1a h2a ntb h1b h2b bpt (as_int bp) (as_int xb) b1 b2 b3 b4 b5 b6 b7 with
              | Model.Ok ((((bet, cb0), _), pfb), u) ->
                let cb = alter "cB" cb0 in
                let uo = (match bpt with Some _ -> Some u | None -> None) in
                (match Model.alice_end h_sha512_256 c session sk pfb uo bpt ca cb nta h1a h2a with
                 | Model.Ok al -> L [A "Done"; I ca; I cb; I al; I bet]
                 | Model.Err -> L [A "AliceEndErr"; I ca; I cb]
                 | _ -> A "Panic")
              | Model.Err -> L [A "BobMidErr"; I ca]
              | _ -> A "Panic")
           | Model.Err -> L [A "AliceInitErr"]
           | _ -> A "Panic")
        | _ -> raise (Bad "mta randomness"))
     | _ -> raise (Bad "mta params")) | _ -> arity ())

(* wire round trip of proofs: a component that is 0 encodes to an empty part, which
   NonEmptyMultiBytes refuses (the decoder returns an error); signs are dropped *)
let any_zero l = List.exists (fun x -> sign_big_int x = 0) l
let () =
  let rt name n_pf =
    reg (name ^ "_rt") (fun a ->
      let pf = List.nth a n_pf in
      let ints = as_ints pf in
      if any_zero ints then A "Err"
      else
        let a' = List.mapi (fun i x -> if i = n_pf then vints (List.map abs_big_int ints) else x) a in
        (match Hashtbl.find_opt table name with Some f -> f a' | None -> A "NoModelOp")) in
  rt "alice_verify" 6; rt "bob_verify" 8; rt "fac_verify" 6; rt "mod_verify" 2;
  reg "bobwc_verify_rt" (fun a ->
    let ints = as_ints (List.nth a 8) in
    let u = as_ints (List.nth a 9) in
    if any_zero ints || any_zero u then A "Err"
    else (match Hashtbl.find_opt table "bobwc_verify" with Some f -> f a | None -> A "NoModelOp"));
  (* dln: Serialize/Unmarshal go through the commitment builder; zero components survive *)
  reg "dln_verify_rt" (fun a -> match Hashtbl.find_opt table "dln_verify" with
    | Some f -> f (List.mapi (fun i x -> if i >= 3 then vints (List.map abs_big_int (as_ints x)) else x) a)
    | None -> A "NoModelOp")
