open Main_common
open Ops_crypto
open Big_int_Z

let vsig (s : Model.sigdata) =
  L [vbytes s.Model.sR; vbytes s.sS; vbytes s.sSig; I s.sRec; vbytes s.sM]

let () =
  (* ecdsa_sign keyref [signers] [kis] [gammas] m fullLen kdd | [ks] [xs] [Y]   (the first 7 args are for the implementation) *)
  reg "ecdsa_sign" (fun a -> match a with [kref; _; kis; _; m; fl; _; ks; xs; y] ->
    (* a key reference of the form p256:... names a key on that curve *)
    let kr = as_atom kref in
    let c = if String.length kr > 5 && String.sub kr 0 5 = "p256:" then Model.p256 else Model.secp256k1 in
    vout vsig (Model.ecdsa_sign c (as_ints ks) (as_ints xs) (as_ints kis) (as_int m) (as_int fl) (as_pt y))
    | _ -> arity ());
  reg "eddsa_sign" (fun a -> match a with [_; _; ris; m; fl; ks; xs; y] ->
    vout vsig (Model.eddsa_sign h_sha512 Model.ed25519 (as_ints ks) (as_ints xs) (as_ints ris) (as_int m) (as_int fl) (as_pt y))
    | _ -> arity ());
  (* keygen curve n t [ks] [[u_i a_i1 .. a_it] ...] -> [Ok [[x_j] [X_j flat] [pub]]] *)
  reg "keygen" (fun a -> match a with [c; _; _; ks; polys] ->
    let c = curve_of c in
    let polys = List.map as_ints (as_list polys) in
    let ks = as_ints ks in
    if not (Model.check_indexes c ks) then A "Err" else
    (match Model.kg_bigx c polys ks, Model.kg_pub c polys with
     | Model.Ok bx, Model.Ok pub -> L [A "Ok"; L [vints (Model.kg_shares c polys ks); vints (Model.flatten bx); vpt pub]]
     | _ -> A "Panic")
    | _ -> arity ());
  (* reshare curve cfg... [old ks] [old xs] [[tail]...] [new ks] -> same shape as keygen over the new ids *)
  reg "reshare" (fun a -> match a with [c; _; oks; oxs; tails; nks] ->
    let c = curve_of c in
    let polys = Model.reshare_polys c (as_ints oks) (as_ints oxs) (List.map as_ints (as_list tails)) in
    let nks = as_ints nks in
    (* the old members deal to the new ids: ids that are 0 or coincide modulo the order are refused before anything is sent *)
    if not (Model.check_indexes c nks) then A "Err" else
    (match Model.kg_bigx c polys nks, Model.kg_pub c polys with
     | Model.Ok bx, Model.Ok pub -> L [A "Ok"; L [vints (Model.rs_shares c polys nks); vints (Model.flatten bx); vpt pub]]
     | _ -> A "Panic")
    | _ -> arity ());
  (* ecdsa_recover r s recid e -> point *)
  reg "ecdsa_recover" (fun a -> match a with [r; s; v; e] ->
    vpt (Model.recover Model.secp256k1 (as_int r) (as_int s) (as_int v) (as_int e)) | _ -> arity ())

(* ---------------- BIP32 public derivation ---------------- *)
let xkey_of v = match as_list v with
  | [x; y; d; i; cc; fp; ver] -> { Model.xk_x = as_int x; xk_y = as_int y; xk_depth = as_int d; xk_index = as_int i; xk_cc = as_bytes cc; xk_fp = as_bytes fp; xk_ver = as_bytes ver }
  | _ -> raise (Bad "xkey")
let vxkey (k : Model.xkey) = L [I k.Model.xk_x; I k.xk_y; I k.xk_depth; I k.xk_index; vbytes k.xk_cc; vbytes k.xk_fp; vbytes k.xk_ver]
let () =
  reg "ckd_derive" (fun a -> match a with [k; idx] ->
    vout (fun (il, ck) -> L [I il; vxkey ck]) (Model.derive_child h_hmac512 h_hash160 Model.secp256k1 (as_int idx) (xkey_of k)) | _ -> arity ());
  reg "ckd_path" (fun a -> match a with [k; path] ->
    vout (fun (d, ck) -> L [I d; vxkey ck]) (Model.derive_hierarchy h_hmac512 h_hash160 Model.secp256k1 (as_ints path) (xkey_of k) Model.secp256k1.Model.cq) | _ -> arity ());
  reg "ckd_string" (fun a -> match a with [k] -> vbytes (Model.xkey_string h_dsha256 h_base58 (xkey_of k)) | _ -> arity ())

(* ---------------- key material over a history of uses (C20) ---------------- *)
let rec nat_of_int' n = if n <= 0 then Model.O else Model.S (nat_of_int' (n - 1))
let nats v = List.map (fun x -> nat_of_int' (Big_int_Z.int_of_big_int x)) (as_ints v)
let kop_of v = match as_list v with
  | A "reload" :: _ -> Model.KReload
  | A "sign" :: sg :: kis :: m :: _ -> Model.KSign (nats sg, as_ints kis, as_int m)
  | A "signhd" :: sg :: kis :: m :: d :: _ -> Model.KSignHD (nats sg, as_ints kis, as_int m, as_int d)
  | A "signed" :: sg :: ris :: m :: _ -> Model.KSignEd (nats sg, as_ints ris, as_int m)
  | A "abort" :: sg :: _ -> Model.KAbort (nats sg)
  | _ -> raise (Bad "kop")
let vkout = function
  | Model.OReloaded -> A "reloaded"
  | Model.OAborted -> A "aborted"
  | Model.OLoadFailed -> A "loadfailed"
  | Model.OSig o -> vout vsig o
let () =
  (* key_history curve keyref t [store numbers] [ops] -> [[final store numbers] [outs]] *)
  reg "key_history" (fun a -> match a with [c; _; _; store; ops] ->
    let c = curve_of c in
    (match Model.load c (as_ints store) with
     | Model.Ok st ->
         let (fin, outs) = Model.krun h_sha512 c st (List.map kop_of (as_list ops)) in
         L [vints (Model.save fin); L (List.map vkout outs)]
     | _ -> A "StoreRefused")
    | _ -> arity ())
