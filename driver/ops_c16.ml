open Main_common
let () =
  reg "sha512_256" (fun a -> match a with [xs] ->
    vopt vbytes (Model.sha512_256 h_sha512_256 (List.map as_bytes (as_list xs))) | _ -> raise (Bad "arity"));
  reg "sha512_256i" (fun a -> match a with [xs] ->
    vopt (fun x -> I x) (Model.sha512_256i h_sha512_256 (as_ints xs)) | _ -> raise (Bad "arity"));
  reg "tagged" (fun a -> match a with [t; xs] ->
    vopt (fun x -> I x) (Model.sha512_256i_tagged h_sha512_256 (as_bytes t) (as_ints xs)) | _ -> raise (Bad "arity"));
  reg "one" (fun a -> match a with [x] -> I (Model.sha512_256i_one h_sha512_256 (as_int x)) | _ -> raise (Bad "arity"));
  reg "commit" (fun a -> match a with [r; xs] ->
    let (c, d) = Model.commit_with h_sha512_256 (as_int r) (as_ints xs) in L [I c; vints d] | _ -> raise (Bad "arity"));
  reg "cverify" (fun a -> match a with [c; d] ->
    vout vbool (Model.commit_verify_o h_sha512_256 (as_int c) (as_ints d)) | _ -> raise (Bad "arity"));
  reg "decommit" (fun a -> match a with [c; d] ->
    vout (vopt vints) (Model.decommit h_sha512_256 (as_int c) (as_ints d)) | _ -> raise (Bad "arity"));
  reg "bsecrets" (fun a -> match a with [ps] ->
    vout vints (Model.builder_secrets (List.map as_ints (as_list ps))) | _ -> raise (Bad "arity"));
  reg "bparse" (fun a -> match a with [xs] ->
    vout (fun ps -> L (List.map vints ps)) (Model.parse_secrets (as_ints xs)) | _ -> raise (Bad "arity"))
