open Main_common
let () =
  reg "sha512_256" (fun a -> match a with [xs] ->
    vopt vbytes (Model.sha512_256 h_sha512_256 (List.map as_bytes (as_list xs))) | _ -> raise (Bad "arity"));
  reg "sha512_256i" (fun a -> match a with [xs] ->
    vopt (fun x -> I x) (Model.sha512_256i h_sha512_256 (as_ints xs)) | _ -> raise (Bad "arity"));
  reg "tagged" (fun a -> match a with [t; xs] ->
    vopt (fun x -> I x) (Model.sha512_256i_tagged h_sha512_256 (as_bytes t) (as_ints xs)) | _ -> raise (Bad "arity"));
  reg "one" (fun a -> match a with [x] -> I (Model.sha512_256i_one h_sha512_256 (as_int x)) | _ -> raise (Bad "arity"));
  reg "commit" (fun a -> match a with [r; xs] ->
    let (c, d) = Model.commit_with h_sha512_256 (as_int r) (as_ints xs) in L [I c; vints d] | _ -> raise (Bad "arity"));
  reg "cverify" (fun a -> match a with [c; d] ->
    vout vbool (Model.commit_verify_o h_sha512_256 (as_int c) (as_ints d)) | _ -> raise (Bad "arity"));
  reg "decommit" (fun a -> match a with [c; d] ->
    vout (vopt vints) (Model.decommit h_sha512_256 (as_int c) (as_ints d)) | _ -> raise (Bad "arity"));
  reg "bsecrets" (fun a -> match a with [ps] ->
    vout vints (Model.builder_secrets (List.map as_ints (as_list ps))) | _ -> raise (Bad "arity"));
  reg "bparse" (fun a -> match a with [xs] ->
    vout (fun ps -> L (List.map vints ps)) (Model.parse_secrets (as_ints xs)) | _ -> raise (Bad "arity"));
  reg "builder_rt" (fun a -> match a with [ps] ->
    let parts = List.map as_ints (as_list ps) in
    (match Model.builder_secrets parts with
     | Model.Ok s ->
       (match Model.parse_secrets s with
        | Model.Ok back ->
          let same = (List.length back = List.length parts) && List.for_all2 (fun p q -> List.length p = List.length q && List.for_all2 Big_int_Z.eq_big_int p q) back parts in
          L [A "Ok"; L [vints (List.map (fun p -> Big_int_Z.big_int_of_int (List.length p)) back); vbool same]]
        | _ -> A "ParseErr")
     | _ -> A "BuildErr") | _ -> raise (Bad "arity"))
