open Main_common
open Big_int_Z

let rec nat_of_int n = if n <= 0 then Model.O else Model.S (nat_of_int (n - 1))
let rec int_of_nat = function Model.O -> 0 | Model.S k -> 1 + int_of_nat k
let nat_of v = nat_of_int (int_of_big_int (as_int v))

let cond_of v = match as_atom v with
  | "RAlways" -> Model.RAlways | "ROld" -> Model.ROld | "RNew" -> Model.RNew
  | "RNotOld" -> Model.RNotOld | "RNotNew" -> Model.RNotNew | "ROldAndNew" -> Model.ROldAndNew
  | s -> raise (Bad ("cond " ^ s))
let comm_of v = match as_atom v with "Old" -> Model.Old | "New" -> Model.New | s -> raise (Bad ("committee " ^ s))

let table_of (v : v) : Model.table =
  match as_list v with
  | [types; rounds] ->
    let ty t = match as_list t with
      | [_; b; from; single; toold; toboth] ->
        { Model.mt_bcast = as_bool b; mt_from = comm_of from; mt_single_to = as_bool single; mt_to_old = as_bool toold; mt_to_both = as_bool toboth }
      | _ -> raise (Bad "msgtype") in
    let accept a = match as_list a with
      | [t; b; c] -> { Model.ac_type = nat_of t; ac_bcast = as_bool b; ac_cond = cond_of c }
      | _ -> raise (Bad "accept") in
    let clause c = match as_list c with
      | [A "skip"; c] -> Model.USkip (cond_of c)
      | [A "error"; c] -> Model.UError (cond_of c)
      | [A "scan"; c; vec; early; stores] ->
        Model.UScan (cond_of c, { Model.sc_vec = comm_of vec;
                                  sc_stores = List.map (fun s -> match as_list s with [t; c] -> (nat_of t, cond_of c) | _ -> raise (Bad "scan store")) (as_list stores);
                                  sc_early = as_bool early })
      | _ -> raise (Bad "clause") in
    let emit e = match as_list e with
      | [t; mode; self] ->
        let m = (match mode with
          | A "bcast" -> Model.EBroadcast
          | L [A "p2p"; cm; skip] -> Model.EP2P (comm_of cm, as_bool skip)
          | _ -> raise (Bad "emit mode")) in
        { Model.em_type = nat_of t; em_mode = m; em_self_store = as_bool self }
      | _ -> raise (Bad "emit") in
    let start s = match as_list s with
      | [aop; anp; g; aopo; anpo; so; emits; e] ->
        { Model.st_all_old_pre = as_bool aop; st_all_new_pre = as_bool anp; st_guard = cond_of g;
          st_all_old_post = as_bool aopo; st_all_new_post = as_bool anpo;
          st_self_ok = (match as_atom so with "none" -> None | x -> Some (comm_of (A x)));
          st_emits = List.map emit (as_list emits); st_end = as_bool e }
      | _ -> raise (Bad "start") in
    let round r = match as_list r with
      | [acc; upd; st] -> { Model.r_accepts = List.map accept (as_list acc); r_update = List.map clause (as_list upd); r_start = start st }
      | _ -> raise (Bad "round") in
    { Model.t_types = List.map ty (as_list types); t_rounds = List.map round (as_list rounds) }
  | _ -> raise (Bad "table")

let tables : (string, Model.table) Hashtbl.t = Hashtbl.create 8
let tables_loaded = ref false
let load_tables () =
  if not !tables_loaded then begin
    tables_loaded := true;
    if !tables_path <> "" && Sys.file_exists !tables_path then begin
      let ic = open_in !tables_path in
      (try while true do
          let line = input_line ic in
          match String.index_opt line ' ' with
          | Some i ->
            let name = String.sub line 0 i in
            let rest = String.sub line (i+1) (String.length line - i - 1) in
            Hashtbl.replace tables name (table_of (L (parse_all rest)))
          | None -> ()
        done with End_of_file -> ());
      close_in ic
    end
  end

let comm_atom = function Model.Old -> A "O" | Model.New -> A "N"

let () =
  reg "engine" (fun a -> match a with [name; cfg; evs] ->
    load_tables ();
    let tbl = (match Hashtbl.find_opt tables (as_atom name) with Some t -> t | None -> raise (Bad "unknown table")) in
    let (isold, isnew, idx, nold, nnew) = (match as_list cfg with
      | [o; n; i; no; nn] -> (as_bool o, as_bool n, nat_of i, nat_of no, nat_of nn)
      | _ -> raise (Bad "cfg")) in
    let st = ref (Model.init_state tbl isold isnew idx nold nnew) in
    let ends = ref 0 in
    let types = Array.of_list tbl.Model.t_types in
    let obs_of evts =
      let descs = List.concat_map (fun e -> match e with
        | Model.EvEnd -> incr ends; []
        | Model.EvEmit (ty, mode) ->
          let tyi = int_of_nat ty in
          (match mode with
           | Model.EBroadcast ->
             let mt = types.(tyi) in
             [L [I (big_int_of_int tyi); A "true"; vbool mt.Model.mt_to_old; vbool mt.Model.mt_to_both]]
           | Model.EP2P (cm, skip) ->
             let size = int_of_nat (match cm with Model.Old -> nold | Model.New -> nnew) in
             let me = int_of_nat idx in
             List.filter_map (fun j -> if skip && j = me then None
                               else Some (L [I (big_int_of_int tyi); A "false"; comm_atom cm; I (big_int_of_int j)]))
               (List.init size (fun j -> j)))) evts in
      let s = !st in
      let active = Model.running s && not (Model.finished tbl s) in
      let rnd = if active then int_of_nat s.Model.ps_round else 0 in
      let w = if active then List.map (fun (c, j) -> L [comm_atom c; I (big_int_of_int (int_of_nat j))]) (Model.waiting s) else [] in
      L [I (big_int_of_int rnd); L w; L descs; I (big_int_of_int !ends)] in
    L (List.map (fun ev ->
        match ev with
        | A "s" -> let (s', evts) = Model.start tbl !st in st := s'; obs_of evts
        | L [ty; from; flag] -> let (s', evts) = Model.deliver tbl !st (nat_of ty) (nat_of from) (as_bool flag) in st := s'; obs_of evts
        | _ -> raise (Bad "event")) (as_list evs))
    | _ -> raise (Bad "arity"))

(* engine_final: only the final (round, result count) after start and a set of deliveries *)
let () =
  reg "engine_final" (fun a ->
    match Hashtbl.find_opt table "engine" with
    | None -> A "NoModelOp"
    | Some f ->
      (match f a with
       | L obs when obs <> [] ->
         (match List.nth obs (List.length obs - 1) with
          | L [rnd; _; _; ends] -> L [rnd; ends]
          | _ -> raise (Bad "obs"))
       | _ -> raise (Bad "engine result")))
