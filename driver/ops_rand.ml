(* C19: samplers, safe-prime worker and pre-parameter algebra on finite byte streams *)
open Main_common
open Ops_crypto

let zlen l = I (Big_int_Z.big_int_of_int (List.length l))
(* results carry the number of bytes consumed rather than the rest of the stream *)
let consumed s rest = I (Big_int_Z.big_int_of_int (List.length s - List.length rest))
let () =
  reg "rand_int" (fun a -> match a with [s; mx] ->
    let s = as_bytes s in
    vout (fun (v, rest) -> L [I v; consumed s rest]) (Model.rand_int s (as_int mx)) | _ -> arity ());
  reg "must_rand_int" (fun a -> match a with [s; bits] ->
    let s = as_bytes s in
    vout (fun (v, rest) -> L [I v; consumed s rest]) (Model.must_rand_int s (as_int bits)) | _ -> arity ());
  reg "rand_positive" (fun a -> match a with [s; lt] ->
    let s = as_bytes s in
    vout (fun (v, rest) -> L [vopt (fun x -> I x) v; consumed s rest]) (Model.get_random_positive_int s (as_int lt)) | _ -> arity ());
  reg "rand_relprime" (fun a -> match a with [s; n] ->
    let s = as_bytes s in
    vout (fun (v, rest) -> L [vopt (fun x -> I x) v; consumed s rest]) (Model.get_random_rel_prime s (as_int n)) | _ -> arity ());
  reg "rand_qr_gen" (fun a -> match a with [s; n] ->
    let s = as_bytes s in
    vout (fun (v, rest) -> L [I v; consumed s rest]) (Model.get_random_qr_generator s (as_int n)) | _ -> arity ());
  reg "rand_qnr" (fun a -> match a with [s; n] ->
    let s = as_bytes s in
    vout (fun (v, rest) -> L [I v; consumed s rest]) (Model.get_random_qnr s (as_int n)) | _ -> arity ());
  (* safe_primes #stream pbits num [finite|tail] *)
  reg "safe_primes" (fun a -> match a with s :: pb :: num :: _ ->
    vout (fun l -> L (List.map (fun (q, p) -> L [I q; I p]) l)) (Model.safe_primes h_is_prime (as_bytes s) (as_int pb) (as_int num)) | _ -> arity ());
  reg "mask_q" (fun a -> match a with [s; qb] -> I (Model.mask_q (as_bytes s) (as_int qb)) | _ -> arity ());
  (* preparams_draw #stream p q -> [Ok [Some [ntilde h1 h2 alpha beta]]] *)
  reg "preparams_draw" (fun a -> match a with [s; p; q] ->
    vout (vopt (fun (pp : Model.preparams) -> L [I pp.Model.pp_ntilde; I pp.pp_h1; I pp.pp_h2; I pp.pp_alpha; I pp.pp_beta]))
      (Model.draw_preparams (as_bytes s) (as_int p) (as_int q)) | _ -> arity ());
  reg "gen_ntildei" (fun a -> match a with [s; p; q] ->
    let s = as_bytes s in
    vout (fun (((nt, h1), h2), rest) -> L [I nt; I h1; I h2; consumed s rest]) (Model.gen_ntildei h_is_prime s (as_int p) (as_int q)) | _ -> arity ())
