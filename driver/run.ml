open Main_common
let () =
  if Array.length Sys.argv > 1 then start_oracle Sys.argv.(1);
  if Array.length Sys.argv > 2 then tables_path := Sys.argv.(2);
  (try
    while true do
      let line = input_line stdin in
      let line = String.trim line in
      if line <> "" then begin
        match String.index_opt line ' ' with
        | None -> ()
        | Some i ->
          let id = String.sub line 0 i in
          let rest = String.sub line (i+1) (String.length line - i - 1) in
          let (op, args) = match String.index_opt rest ' ' with
            | None -> (rest, "")
            | Some j -> (String.sub rest 0 j, String.sub rest (j+1) (String.length rest - j - 1)) in
          let res =
            try
              match Hashtbl.find_opt table op with
              | None -> "NoModelOp"
              | Some f -> show (f (parse_all args))
            with
            | Bad m -> "BadCase(" ^ m ^ ")"
            | Stack_overflow -> "ModelStackOverflow"
            | Not_found -> "ModelNotFound"
            | Failure m -> "ModelFailure(" ^ m ^ ")"
            | Invalid_argument m -> "ModelInvalid(" ^ m ^ ")" in
          print_string id; print_char ' '; print_string res; print_char '\n'
      end
    done
  with End_of_file -> ());
  flush stdout
