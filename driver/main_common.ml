(* Model driver: reads "id op args..." lines on stdin, evaluates the extracted
   Coq model, prints "id result".  Hash functions are answered by the Go
   standard library through the oracle process given in argv.(1). *)
open Big_int_Z

type v = I of big_int | B of string (* raw bytes *) | L of v list | A of string

exception Bad of string

(* ---------- parsing ---------- *)
let is_hex c = (c >= '0' && c <= '9') || (c >= 'a' && c <= 'f') || (c >= 'A' && c <= 'F')
let hexv c = if c >= '0' && c <= '9' then Char.code c - 48 else if c >= 'a' && c <= 'f' then Char.code c - 87 else Char.code c - 55
let unhex s =
  let n = String.length s / 2 in
  String.init n (fun i -> Char.chr (hexv s.[2*i] * 16 + hexv s.[2*i+1]))
let hex s =
  let b = Buffer.create (2 * String.length s) in
  String.iter (fun c -> Buffer.add_string b (Printf.sprintf "%02x" (Char.code c))) s; Buffer.contents b

let parse_all (s : string) : v list =
  let n = String.length s in
  let p = ref 0 in
  let ws () = while !p < n && (s.[!p] = ' ' || s.[!p] = '\t') do incr p done in
  let rec value () =
    ws ();
    if !p >= n then raise (Bad "eof");
    let c = s.[!p] in
    if c = '[' then begin
      incr p;
      let acc = ref [] in
      let fin = ref false in
      while not !fin do
        ws ();
        if !p >= n then raise (Bad "unterminated");
        if s.[!p] = ']' then (incr p; fin := true) else acc := value () :: !acc
      done;
      L (List.rev !acc)
    end else if c = '#' then begin
      incr p; let st = !p in
      while !p < n && is_hex s.[!p] do incr p done;
      B (unhex (String.sub s st (!p - st)))
    end else if c = '-' || (c >= '0' && c <= '9') then begin
      let st = !p in incr p;
      while !p < n && s.[!p] >= '0' && s.[!p] <= '9' do incr p done;
      I (big_int_of_string (String.sub s st (!p - st)))
    end else begin
      let st = !p in
      while !p < n && s.[!p] <> ' ' && s.[!p] <> ']' && s.[!p] <> '[' do incr p done;
      if st = !p then raise (Bad "char");
      A (String.sub s st (!p - st))
    end in
  let out = ref [] in
  (try while true do ws (); if !p >= n then raise Exit; out := value () :: !out done with Exit -> ());
  List.rev !out

(* ---------- printing ---------- *)
let rec show = function
  | I x -> string_of_big_int x
  | B s -> "#" ^ hex s
  | A a -> a
  | L l -> "[" ^ String.concat " " (List.map show l) ^ "]"

(* ---------- conversions ---------- *)
let bytes_to_model (s : string) : big_int list =
  List.init (String.length s) (fun i -> big_int_of_int (Char.code s.[i]))
let bytes_of_model (l : big_int list) : string =
  let b = Buffer.create 64 in
  List.iter (fun x -> Buffer.add_char b (Char.chr ((int_of_big_int x) land 255))) l; Buffer.contents b

let as_int = function I x -> x | _ -> raise (Bad "int expected")
let as_bytes = function B s -> bytes_to_model s | _ -> raise (Bad "bytes expected")
let as_list = function L l -> l | _ -> raise (Bad "list expected")
let as_ints v = List.map as_int (as_list v)
let as_atom = function A a -> a | _ -> raise (Bad "atom expected")
let as_bool v = (as_atom v = "true")
let as_nat v = Big_int_Z.int_of_big_int (as_int v)

let vbool b = A (if b then "true" else "false")
let vbytes l = B (bytes_of_model l)
let vints l = L (List.map (fun x -> I x) l)
let vopt f = function None -> A "None" | Some x -> L [A "Some"; f x]
let vout f = function
  | Model.Ok x -> L [A "Ok"; f x]
  | Model.Err -> A "Err"
  | Model.Panic -> A "Panic"
  | Model.Diverge -> A "Diverge"

(* ---------- oracle ---------- *)
let oracle_in = ref stdin
let oracle_out = ref stdout
let oracle_calls = ref 0
let start_oracle cmd =
  let (i, o) = Unix.open_process cmd in
  oracle_in := i; oracle_out := o
let ask name (args : string list) : string =
  incr oracle_calls;
  output_string !oracle_out (name ^ " " ^ String.concat " " (List.map (fun a -> if a = "" then "-" else hex a) args) ^ "\n");
  flush !oracle_out;
  unhex (input_line !oracle_in)
let h_sha512_256 (l : big_int list) : big_int list = bytes_to_model (ask "sha512_256" [bytes_of_model l])
let h_sha512 (l : big_int list) : big_int list = bytes_to_model (ask "sha512" [bytes_of_model l])
let h_sha256 (l : big_int list) : big_int list = bytes_to_model (ask "sha256" [bytes_of_model l])
let h_hmac512 (k : big_int list) (d : big_int list) : big_int list = bytes_to_model (ask "hmac_sha512" [bytes_of_model k; bytes_of_model d])
let h_hash160 (l : big_int list) : big_int list = bytes_to_model (ask "hash160" [bytes_of_model l])
let h_dsha256 (l : big_int list) : big_int list = bytes_to_model (ask "dsha256" [bytes_of_model l])
let h_base58 (l : big_int list) : big_int list = bytes_to_model (ask "base58" [bytes_of_model l])

let tables_path = ref ""

(* ---------- dispatch ---------- *)
let table : (string, v list -> v) Hashtbl.t = Hashtbl.create 64
let reg name f = Hashtbl.replace table name f
