#!/usr/bin/env python3
"""Regenerates MANIFEST.json from props_meta.json (single source for per-property texts)."""
import json, os
ROOT = os.path.dirname(os.path.abspath(__file__))
meta = json.load(open(os.path.join(ROOT, "props_meta.json")))
props = [json.loads(l) for l in open(os.path.join(ROOT, "properties.jsonl"))]
checks, na = [], []
for p in props:
    pid = p["id"]
    m = meta.get(pid)
    if not m or not m.get("claimed"):
        na.append({"property_id": pid, "reason": (m or {}).get("reason", "check not built yet in this session; the design (DESIGN.md section 6) covers it")})
        continue
    checks.append({
        "property_id": pid,
        "quick_cmd": "./check %s --tier quick" % pid,
        "thorough_cmd": "./check %s --tier thorough" % pid,
        "evidence_file": "evidence/%s.json" % pid,
        "replay_cmd_template": "./check %s --replay {path}" % pid,
        "engine": "coq-model+correspondence",
        "level_claimed": {"category": "proof", "text": m["level_text"], "design_ref": "DESIGN.md section 6, " + pid},
        "level_note": m["level_note"],
        "technique": m["technique"],
    })
man = {
    "version": 1,
    "setup_cmd": "./check --setup",
    "hooks": {
        "guard": "verif",
        "enable": "go build -tags verif (the harness module in /verif/harness replaces the tss-lib module by /repo)",
        "baseline_off_cmd": "for m in $(cat /w/out/gomods.txt); do MF=$(cd /repo/$m && . /w/out/goenv.sh && gomodflag); (cd /repo/$m && go test $MF -json -vet=off -count=1 -timeout 25m ./...); done",
        "source_commits": meta.get("_hooks", {}).get("source_commits", []),
        "add_only": True,
    },
    "engines": [
        {"name": "coq-model+correspondence", "path": "check",
         "serves_properties": [c["property_id"] for c in checks],
         "kind_free_text": "Coq 8.16 theorems over executable Gallina models (coq/), tied to /repo on every run by a go/ast translator (harness/cmd/gotables -> coq/Gen) and by a correspondence check that runs the extracted OCaml model and the Go implementation on the same generated cases (harness/cmd/vcheck, driver/)"}
    ],
    "checks": checks,
    "not_applicable": na,
    "notes": "Every check is `./check <id>`; it regenerates coq/Gen from /repo, re-checks the property's Coq theorems, rebuilds harness+model, runs the correspondence and the direct oracles, and writes evidence/<id>.json. known_findings.json lists recorded defects (status known) and repaired ones (status fixed, which suppress nothing).",
}
json.dump(man, open(os.path.join(ROOT, "MANIFEST.json"), "w"), indent=1)
print("claimed:", [c["property_id"] for c in checks])
